#!/usr/bin/env python3
"""C10 — ignore directives suppress exactly what they name, nothing else (DESIGN §6 C10)."""
import json, os, re, sys
sys.path.insert(0, os.path.dirname(os.path.abspath(__file__)))
from common import *

ck = Check("C10", level="proof")
broken = []          # proof obligations / ties that no longer check

if ck.replay_in:
    print(open(ck.replay_in).read())
    sys.exit(0)

ok, out = ck.forbidden_vernac()
if not ok:
    broken.append(("forbidden-vernacular", out))

# 1. theorems (no generated tables: the tie is the correspondence below)
ok, out = ck.coq_make(["Model/C10_Check.vo", "Proofs/C10.vo", "Examples/C10.vo"])
if not ok:
    ok2, out2 = ck.coq_make(["Model/C10_Check.vo"])
    broken.append(("coq-make", out[-3000:]))
    if not ok2:
        ck.violation("coq-model-broken", "Coq model of C10 does not compile", {"log": out2[-3000:]}, no_input=True)
        ck.finish({"evaluations": 1, "distinct_nontrivial": 0, "rule": "n/a", "samples": ["model did not compile"]})
ok, out = ck.coq_props()
if not ok:
    broken.append(("Props/C10.v", out[-3000:]))

# 2. implementation
exe, out = ck.go_build("./cmd/hc10")
if exe is None:
    ck.violation("harness-build", "harness does not build against /repo", {"log": out[-3000:]}, no_input=True)
    ck.finish({"evaluations": 1, "distinct_nontrivial": 0, "rule": "n/a", "samples": ["harness build failed"]})
work = ck.mkscratch()
res = os.path.join(work, "out.json")
if ck.thorough():
    n_in, n_par, n_var, extra = 10000, 1000, 80, ["-allruns"]
else:
    n_in, n_par, n_var, extra = 2000, 200, 20, []
env = dict(GOENV)
env["VERIF_REPO"] = REPO
rc, out = sh([exe, "-work", work, "-out", res, "-seed", str(ck.seed), "-inproc", str(n_in), "-parse", str(n_par), "-variants", str(n_var)] + extra,
             timeout=3000, env=env)
if rc != 0:
    ck.violation("harness-run", "harness run failed: " + out[-500:], {"log": out[-3000:]}, no_input=True)
    ck.finish({"evaluations": 1, "distinct_nontrivial": 0, "rule": "n/a", "samples": ["harness run failed"]})
data = json.load(open(res))
inproc, parse, cli = data["Inproc"] or [], data["Parse"] or [], data["Cli"] or []
# runner stream: each analyzer set becomes one more "CLI-like" case (prediction from the comment texts, observation =
# filterIgnored on what the real runner delivered); the serialised directives themselves join the parse stream
runner_cases = data.get("Runner") or []
runner_dir_diffs = []
for k, rc_ in enumerate(runner_cases):
    name = "run%d" % k
    data["Configs"][name] = rc_["Allowed"]
    data["Flags"][name] = "(real runner, analyzers registered: %s)" % rc_["Set"]
    cli.append({"Config": name, "Show": True, "Variant": "runner", "Remap": "", "Base": rc_["Diags"] or [], "U": [],
                "Dirs": rc_["Comments"] or [], "Out": rc_["Out"] or []})
    got = {(d["DPos"]["File"], d["DPos"]["Line"]): d for d in rc_["Dirs"] or []}
    for cm in rc_["Comments"] or []:
        d = got.pop((cm["DPos"]["File"], cm["DPos"]["Line"]), None)
        if d is None or d["NPos"]["Line"] != cm["NPos"]["Line"]:
            runner_dir_diffs.append((rc_["Set"], cm["Text"], d))
        else:
            parse.append({"Text": cm["Text"], "Cmd": d["Cmd"], "Args": d["Args"]})
    for d in got.values():
        runner_dir_diffs.append((rc_["Set"], None, d))
ck.log("harness done: %d triples, %d texts, %d CLI cases" % (len(inproc), len(parse), len(cli)))

# ------------------------------------------------------------------ Gallina literals
class Intern:
    """every distinct string of a cases file is defined once (Definition str_k := "...") and referred to by name:
    elaborating string literals dominates the cost of a cases file otherwise"""
    def __init__(self):
        self.tab = {}
    def s(self, x):
        x = "".join(ch if 32 <= ord(ch) < 127 else "?" for ch in x)
        if x not in self.tab:
            self.tab[x] = "str_%d" % len(self.tab)
        return self.tab[x]
    def defs(self):
        return "".join("Definition %s : string := %s.\n" % (n, coq_str(x)) for x, n in self.tab.items())
IN = Intern()
def s_(x):
    return IN.s(x)
def pos_(p):
    return "(mkPos %s %d %d)" % (s_(p["File"]), p["Line"], p["Col"])
SEV = ["SevError", "SevWarning", "SevIgnored"]
MSGS = {"malformed linter directive; missing the required reason field?": "msg_malformed",
        "this linter directive didn't match anything; should it be removed?": "msg_unmatched"}
def msg_(m):
    # messages of the analyzers are irrelevant to the property: abbreviated to a short token (same token for the same
    # text, so "unchanged" is still checked); the two messages produced by the code under test are kept verbatim
    if m in MSGS:
        return MSGS[m]
    if m not in msg_tok:
        msg_tok[m] = "m%d" % len(msg_tok)
    return s_(msg_tok[m])
msg_tok = {}
def diag_(d):
    return "(mkDiag %s %s %s %s %d)" % (pos_(d["Pos"]), s_(d["Cat"]), msg_(d["Msg"]), SEV[d["Sev"]], d["Rest"])
def dir_(d):
    return "(mkDir %s %s %s %s)" % (s_(d["Cmd"]), coq_list([s_(a) for a in (d["Args"] or [])]), pos_(d["DPos"]), pos_(d["NPos"]))
def allowed_(a):
    return coq_list(["(%s, %s)" % (s_(k), "true" if v == "1" else "false") for k, v in (a or [])])
def icase_(c):
    return "mkI %s %s %s %s" % (coq_list([diag_(d) for d in c["Diags"] or []]), coq_list([dir_(d) for d in c["Dirs"] or []]),
                                allowed_(c["Allowed"]), coq_list([diag_(d) for d in c["Out"] or []]))
def ccase_(c):
    return "mkC allowed_%s %s %s %s %s %s" % (
        c["Config"], "true" if c["Show"] else "false", coq_list([diag_(d) for d in c["Base"] or []]),
        coq_list(["(%s, %s)" % (diag_(u["D"]), coq_list([pos_(p) for p in u["Keepers"] or []])) for u in c["U"] or []]),
        coq_list(["(%s, %s, %s)" % (s_(d["Text"]), pos_(d["DPos"]), pos_(d["NPos"])) for d in c["Dirs"] or []]),
        coq_list([diag_(d) for d in c["Out"] or []]))

HEAD = """From Coq Require Import List ZArith String. Import ListNotations.
Require Import Verif.Model.C10 Verif.Model.C10_Spec Verif.Model.C10_Check.
Open Scope string_scope. Open Scope Z_scope.
"""
files = {}
SH = 500
ishards = [inproc[i:i + SH] for i in range(0, len(inproc), SH)]
for k, sh_ in enumerate(ishards):
    IN = Intern()
    body = coq_list([icase_(c) for c in sh_])
    files["inproc%d" % k] = HEAD + IN.defs() + """Definition cases : list icase := %s.
Definition M := Eval vm_compute in numbered_b i_mismatch cases.
Definition V := Eval vm_compute in numbered_l i_violation cases.
Definition K := Eval vm_compute in count_b in_class_i cases.
Print M. Print V. Print K.
""" % body
IN = Intern()
body = coq_list(["(%s, %s, %s)" % (s_(p["Text"]), s_(p["Cmd"]), coq_list([s_(a) for a in p["Args"] or []])) for p in parse])
files["parse"] = HEAD + IN.defs() + """Definition cases : list (string * string * list string) := %s.
Definition M := Eval vm_compute in numbered_b p_mismatch cases.
Print M.
""" % body
CSH = 60
cshards = [cli[i:i + CSH] for i in range(0, len(cli), CSH)]
for k, sh_ in enumerate(cshards):
    IN = Intern()
    adefs = "".join("Definition allowed_%s : allowed_t := %s.\n" % (n, allowed_(a)) for n, a in sorted((data["Configs"] or {}).items()))
    body = coq_list([ccase_(c) for c in sh_])
    files["cli%d" % k] = HEAD + IN.defs() + adefs + """Definition cases : list ccase := %s.
Definition M := Eval vm_compute in numbered_b c_mismatch cases.
Definition V := Eval vm_compute in numbered_l c_violation cases.
Definition K := Eval vm_compute in count_b in_class_c cases.
Print M. Print V. Print K.
""" % body
def run_cases(files):
    """as Check.coq_cases_parallel, with -noglob (the .glob of a cases file is ten times the size of the file)"""
    from concurrent.futures import ThreadPoolExecutor
    def one(name, text):
        path = os.path.join(ck.casedir, name + ".v")
        with open(path, "w") as f:
            f.write(text)
        return sh(["coqc", "-noglob", "-R", COQ, "Verif", path], cwd=ck.casedir, timeout=1500)
    with ThreadPoolExecutor(max_workers=16) as ex:
        futs = {n: ex.submit(one, n, t) for n, t in files.items()}
        return {n: f.result() for n, f in futs.items()}
results = run_cases(files)
ck.log("cases evaluated")

# ------------------------------------------------------------------ reading the answers
def parse_coq(val):
    """Coq-printed nested lists/tuples of numbers and strings -> python lists."""
    val = re.sub(r"%(nat|Z|string)", "", val)
    i, n = 0, len(val)
    def ws():
        nonlocal i
        while i < n and val[i].isspace():
            i += 1
    def item():
        nonlocal i
        ws()
        if val[i] in "[(":
            close = "]" if val[i] == "[" else ")"
            i += 1
            res = []
            ws()
            if val[i] == close:
                i += 1
                return res
            while True:
                res.append(item())
                ws()
                if val[i] in ";,":
                    i += 1
                    continue
                if val[i] == close:
                    i += 1
                    return res
                raise ValueError("unexpected %r at %d" % (val[i], i))
        if val[i] == '"':
            i += 1
            s = ""
            while True:
                if val[i] == '"':
                    if i + 1 < n and val[i + 1] == '"':
                        s += '"'; i += 2; continue
                    i += 1
                    return s
                s += val[i]; i += 1
        m = re.match(r"-?\d+", val[i:])
        if not m:
            raise ValueError("unexpected %r at %d" % (val[i:i + 20], i))
        i += len(m.group(0))
        return int(m.group(0))
    return item()

def glob(p, s):
    if not p:
        return not s
    if p[0] == "*":
        return any(glob(p[1:], s[k:]) for k in range(len(s) + 1))
    return bool(s) and (p[0] == "?" or p[0] == s[0]) and glob(p[1:], s[1:])

def name_class(args, allowed):
    """why could an unmatched-directive report be missing: classify the name list"""
    names = [x.lower() for x in (args[0].split(",") if args else [])]
    en = [a for a, v in allowed if v == "1" and a != "u1000"]
    first_u = next((k for k, x in enumerate(names) if glob(x, "u1000")), None)
    first_en = next((k for k, x in enumerate(names) if not glob(x, "u1000") and any(glob(x, a) for a in en)), None)
    if first_u is not None and (first_en is None or first_u < first_en):
        return "u1000-named-before-enabled"
    if first_en is not None and names[first_en] not in en:
        return "glob-name"
    return "plain"

def parse_text(t):
    f = t[len("//lint:"):].split(" ")
    return f[0], f[1:]

def has_reason(args):
    return len(args) >= 2 and "".join(args[1:]) != ""

nmis, n_in_class, evals = 0, 0, 0
first_mismatch = None
seen_keys = {}
def report(kind_key, what, replay):
    # one replay file / one output line per class of failing input (the first instance); instances are counted
    seen_keys[kind_key] = seen_keys.get(kind_key, 0) + 1
    if seen_keys[kind_key] == 1:
        ck.violation(kind_key, what, replay)

for name, (rc, out) in sorted(results.items()):
    M, V = ck.printed_value(out, "M"), ck.printed_value(out, "V")
    if rc != 0 or M is None or (V is None and not name.startswith("parse")):
        ck.violation("cases-eval", "cases file %s did not evaluate" % name, {"log": out[-3000:]}, no_input=True)
        continue
    M = parse_coq(M)
    if name.startswith("parse"):
        for i in M:
            p = parse[i]
            nmis += 1
            first_mismatch = first_mismatch or ("parse", p)
            # the property only speaks about "a directive without a reason": judged through the other streams
        continue
    V = parse_coq(V)
    K = int(re.sub(r"%nat", "", ck.printed_value(out, "K") or "0"))
    n_in_class += K
    if name.startswith("inproc"):
        shard = ishards[int(name[6:])]
        for i in M:
            nmis += 1
            first_mismatch = first_mismatch or ("inproc", shard[i])
        for i, vs in V:
            c = shard[i]
            for kind, f, cat, line, col in vs:
                rep = {"stream": "in-process filterIgnored", "diagnostics": c["Diags"], "directives": c["Dirs"], "allowed": c["Allowed"], "observed": c["Out"],
                       "rerun": "VERIF_SEED=%d ./check C10" % ck.seed}
                dirs_here = [d for d in c["Dirs"] or [] if d["DPos"] == {"File": f, "Line": line, "Col": col}]
                nodes_here = [d for d in c["Dirs"] or [] if d["NPos"] == {"File": f, "Line": line, "Col": col}]
                if kind == 1:
                    report("other-fields-changed", "filterIgnored changed a field other than the severity of input diagnostic #%d (%s), or dropped it" % (line, cat), rep)
                elif kind == 2:
                    report("not-suppressed", "%s at %s:%d is named by a well-formed directive on its line/file but was not marked ignored" % (cat, f, line), rep)
                elif kind == 3:
                    mal = [d for d in c["Dirs"] or [] if d["Cmd"] in ("ignore", "file-ignore") and not has_reason(d["Args"] or [])]
                    key = "suppressed-by-directive-without-reason" if mal else "over-suppressed"
                    report(key, "%s at %s:%d was marked ignored although no well-formed directive names it there (directives: %s)" % (
                        cat, f, line, [(d["Cmd"], d["Args"]) for d in c["Dirs"] or []]), rep)
                elif kind == 4 and cat == "compile":
                    cands = [d for d in nodes_here if d["Cmd"] in ("ignore", "file-ignore") and not has_reason(d["Args"] or [])]
                    d = ([d for d in cands if len(d["Args"] or []) >= 2] or cands or [{"Args": None}])[0]
                    key = "no-error-for-empty-reason" if len(d["Args"] or []) >= 2 else "no-error-for-missing-reason"
                    report(key, "directive %s without a reason produced no error" % ((d.get("Cmd"), d["Args"]),), rep)
                elif kind == 4:
                    d = (dirs_here or [{"Args": None}])[0]
                    cls = name_class(d["Args"] or [], c["Allowed"] or [])
                    report("unmatched-silent:" + cls, "line directive %s suppressed nothing and names an enabled check other than U1000, but was not reported (%s)" % (
                        (d["Args"] or [""])[0], cls), rep)
                elif kind == 5:
                    key = {"staticcheck": "unmatched-spurious", "compile": "spurious-error"}.get(cat, "spurious-extra")
                    report(key, "unexpected extra diagnostic %s at %s:%d:%d" % (cat, f, line, col), rep)
    else:
        shard = cshards[int(name[3:])]
        for i in M:
            nmis += 1
            first_mismatch = first_mismatch or ("cli", shard[i])
        for i, vs in V:
            c = shard[i]
            allowed = data["Configs"][c["Config"]]
            flag = data["Flags"][c["Config"]]
            rep = {"stream": "command line", "checks_flag": flag, "show_ignored": c["Show"], "inserted": c["Dirs"], "source": data["Sources"].get(c["Variant"]),
                   "base_source": data["Sources"].get("base"), "observed": c["Out"], "differences": vs,
                   "rerun": "write the source into a module and run: staticcheck -f json %s%s ./..." % ("-show-ignored " if c["Show"] else "", ("-checks " + flag) if flag else "")}
            missing = [v for v in vs if v[0] == 6]
            extra = [v for v in vs if v[0] == 7]
            for kind, f, cat, line, col in missing:
                here = [d for d in c["Dirs"] if d["DPos"] == {"File": f, "Line": line, "Col": col}]
                nodes = [d for d in c["Dirs"] if d["NPos"]["File"] == f and d["NPos"]["Line"] == line]
                twin = [e for e in extra if e[1:] == [f, cat, line, col]]
                if cat == "staticcheck":
                    cmd, args = parse_text(here[0]["Text"]) if here else ("", [])
                    cls = name_class(args, allowed)
                    report("unmatched-silent:" + cls, "`%s` suppressed nothing and names an enabled check other than U1000, but was not reported (%s; -checks %s)" % (
                        here[0]["Text"] if here else "?", cls, flag or "default"), rep)
                elif cat == "compile":
                    cmd, args = parse_text(nodes[0]["Text"]) if nodes else ("", [])
                    key = "no-error-for-empty-reason" if len(args) >= 2 else "no-error-for-missing-reason"
                    report(key, "`%s` has no reason but produced no error" % (nodes[0]["Text"] if nodes else "?"), rep)
                elif cat == "U1000":
                    texts = [d["Text"] for d in c["Dirs"]]
                    mal = [t for t in texts if not has_reason(parse_text(t)[1])]
                    key = "u1000-suppressed-by-directive-without-reason" if mal else "u1000-over-suppressed"
                    report(key, "U1000 problem at %s:%d disappeared although no well-formed directive names it (inserted: %s)" % (f, line, texts), rep)
                elif twin:
                    exp_ignored = any(d for d in c["Out"] or [] if d["Pos"] == {"File": f, "Line": line, "Col": col} and d["Cat"] == cat and d["Sev"] != 2)
                    if exp_ignored:
                        report("not-suppressed", "%s at %s:%d is named by a well-formed directive on its line/file but is still reported (inserted: %s)" % (
                            cat, f, line, [d["Text"] for d in c["Dirs"]]), rep)
                    else:
                        texts = [d["Text"] for d in c["Dirs"]]
                        mal = [t for t in texts if not has_reason(parse_text(t)[1])]
                        report("suppressed-by-directive-without-reason" if mal else "over-suppressed",
                               "%s at %s:%d was suppressed although no well-formed directive names it there (inserted: %s)" % (cat, f, line, texts), rep)
                elif not c["Show"] and any(b for b in c["Base"] or [] if b["Pos"] == {"File": f, "Line": line, "Col": col} and b["Cat"] == cat):
                    texts = [d["Text"] for d in c["Dirs"]]
                    mal = [t for t in texts if not has_reason(parse_text(t)[1])]
                    report("suppressed-by-directive-without-reason" if mal else "over-suppressed",
                           "%s at %s:%d was suppressed although no well-formed directive names it there (inserted: %s)" % (cat, f, line, texts), rep)
                else:
                    report("problem-lost", "%s at %s:%d:%d of the base report is missing after inserting %s" % (cat, f, line, col, [d["Text"] for d in c["Dirs"]]), rep)
            for kind, f, cat, line, col in extra:
                if [m for m in missing if m[1:] == [f, cat, line, col]]:
                    continue
                if cat == "U1000":
                    texts = [d["Text"] for d in c["Dirs"]]
                    exact = [t for t in texts if "U1000" in parse_text(t)[1][0].split(",")] if texts else []
                    report("u1000-not-suppressed" if exact else "u1000-not-suppressed:spelling",
                           "U1000 problem at %s:%d is still reported although a well-formed directive attached to its line/file names U1000 (%s)" % (f, line, texts), rep)
                elif cat == "staticcheck":
                    report("unmatched-spurious", "directive at %s:%d reported as matching nothing although it suppressed a problem or names no enabled check (%s)" % (
                        f, line, [d["Text"] for d in c["Dirs"]]), rep)
                elif cat == "compile":
                    report("spurious-error", "unexpected compile error at %s:%d:%d (%s)" % (f, line, col, [d["Text"] for d in c["Dirs"]]), rep)
                elif not c["Show"] and any(b for b in c["Base"] or [] if b["Pos"] == {"File": f, "Line": line, "Col": col} and b["Cat"] == cat):
                    report("not-suppressed", "%s at %s:%d is named by a well-formed directive on its line/file but is still reported (inserted: %s)" % (
                        cat, f, line, [d["Text"] for d in c["Dirs"]]), rep)
                else:
                    report("problem-appeared", "%s at %s:%d:%d is not in the base report (inserted: %s)" % (cat, f, line, col, [d["Text"] for d in c["Dirs"]]), rep)

total = len(inproc) + len(cli)
if n_in_class != total and not [v for v in ck.violations if v["key"] == "cases-eval"]:
    broken.append(("generator-class", "%d of %d generated cases are outside the restricted glob class (simple_glob)" % (total - n_in_class, total)))
KNOWN = load_known_findings().get("C10", {})
def unexplained():
    """violations with a concrete input that are not recorded findings"""
    return [v for v in ck.violations if not v["no_input"] and v["key"] not in KNOWN]
if runner_dir_diffs and not unexplained():
    ck.violation("runner-directives", "the runner's serialised directives differ from the comments of the package (%d differences), e.g. %s" % (
        len(runner_dir_diffs), runner_dir_diffs[0]), {"differences": runner_dir_diffs[:20]}, no_input=True)
if nmis and not unexplained():
    # the property predicate holds on everything explored but the transcription of the code disagrees with the code
    kind, c = first_mismatch
    ck.violation("model-mismatch", "model and implementation disagree (%d cases, first in stream %s) although the property holds on all explored cases" % (nmis, kind),
                 {"first": c}, no_input=True)
if broken and not [v for v in ck.violations if v["key"] not in KNOWN]:
    ck.violation("obligation:" + broken[0][0], "proof obligation or tie no longer checks: %s" % broken[0][0], {"broken": broken}, no_input=True)

# ------------------------------------------------------------------ coverage (measured)
def nontrivial_i(c):
    return any(d["Cmd"] in ("ignore", "file-ignore") for d in c["Dirs"] or []) and bool(c["Diags"])
sig = set()
for c in inproc:
    for d in c["Dirs"] or []:
        sig.add((d["Cmd"], tuple(d["Args"] or [])))
for c in cli:
    for d in c["Dirs"] or []:
        sig.add(d["Text"])
ck.assume += ["ast.NewCommentMap attaches a comment placed directly above a statement/declaration line to a node starting on that line (not modelled; exercised by every CLI case)",
              "path/filepath.Match agrees with glob_match on the restricted class simple_glob x simple_subject (compared on every case; names outside the class are not generated)",
              "check names and categories are ASCII (strings.ToLower = lower)"]
ck.trusted.append("harness/cmd/hc10 (generators, JSON records) and checks/C10.py (Gallina literals, classification of differences)")
ck.finish({
    "evaluations": len(inproc) + len(parse) + len(cli),
    "distinct_nontrivial": len(sig),
    "rule": "one evaluation = one (diagnostics, directives, allowed) triple through filterIgnored, one comment text through go/parser+lint.ParseDirectives, or one (variant package, -checks setting, -show-ignored) report of the command line compared with the prediction from the base report; distinct_nontrivial = distinct directive (command, arguments) lists exercised",
    "samples": [{"triple": inproc[0] if inproc else None}, {"text": parse[0] if parse else None},
                {"cli": {"inserted": cli[0]["Dirs"], "config": cli[0]["Config"], "observed_n": len(cli[0]["Out"] or [])} if cli else None}],
    "inproc_triples": len(inproc), "inproc_with_directive_and_diagnostics": sum(1 for c in inproc if nontrivial_i(c)),
    "comment_texts": len(parse), "cli_cases": len(cli), "cli_variants": len({c["Variant"] for c in cli}),
    "cli_cases_with_line_remap_before_directive": sum(1 for c in cli if c.get("Remap") == "before"),
    "cli_cases_with_line_remap_control": sum(1 for c in cli if c.get("Remap") == "control"),
    "runner_cases": [rc_["Set"] for rc_ in runner_cases], "runner_directive_differences": len(runner_dir_diffs),
    "cli_settings": data["Flags"], "in_restricted_class": n_in_class, "model_mismatches": nmis,
    "property_differences_by_key": seen_keys,
})
