#!/usr/bin/env python3
"""C05 — the cache never serves wrong bytes under crashes, truncation, concurrency (DESIGN §6 C05)."""
import json, os, re, sys
sys.path.insert(0, os.path.dirname(os.path.abspath(__file__)))
from common import *

ck = Check("C05", level="proof")
broken = []          # proof obligations / ties that no longer check

if ck.replay_in:
    print(open(ck.replay_in).read())
    sys.exit(0)

ok, out = ck.forbidden_vernac()
if not ok:
    # the scan covers the whole development; only files this property's theorems are built from count here
    # (C05 uses no Lib file; Print Assumptions below shows the closure of every theorem)
    mine = [l for l in out.splitlines() if re.search(r"/coq/(Model|Proofs|Props|Examples|Gen)/C05", l)]
    if mine:
        broken.append(("forbidden-vernacular", "\n".join(mine)))
    else:
        ck.notes.append("forbidden-vernacular scan flagged files of other properties only (ignored for C05)")

def bail(key, what, log):
    ck.violation(key, what, {"log": log[-3000:]}, no_input=True)
    ck.finish({"evaluations": 1, "distinct_nontrivial": 0, "rule": "n/a", "samples": [what]})

# ---------------------------------------------------------------- 1. translator + theorems
ok, out = ck.genmodel()
if not ok:
    broken.append(("genmodel (lintcmd/cache/cache.go no longer has the recognised shape)", out[-2000:]))
ok, out = ck.coq_make(["Model/C05_Check.vo"])
if not ok:
    bail("coq-model-broken", "Coq model of C05 does not compile", out)
ok, out = ck.coq_make(["Gen/C05_CacheLayout.vo", "Proofs/C05.vo", "Examples/C05.vo"])   # Gen must be rebuilt: Props depends on it
if not ok:
    broken.append(("coq-make Proofs/C05 Examples/C05", out[-3000:]))
else:
    ok, out = ck.coq_props()
    if not ok:
        broken.append(("Props/C05.v", out[-3000:]))
ck.log("theorems re-checked" if not broken else "BROKEN: %s" % [b[0] for b in broken])

# ---------------------------------------------------------------- 2. implementation
exe, out = ck.go_build("./cmd/hc05")
if exe is None:
    bail("harness-build", "harness does not build against the repository", out)
work = ck.mkscratch()
T = ck.thorough()

def run_mode(mode, extra, timeout=1500):
    res = os.path.join(work, mode + ".json")
    rc, out = sh([exe, "-mode", mode, "-work", work, "-out", res, "-seed", str(ck.seed)] + extra, timeout=timeout)
    if rc != 0:
        bail("harness-run-" + mode, "harness run failed (%s): %s" % (mode, out[-600:]), out)
    return json.load(open(res))

hist = run_mode("hist", ["-random", "1500" if T else "150", "-maxops", "14"] + (["-thorough"] if T else []))
ck.log("histories: %d cases, %d ops" % (len(hist["Cases"]), sum(len(c["Ops"]) for c in hist["Cases"])))
codec = run_mode("codec", ["-mutations", "6000" if T else "600"])
stress = run_mode("stress", ["-procs", "6" if T else "4", "-rounds", "10" if T else "3", "-ops", "300" if T else "150"])
ck.log("codec: %d cases; stress: %d ops, %d lookups hit, %d writers died" % (len(codec["Codec"]), stress["Ops"], len(stress["Lookups"] or []), stress["Died"]))

# ---------------------------------------------------------------- 3. Coq literals
def nlist(b):
    return "[" + "; ".join(str(x) for x in (b or [])) + "]"

def blit(b):
    b = b or []
    if b and all((32 <= c < 127) or c == 10 for c in b) and len(b) > 8:
        return '(bs "%s")' % "".join('""' if c == 34 else chr(c) for c in b)
    if len(b) > 6:
        return '(hx "%s")' % bytes(b).hex()
    return nlist(b)

HEAD = """From Coq Require Import Ascii String.
From Coq Require Import List NArith ZArith Bool.
Import ListNotations.
Require Import Verif.Model.C05_Types Verif.Model.C05_Codec Verif.Model.C05_FS Verif.Model.C05_Check.
Open Scope string_scope.
Open Scope N_scope.
"""

keyname = {k: "k%d" % i for i, k in enumerate(hist["Keys"])}
hashname = {h: "h%d" % i for i, h in enumerate(hist["Hashes"])}
defs = []
for k, n in keyname.items():
    defs.append('Definition %s := hx "%s".' % (n, k))
for h, n in hashname.items():
    defs.append('Definition %s := hx "%s".' % (n, h))
for i, c in enumerate(hist["Contents"]):
    defs.append("Definition x%d : list N := %s." % (i, nlist(c)))
defs.append("Definition tab : htab := %s." % coq_list(["(x%d, h%d)" % (i, i) for i in range(len(hist["Contents"]))]))

def idref(hexid):
    return keyname.get(hexid) or hashname.get(hexid) or '(hx "%s")' % hexid

def pathref(p):
    return "(%s %s)" % ("FA" if p["Kind"] == "a" else "FD", idref(p["Id"]))

def res_v(r):
    k = r["Kind"]
    if k == "":
        return "ONone"
    if k == "blocked":
        return "OBlocked"
    if k == "finished":
        return "OFinished"
    if k == "miss":
        return "OMiss"
    if k == "entry":
        return "(OEntry %s %d %d)" % (idref(r["Out"]), r.get("Size", 0), r.get("Time", 0))
    if k == "file":
        return "(OFile %s %d %s)" % (idref(r["Out"]), r.get("Size", 0), nlist(r.get("Data")))
    if k == "bytes":
        return "(OBytes %s)" % nlist(r.get("Data"))
    return "ONone (* %s *)" % k

def op_v(o):
    n = o["Op"]
    k, x, t = "k%d" % o["K"], "x%d" % o["X"], o["T"]
    if n == "Put":
        return "HPut %s %s %d" % (k, x, t)
    if n == "Begin":
        return "HBegin %d %s %s %d" % (o["W"], k, x, t)
    if n == "Adv":
        return "HAdv %d %d" % (o["W"], t)
    if n == "CrashW":
        return "HCrashW %d" % o["W"]
    if n == "PutNoIndex":
        return "HPutNoIndex %s %s" % (k, x)
    if n == "Trunc":
        return "HTrunc %s %d" % (pathref(o["Path"]), o.get("N", 0))
    if n == "TruncAny":
        return "HTruncAny %s %d" % (pathref(o["Path"]), o.get("N", 0))
    if n == "Delete":
        return "HDelete %s" % pathref(o["Path"])
    if n == "Touch":
        return "HTouch %s %d" % (pathref(o["Path"]), o["Age"])
    if n == "SetTrim":
        return "HSetTrim %s" % ("None" if o["Age"] < 0 else "(Some %d)" % o["Age"])
    if n == "Trim":
        return "HTrim"
    return "H%s %s" % (n, k)

def diff_v(d):
    items = []
    for e in d or []:
        if e["Gone"]:
            items.append("(%s, None)" % pathref(e["Path"]))
        else:
            items.append("(%s, Some (%s, %d))" % (pathref(e["Path"]), blit(e["Data"]), max(0, e["Age"])))
    return coq_list(items)

def case_v(c):
    ops = ["(%s, mkObs %s %s)" % (op_v(o), res_v(o["Res"]), diff_v(o["Diff"])) for o in c["Ops"]]
    return "mkCase %s\n  %s" % (coq_bool(c["PremiseOK"]), coq_list(ops).replace("); (H", ");\n   (H"))

cases = hist["Cases"]
NSH = 16 if T else 5
files = {}
shard_of = {}
for s in range(NSH):
    idx = list(range(s, len(cases), NSH))
    if not idx:
        continue
    shard_of[s] = idx
    text = HEAD + "\n".join(defs) + "\nDefinition cases : list hcase := [\n" + ";\n".join(case_v(cases[i]) for i in idx) + "].\n"
    text += "Definition M := Eval vm_compute in mismatches tab cases.\nDefinition V := Eval vm_compute in violations tab cases.\nPrint M.\nPrint V.\n"
    files["hist%02d" % s] = text

# codec
def opt_res(c):
    if not c["Hit"]:
        return "None"
    return "(Some (%s, %d, %d))" % ('hx "%s"' % c["Out"], c["Size"], c["Time"])
cc = codec["Codec"]
def cc_bytes(c):
    return "(build_bytes e%d %s %s %s)" % (c["Base"], "None" if c["Prefix"] < 0 else "(Some %d%%nat)" % c["Prefix"],
                                          coq_list(["(%d%%nat, %d)" % (p[0], p[1]) for p in (c["Patch"] or [])]), nlist(c["Ext"]))
CSH = 400
codec_shards = {}
edefs = "".join("Definition e%d := %s.\n" % (i, blit(f["Bytes"])) for i, f in enumerate(codec["Format"]))
for s0 in range(0, len(cc), CSH):
    part = cc[s0:s0 + CSH]
    name = "codec%02d" % (s0 // CSH)
    codec_shards[name] = s0
    ctext = HEAD + edefs + "Definition ccases : list ccase := [\n" + ";\n".join(
        'mkCC (hx "%s") %s %s %d %s' % (c["Key"], cc_bytes(c), opt_res(c), c["Kind"],
                                      ('(Some (hx "%s", %d))' % (c["ExpOut"], c["ExpSz"])) if c["Kind"] == 3 else "None") for c in part) + "].\n"
    if s0 == 0:
        ctext += "Definition fcases : list (list N * list N * N * N * list N) := [\n" + ";\n".join(
            '(hx "%s", hx "%s", %d, %d, e%d)' % (f["Key"], f["Out"], f["Size"], f["T"], i) for i, f in enumerate(codec["Format"])) + "].\n"
    else:
        ctext += "Definition fcases : list (list N * list N * N * N * list N) := [].\n"
    ctext += "Definition CM := Eval vm_compute in codec_mismatches ccases.\nDefinition CV := Eval vm_compute in codec_violations ccases.\nDefinition FM := Eval vm_compute in format_mismatches fcases.\nPrint CM.\nPrint CV.\nPrint FM.\n"
    files[name] = ctext

# stress
lookups = stress["Lookups"] or []
stext = HEAD + "Definition puts : list (nat * list (nat * list N)) := %s.\n" % coq_list(
    ["(%s%%nat, %s)" % (k, coq_list(["(%d%%nat, %s)" % (v, blit(val)) for v, val in zip(stress["PutIdx"][k], vs)]))
     for k, vs in sorted(stress["Puts"].items())])
stext += "Definition lookups : list (nat * bool * (nat + list N)) := [\n" + ";\n".join(
    "(%d%%nat, %s, %s)" % (l["K"], coq_bool(l.get("File", False)),
                          ("inl %d%%nat" % l["Known"]) if l["Known"] >= 0 else ("inr %s" % blit(l.get("Data")))) for l in lookups) + "].\n"
stext += "Definition SV := Eval vm_compute in stress_violations puts lookups.\nDefinition SW := Eval vm_compute in stress_window puts lookups.\nPrint SV.\nPrint SW.\n"
files["stress"] = stext

res = ck.coq_cases_parallel(files)
ck.log("cases evaluated")

def parse_numbered(val):
    """[(3%nat, [(2%nat, MListing); ...]); ...] -> list of (case index, inner text); inner lists hold no nested brackets
    except observation payloads, which are scanned by bracket depth"""
    out = []
    val = val or ""
    i, n = 0, len(val)
    depth = 0
    start = None
    while i < n:
        ch = val[i]
        if ch == "[":
            depth += 1
            if depth == 2:
                start = i
        elif ch == "]":
            if depth == 2 and start is not None:
                head = val[:start]
                m = re.search(r"\((\d+)%nat,\s*$", head)
                if m:
                    out.append((int(m.group(1)), val[start + 1:i]))
                start = None
            depth -= 1
        i += 1
    return out

def describe(c, upto=None):
    ops = []
    for i, o in enumerate(c["Ops"]):
        d = {"op": o["Op"], "key": o["K"]}
        if o["X"] >= 0:
            d["content"] = hist["Contents"][o["X"]]
        for f in ("W", "N", "Path"):
            if o.get(f):
                d[f.lower()] = o[f]
        if o["Op"] in ("Touch", "SetTrim"):
            d["age_h"] = o["Age"]
        if o["Res"]["Kind"]:
            d["observed"] = o["Res"]
        ops.append(d)
        if upto is not None and i >= upto:
            break
    return {"kind": c["Kind"], "one_shared_cache_handle": bool(c.get("Shared")), "ops": ops}

hist_mism, hist_viol = [], []
evaluated_ok = True
for s, idx in shard_of.items():
    rc, out = res["hist%02d" % s]
    M, V = ck.printed_value(out, "M"), ck.printed_value(out, "V")
    if rc != 0 or M is None or V is None:
        evaluated_ok = False
        ck.violation("cases-eval", "history cases file did not evaluate", {"log": out[-3000:]}, no_input=True)
        break
    for (j, txt) in parse_numbered(V):
        hist_viol.append((idx[j], txt))
    for (j, txt) in parse_numbered(M):
        hist_mism.append((idx[j], txt))
    if M != "[]" and not parse_numbered(M):
        hist_mism.append((idx[0], M[:500]))
    if V != "[]" and not parse_numbered(V):
        hist_viol.append((idx[0], V[:500]))

for ci, txt in hist_viol[:10]:
    c = cases[ci]
    m = re.match(r"\s*\((\d+)%nat", txt)
    opi = int(m.group(1)) if m else len(c["Ops"]) - 1
    o = c["Ops"][opi]
    key = "history:%s:%s" % (c["Kind"], o["Op"])
    if o["Op"] == "Put":
        what = "Put under key %d returned nil but the file named by OutputFile(out) then held %s instead of the stored content %s (history kind %s, op %d, %s)" % (
            o["K"], json.dumps(o["Res"])[:160], hist["Contents"][o["X"]], c["Kind"], opi, "one shared cache handle" if c.get("Shared") else "handle per op")
    else:
        what = "%s under key %d returned %s, which was never stored under that key (history kind %s, op %d)" % (
            o["Op"], o["K"], json.dumps(o["Res"])[:200], c["Kind"], opi)
    ck.violation(key, what,
        {"history": describe(c, opi), "rerun": "VERIF_SEED=%d ./check C05 (case %d)" % (ck.seed, ci)})
for c in cases:
    if c.get("Stray"):
        hist_mism.append((cases.index(c), "stray files: %s" % c["Stray"][:3]))

codec_bad = None
for name, s0 in sorted(codec_shards.items()):
    rc, out = res[name]
    CM, CV, FM = ck.printed_value(out, "CM"), ck.printed_value(out, "CV"), ck.printed_value(out, "FM")
    if rc != 0 or CM is None or CV is None or FM is None:
        ck.violation("cases-eval-codec", "codec cases file did not evaluate", {"log": out[-3000:]}, no_input=True)
        break
    for m in re.finditer(r"(\d+)%nat", CV):
        c = cc[s0 + int(m.group(1))]
        kind = {1: "a strict prefix of a real entry", 2: "the entry of another key", 3: "a real entry"}.get(c["Kind"], "?")
        ck.violation("codec:kind%d" % c["Kind"], "Get on an index file holding %s (%d bytes) answered %s" % (
            kind, len(c["Bytes"]), ("hit out=%s size=%d" % (c["Out"][:12], c["Size"])) if c["Hit"] else "miss"),
            {"key": c["Key"], "bytes": bytes(c["Bytes"]).decode("latin1"), "impl": {"hit": c["Hit"], "out": c["Out"], "size": c["Size"]},
             "expected": {"out": c["ExpOut"], "size": c["ExpSz"]} if c["Kind"] == 3 else "miss"})
        break
    if (CM != "[]" or FM != "[]") and codec_bad is None:
        codec_bad = {"codec_mismatches": CM[:500], "format_mismatches": FM[:300]}
        for m in re.finditer(r"(\d+)%nat", CM):
            c = cc[s0 + int(m.group(1))]
            codec_bad["first"] = {"key": c["Key"], "bytes": bytes(c["Bytes"]).decode("latin1"), "impl_hit": c["Hit"]}
            break

rc, out = res["stress"]
SV, SW = ck.printed_value(out, "SV"), ck.printed_value(out, "SW")
window = 0
if rc != 0 or SV is None or SW is None:
    ck.violation("cases-eval-stress", "stress cases file did not evaluate", {"log": out[-3000:]}, no_input=True)
else:
    window = len(re.findall(r"%nat", SW))
    for m in re.finditer(r"(\d+)%nat", SV):
        l = lookups[int(m.group(1))]
        ck.violation("stress:%s" % l["Op"], "%s under key %d returned %d bytes that were never stored under that key while %d processes used the directory" % (
            l["Op"], l["K"], len(l.get("Data") or []), 4), {"lookup": l, "puts_under_key": stress["Puts"].get(str(l["K"]))})
        break

# ---------------------------------------------------------------- 4. end to end: damaged cache directory
e2e = None
if os.environ.get("VERIF_C05_NO_E2E"):      # development aid for mutation runs only; never set by ./check or the manifest commands
    sc, out = "skip", ""
    ck.notes.append("end-to-end clause skipped (VERIF_C05_NO_E2E set)")
else:
    sc, out = ck.build_repo_cmd("./cmd/staticcheck", "staticcheck-c05")
if sc == "skip":
    pass
elif sc is None:
    ck.violation("staticcheck-build", "cmd/staticcheck does not build", {"log": out[-3000:]}, no_input=True)
else:
    ck.log("staticcheck built")
    e2e = run_mode("e2e", ["-staticcheck", sc] + (["-thorough"] if T else []), timeout=2400)
    if e2e["Diagnostics"] < 4 or "exit=1" not in e2e["Cold"]:
        ck.violation("e2e-cold", "the cold staticcheck run on the generated module did not produce the expected diagnostics: " + e2e["Cold"][:600],
                     {"cold": e2e["Cold"]}, no_input=True)
    for r in e2e["Runs"]:
        if not r["Equal"]:
            ck.violation("e2e:" + r["Damage"], "staticcheck through a damaged cache directory (%s; %d files) differs from the cold result" % (r["Damage"], r["Files"]),
                         {"damage": r["Damage"], "cold": e2e["Cold"], "got": r["Output"]})
    ck.log("e2e: %d runs, %d diagnostics cold" % (len(e2e["Runs"]), e2e["Diagnostics"]))

# ---------------------------------------------------------------- 5. model vs implementation, broken obligations
if not ck.violations:
    if hist_mism:
        ci, txt = hist_mism[0]
        ck.violation("model-mismatch", "model and implementation disagree on a history although every lookup was sound: case %d (%s): %s" % (
            ci, cases[ci]["Kind"], txt[:300]), {"history": describe(cases[ci]), "mismatch": txt[:2000], "count": len(hist_mism)}, no_input=True)
    elif codec_bad:
        ck.violation("codec-mismatch", "parse_entry/format_entry and the real get/putIndexEntry disagree although truncated and foreign entries are rejected: %s" % json.dumps(codec_bad)[:400],
                     codec_bad, no_input=True)
if T and not broken:
    okc, outc = ck.coqchk(["Verif.Props.C05"])
    if not okc:
        broken.append(("coqchk", outc[-2000:]))
if broken and not ck.violations:
    ck.violation("obligation:" + broken[0][0], "proof obligation or tie no longer checks: %s; no history, codec case, concurrent run or damaged-cache run of this run violated the property" % broken[0][0],
                 {"broken": broken}, no_input=True)

# ---------------------------------------------------------------- 6. evidence
nontriv = set()
nops = 0
for c in cases:
    faults = tuple(sorted({o["Op"] for o in c["Ops"] if o["Op"] in ("CrashW", "PutNoIndex", "Trunc", "TruncAny", "Delete", "Trim")}))
    hits = sum(1 for o in c["Ops"] if o["Res"]["Kind"] in ("file", "bytes", "entry"))
    nops += len(c["Ops"])
    if faults and any(o["Op"] in ("GetFile", "GetBytes", "Get") for o in c["Ops"]):
        nontriv.add(json.dumps([(o["Op"], o["K"], o["X"], o.get("N", 0), o.get("W", 0)) for o in c["Ops"]]))
ck.assume += [
    "sha256 has no collision among the contents stored and the byte strings read back (Section hypothesis H_cf of the theorems)",
    "one write(2)/read(2)/ftruncate/stat/open/unlink/utimes on a regular local file is atomic with respect to other processes; the 175-byte index entry is written by a single write(2)",
    "process death closes descriptors and keeps written bytes (no power loss, no lost page cache); external truncation only happens while no process holds the file open (quiescence premise; refuted without it: midwrite_truncate_refuted)",
    "a path returned by GetFile is read later by the caller: a concurrent Trim/removal followed by a re-Put may expose a prefix in that window (getfile window; counted as stress_window, not claimed)",
]
ck.finish({
    "evaluations": nops + len(cc) + len(codec["Format"]) + len(lookups) + (len(e2e["Runs"]) + 1 if e2e else 0),
    "distinct_nontrivial": len(nontriv),
    "rule": "history = seeded op list over 3 keys x 14 contents run on a real cache directory (cache re-opened per op, writers paused at every byte of the second pass through the io.ReadSeeker) and replayed on the Coq model after every op (lookup result + directory listing with bytes and mtime age); non-trivial = distinct history containing at least one fault (writer death, death before the index write, truncate, delete, trim) and at least one lookup; evaluations = history ops + codec cases + concurrent lookups that hit + staticcheck runs",
    "samples": [describe(cases[i]) for i in (0, len(cases) // 2, len(cases) - 1)],
    "traces_validated_against_impl": len(cases),
    "histories": len(cases), "history_ops": nops,
    "history_kinds": {k: sum(1 for c in cases if c["Kind"] == k) for k in sorted({c["Kind"] for c in cases})},
    "lookups_hit_in_histories": sum(1 for c in cases for o in c["Ops"] if o["Op"].startswith("Get") and o["Res"]["Kind"] in ("file", "bytes", "entry")),
    "put_postconditions_checked": sum(1 for c in cases for o in c["Ops"] if o["Op"] == "Put"),
    "shared_handle_histories": sum(1 for c in cases if c.get("Shared")),
    "lookups_miss_in_histories": sum(1 for c in cases for o in c["Ops"] if o["Res"]["Kind"] == "miss"),
    "codec_cases": len(cc), "codec_hits": sum(1 for c in cc if c["Hit"]), "format_cases": len(codec["Format"]),
    "stress": {"ops": stress["Ops"], "lookups_hit": len(lookups), "writers_died": stress["Died"], "getfile_path_gone": stress["Enoent"], "getfile_window_prefix_reads": window},
    "e2e_runs": [{"damage": r["Damage"], "files": r["Files"], "equal_to_cold": r["Equal"]} for r in (e2e["Runs"] if e2e else [])],
    "e2e_diagnostics_cold": e2e["Diagnostics"] if e2e else 0,
})
