#!/usr/bin/env python3
"""C13 — dataflow solvers reach the least fixpoint; lattices obey their laws (DESIGN §6 C13)."""
import json, os, re, sys
sys.path.insert(0, os.path.dirname(os.path.abspath(__file__)))
from common import *

ck = Check("C13", level="proof")
broken = []

ok, out = ck.forbidden_vernac()
if not ok:
    broken.append(("forbidden-vernacular", out))

# 1. translator (nilness merge table) + theorems
ok, out = ck.genmodel()
if not ok:
    broken.append(("genmodel", out[-2000:]))
MODEL = ["Gen/C13_NilnessTable.vo", "Model/C13.vo", "Model/C13_Nilness.vo", "Model/C13_Check.vo"]
ok, out = ck.coq_make(MODEL + ["Proofs/C13.vo", "Proofs/C13_Lattices.vo", "Proofs/C13_MapLattice.vo", "Proofs/C13_Sparse.vo", "Proofs/C13_Nilness.vo", "Examples/C13.vo"])
if not ok:
    broken.append(("coq-make", out[-3000:]))
    ok2, out2 = ck.coq_make(MODEL)
    if not ok2:
        ck.violation("coq-model-broken", "Coq model of C13 does not compile (translator output or model)", {"log": out2[-3000:]}, no_input=True)
        ck.finish({"evaluations": 1, "distinct_nontrivial": 0, "rule": "n/a", "samples": ["model did not compile"]})
ck.log("coq made")
ok, out = ck.coq_props()
ck.log("props checked")
if not ok:
    broken.append(("Props/C13.v", out[-3000:]))

# 2. implementation
exe, out = ck.go_build("./cmd/hc13")
if exe is None:
    ck.violation("harness-build", "harness does not build against the repository", {"log": out[-3000:]}, no_input=True)
    ck.finish({"evaluations": 1, "distinct_nontrivial": 0, "rule": "n/a", "samples": ["harness build failed"]})
ck.log("harness built")
work = ck.mkscratch()
res = os.path.join(work, "out.json")
if ck.thorough():
    ngraphs, nlaws, nsparse = 6000, 6000, 400
else:
    ngraphs, nlaws, nsparse = 270, 500, 40
env = dict(GOENV); env["VERIF_REPO"] = REPO
rc, out = sh([exe, "-out", res, "-seed", str(ck.seed), "-graphs", str(ngraphs), "-laws", str(nlaws),
              "-sparse", str(nsparse), "-work", work], timeout=3000, env=env)
if rc != 0:
    ck.violation("harness-run", "harness run failed (panic in the solver or lattice code?): " + out[-600:], {"log": out[-4000:]}, no_input=True)
    ck.finish({"evaluations": 1, "distinct_nontrivial": 0, "rule": "n/a", "samples": ["harness run failed"]})
data = json.load(open(res))
ck.log("harness ran")

# ---------------------------------------------------------------- Gallina literals
def nat_list(l): return coq_list([str(x) for x in (l or [])])
def nat_ll(ll): return coq_list([nat_list(l) for l in (ll or [])])
def N(x): return "%d%%N" % x
def kvs(l): return coq_list(["(%d, %s)" % (kv["K"], N(kv["V"])) for kv in (l or [])])
def vnl(l): return "(vns %s)" % coq_list(["(%s, %s)" % (N(p[0]), N(p[1])) for p in (l or [])])

def caseA(c):
    return "mkD %s %s %s %s %s %s" % (
        nat_ll(c["Succs"]),
        coq_list(["(%d, %s)" % (e[0], N(e[1])) for e in (c["Entry"] or [])]),
        coq_list([coq_list(["(%s, %s)" % (N(d[0]), N(d[1])) for d in (row or [])]) for row in c["Tr"]]),
        coq_list([N(x) for x in (c["In"] or [])]),
        coq_list([coq_list([N(x) for x in (row or [])]) for row in (c["Out"] or [])]),
        coq_bool(c["Diverged"]))
def opB(o):
    k = {"const": "BConst %s" % N(o["Arg"]), "copy": "BCopy %d" % o["Arg"], "inc": "BInc %d" % o["Arg"]}[o["Kind"]]
    return "(%d, %s)" % (o["Dst"], k)
def caseB(c):
    return "mkD %s %s %s %s %s %s" % (
        nat_ll(c["Succs"]),
        coq_list(["(%d, %s)" % (e["Node"], kvs(e["Fact"])) for e in (c["Entry"] or [])]),
        coq_list([coq_list([coq_list([opB(o) for o in (ops or [])]) for ops in (row or [])]) for row in c["Tr"]]),
        coq_list([kvs(x) for x in (c["In"] or [])]),
        coq_list([coq_list([kvs(x) for x in (row or [])]) for row in (c["Out"] or [])]),
        coq_bool(c["Diverged"]))
def opC(o):
    k = {"set": "CSet %s %s" % (N(o["A"]), N(o["B"])), "outer": "CSetOuter %s" % N(o["A"]),
         "inner": "CSetInner %s" % N(o["A"]), "copy": "CCopy %d" % o["A"]}[o["Kind"]]
    return "(%d, %s)" % (o["Dst"], k)
def caseC(c):
    return "mkD %s %s %s %s %s %s" % (
        nat_ll(c["Succs"]),
        coq_list(["(%d, %s)" % (e["Node"], vnl(e["Fact"])) for e in (c["Entry"] or [])]),
        coq_list([coq_list([coq_list([opC(o) for o in (ops or [])]) for ops in (row or [])]) for row in c["Tr"]]),
        coq_list([vnl(x) for x in (c["In"] or [])]),
        coq_list([coq_list([vnl(x) for x in (row or [])]) for row in (c["Out"] or [])]),
        coq_bool(c["Diverged"]))
LAWF = ["A", "B", "C", "AB", "BA", "A_BC", "AB_C", "AA", "AId", "IdA"]
LAWB = ["EqAB", "EqComm", "EqAssoc", "EqIdem", "EqIdent", "EqIdentL", "EqAC", "EqBC"]
def lawcase(c, f):
    return "mkL " + " ".join(f(c[k]) for k in LAWF) + " " + " ".join(coq_bool(c[k]) for k in LAWB)
def sdesc(d):
    if d["Kind"] == "none": return "TNone"
    if d["Kind"] == "copy": return "TCopyFirst"
    if d["Kind"] == "lazy": return "(TLazy %s %s)" % (N(d["Gen"]), N(d["Kill"]))
    return "(TGen %s %s)" % (N(d["Gen"]), N(d["Kill"]))
def scase(c):
    return "mkSC %s %s %s %s %s" % (
        coq_list(["(%s, %s)" % (nat_list(i["Ops"]), coq_bool(i["Phi"])) for i in c["Instrs"]]),
        coq_list([sdesc(i["Desc"]) for i in c["Instrs"]]),
        coq_list(["(%d, %s)" % (e[0], N(e[1])) for e in (c["Ext"] or [])]),
        coq_list(["(%d, %s)" % (e[0], N(e[1])) for e in (c["Impl"] or [])]),
        coq_bool(c["Diverged"]))

HDR = """From Coq Require Import List Arith Bool NArith. Import ListNotations.
Require Import Verif.Model.C13 Verif.Gen.C13_NilnessTable Verif.Model.C13_Nilness Verif.Model.C13_Check.
"""
def casefile(ty, mism, viol, items):
    return HDR + "Definition cases : list %s := %s.\n" % (ty, coq_list(["(" + x + ")" for x in items])) + \
        "Definition M := Eval vm_compute in %s cases.\nDefinition V := Eval vm_compute in %s cases.\nPrint M.\nPrint V.\n" % (mism, viol)

SHARD = 300
files, index = {}, {}
def add(kind, ty, mism, viol, raw, conv):
    for s in range(0, len(raw), SHARD):
        name = "%s_%03d" % (kind, s // SHARD)
        files[name] = casefile(ty, mism, viol, [conv(c) for c in raw[s:s + SHARD]])
        index[name] = (kind, s)
lawsmap_ok = [c for c in data["LawsMap"] if not c.get("Panic")]
add("A", "caseA", "mismatchesA", "violationsA", data["A"], caseA)
add("B", "caseB", "mismatchesB", "violationsB", data["B"], caseB)
add("C", "caseC", "mismatchesC", "violationsC", data["C"], caseC)
add("LM", "(@lcase (list (nat * N)))", "lmismatchesMap", "lviolationsMap", lawsmap_ok, lambda c: lawcase(c, kvs))
add("LD", "(@lcase (list vn))", "lmismatchesDense", "lviolationsDense", data["LawsDense"], lambda c: lawcase(c, vnl))
sparse = data.get("Sparse") or []
add("S", "scase", "smismatches", "sviolations", sparse, scase)
files["T"] = HDR + "Definition M := Eval vm_compute in table_vs_impl %s.\nDefinition V : list nat := [].\nPrint M.\nPrint V.\n" % \
    coq_list(["(%s, %s, %s)" % (N(a), N(b), N(r)) for a, b, r in data["Table"]])
index["T"] = ("T", 0)
RAW = {"A": data["A"], "B": data["B"], "C": data["C"], "LM": lawsmap_ok, "LD": data["LawsDense"], "S": sparse}

results = ck.coq_cases_parallel(files, timeout=1500, jobs=12)

ck.log("cases evaluated")
WHAT = {"A": "dense solver, gen/kill bitsets", "B": "dense solver, constant propagation over dfa.MapLattice",
        "C": "dense solver, nilness lattice over dfa.DenseMapLattice", "LM": "dfa.MapLattice Merge/Equals",
        "LD": "dfa.DenseMapLattice Merge/Equals over the nilness lattice", "S": "sparse solver on a built ir.Function"}
def idxs(val):
    return [int(x) for x in re.findall(r"\d+", val or "")]
mism, viol = [], []
for name, (rc, out) in sorted(results.items()):
    kind, base = index[name]
    M, V = ck.printed_value(out, "M"), ck.printed_value(out, "V")
    if rc != 0 or M is None or V is None:
        ck.violation("cases-eval:" + name, "cases file %s did not evaluate" % name, {"log": out[-3000:]}, no_input=True)
        continue
    if kind == "T":
        if M != "[]":
            mism.append(("T", 0, M))
        continue
    for i in idxs(V):
        viol.append((kind, base + i))
    for i in idxs(M):
        mism.append((kind, base + i, None))
for c in data["LawsMap"]:
    if c.get("Panic"):
        viol.append(("LMpanic", c))

for v in viol[:25]:
    if v[0] == "LMpanic":
        c = v[1]
        ck.violation("maplattice-panic", "dfa.MapLattice.Merge panicked on well-formed maps over a lawful element lattice: %s" % c["Panic"],
                     {"a": c["A"], "b": c["B"], "c": c["C"]})
        continue
    kind, i = v
    c = RAW[kind][i]
    if kind in ("A", "B", "C"):
        what = "%s: Forward's result is not the least solution of the flow equations (or the solver did not terminate) on a %d-node graph" % (WHAT[kind], len(c["Succs"]))
        key = "dense-%s-not-least-fixpoint" % kind
    elif kind == "S":
        what = "%s: final Mapping is not the least solution of the value equations (function %s)" % (WHAT[kind], c.get("Name"))
        key = "sparse-not-least-fixpoint"
    else:
        what = "%s: a semilattice law (assoc/comm/idem/identity up to Equals, or Equals being an equivalence) fails on the implementation's own results" % WHAT[kind]
        key = "lattice-law-%s" % kind
    ck.violation(key, what, {"family": kind, "case": c, "seed": ck.seed, "rerun": "VERIF_SEED=%d ./check C13" % ck.seed})
if not viol and mism:
    k = mism[0]
    ck.violation("model-mismatch", "model and implementation disagree (%s, case %s) although the property predicate holds on everything explored" % (WHAT.get(k[0], "regenerated nilness table vs lattice.Merge"), k[1]),
                 {"mismatches": [(m[0], m[1], m[2]) for m in mism[:20]], "first_case": RAW[k[0]][k[1]] if k[0] in RAW else k[2]}, no_input=True)
if broken and not ck.violations:
    ck.violation("obligation:" + broken[0][0], "proof obligation or tie no longer checks: %s" % broken[0][0],
                 {"broken": broken}, no_input=True)

# ---------------------------------------------------------------- coverage (measured)
def cyc(succs):
    n = len(succs); col = [0] * n
    def dfs(u):
        col[u] = 1
        for v in succs[u] or []:
            if col[v] == 1 or (col[v] == 0 and dfs(v)): return True
        col[u] = 2; return False
    return any(col[u] == 0 and dfs(u) for u in range(n))
allg = data["A"] + data["B"] + data["C"]
def shape(c):
    s = [tuple(x or []) for x in c["Succs"]]
    return (tuple(s),)
stats = {
    "graphs": len(allg),
    "with_cycle": sum(1 for c in allg if cyc(c["Succs"])),
    "with_self_loop": sum(1 for c in allg if any(b in (ss or []) for b, ss in enumerate(c["Succs"]))),
    "with_multi_edge": sum(1 for c in allg if any(len(set(ss or [])) < len(ss or []) for ss in c["Succs"])),
    "with_entry_on_node_with_preds": sum(1 for c in allg if any((e[0] if isinstance(e, list) else e["Node"]) in {s for ss in c["Succs"] for s in (ss or [])} for e in (c["Entry"] or []))),
    "multi_entry": sum(1 for c in allg if len(c["Succs"]) - len({s for ss in c["Succs"] for s in (ss or [])}) > 1),
    "law_triples": len(data["LawsMap"]) + len(data["LawsDense"]),
    "law_equal_pairs": sum(1 for c in data["LawsMap"] + data["LawsDense"] if c["EqAB"]),
    "sparse_functions": len(sparse),
    "sparse_with_phi": sum(1 for c in sparse if any(i["Phi"] for i in c["Instrs"])),
    "sparse_note": data.get("SparseNote", ""),
}
ck.assume += ["transfer functions are monotone (property premise); the generated families are monotone by construction",
              "sparse solver: transfer functions write only the instruction's own value and read only operands (writes_self premise, DESIGN F14)"]
ck.finish({
    "evaluations": len(allg) * 2 + len(data["LawsMap"]) + len(data["LawsDense"]) + len(sparse) * 2 + 25,
    "distinct_nontrivial": len({shape(c) for c in allg if cyc(c["Succs"])}),
    "rule": "one evaluation = one (graph, transfer family, entry map) run through dense.Forward and compared in Coq with the model under two schedules (mismatch) and with is_fixpoint_b + Kleene iteration (violation), or one lattice-law triple through Merge/Equals, or one sparse run; distinct_nontrivial = number of distinct edge lists among graphs containing a cycle",
    "samples": [{"family": "A", "succs": data["A"][i]["Succs"], "entry": data["A"][i]["Entry"]} for i in range(0, len(data["A"]), max(1, len(data["A"]) // 3))][:3],
    "stats": stats,
    "traces_validated_against_impl": len(allg) + len(sparse),
})
