#!/usr/bin/env python3
"""C08 — pattern pre-filtering (entry node kinds, symbol index, root call symbols) never changes what a
pattern matches (DESIGN §6 C08)."""
import json, os, re, sys
sys.path.insert(0, os.path.dirname(os.path.abspath(__file__)))
from common import *
from collections import Counter

ck = Check("C08", level="proof")
if ck.replay_in:
    print(open(ck.replay_in).read())
    sys.exit(0)
broken = []


def stop(note):
    ck.finish({"evaluations": 1, "distinct_nontrivial": 0, "rule": "n/a", "samples": [note]})


ok, out = ck.forbidden_vernac()
if not ok:
    broken.append(("forbidden-vernacular", out))

# 1. translator + theorems re-checked against the regenerated tables (C08 builds on the C09 matcher model)
for which in ("C09", "C08"):
    ok, out = ck.genmodel(which)
    if not ok:
        broken.append(("genmodel " + which, out[-3000:]))
ok, out = ck.coq_make(["Gen/C09_Matcher.vo", "Gen/C08_Tables.vo", "Model/C08_Check.vo"])
if not ok:
    ck.violation("coq-model-broken", "Coq model of C08 does not compile", {"log": out[-3000:]}, no_input=True)
    stop("model did not compile")
ok, out = ck.coq_make(["Proofs/C08.vo", "Proofs/C08_Symbols.vo", "Proofs/C08_RootCalls.vo", "Examples/C08.vo"])
if not ok:
    broken.append(("coq-make Proofs/C08 Examples/C08", out[-3000:]))
ok, out = ck.coq_props()
if not ok:
    broken.append(("Props/C08.v", out[-3000:]))
ck.log("theorems checked", "BROKEN: " + broken[0][0] if broken else "ok")

# 2. implementation: code.Matches vs brute force
exe, out = ck.go_build("./cmd/hc08")
if exe is None:
    ck.violation("harness-build", "harness does not build against /repo", {"log": out[-3000:]}, no_input=True)
    stop("harness build failed")
work = ck.mkscratch()
res = os.path.join(work, "out.json")
real = "./analysis/code"
if ck.thorough():
    real += ",./pattern,./lintcmd/cache,./lintcmd,./lintcmd/runner,./go/ir,./unused,./simple/s1008,./staticcheck/sa1006,./config,./analysis/report"
rc, out = sh([exe, "-repo", REPO, "-work", work, "-out", res, "-seed", str(ck.seed), "-real", real], timeout=3000)
if rc != 0:
    ck.violation("harness-run", "harness run failed: " + out[-500:], {"log": out[-3000:]}, no_input=True)
    stop("harness run failed")
data = json.load(open(res))
pats, runs = data["Patterns"], data["Runs"]
ck.log("harness done:", len(pats), "patterns,", len(runs), "(pattern, package) runs")


def sym3(s):
    return "(SSym %s %s %s)" % (coq_str(s[0]), coq_str(s[1]), coq_str(s[2]))


pinfos = coq_list(["\n (mkP %s %s %s %s)" % (p["PatV"], coq_list([coq_str(k) for k in (p["Entry"] or [])]), p["SymV"],
                                           coq_list([sym3(s) for s in (p["Roots"] or [])])) for p in pats])
rinfos = coq_list(["\n (mkRun %d %s %s)" % (r["Pattern"], coq_list([coq_bool(b) for b in (r["SymHas"] or [])]), coq_bool(r["Could"]))
                   for r in runs])
text = """From Coq Require Import List String ZArith NArith. Import ListNotations.
Require Import Verif.Model.C09_Types Verif.Model.C09 Verif.Model.C08_Types Verif.Gen.C08_Tables Verif.Model.C08 Verif.Model.C08_Check.
Open Scope string_scope.
Definition ps : list pinfo := %s.
Definition rs : list runinfo := %s.
Definition M := Eval vm_compute in numbered (pat_mismatch gen_tables) ps.
Definition R := Eval vm_compute in numbered (run_mismatch gen_could_empty_path_any ps) rs.
Definition T := Eval vm_compute in tables_ok gen_tables.
Print M.
Print R.
Print T.
""" % (pinfos, rinfos)
rc, out = ck.coq_cases("tables", text)
M, R, T = ck.printed_value(out, "M"), ck.printed_value(out, "R"), ck.printed_value(out, "T")
ck.log("cases evaluated")


def parse(val):
    return [(int(m.group(1)), [x.strip() for x in m.group(2).split(";")])
            for m in re.finditer(r"\((\d+)%?n?a?t?,\s*\[([^\]]*)\]\)", val or "")]


pm, rm = parse(M), parse(R)
if rc != 0 or M is None or R is None:
    ck.violation("cases-eval", "cases file did not evaluate: " + out[-400:], {"log": out[-3000:]}, no_input=True)

# 3. the property on the implementation's observable behaviour: a brute-force match (on a node of a kind the
#    pattern language can name) that code.Matches did not yield, in a package that does not declare the
#    pattern's symbols
seen = set()
ndrops = 0
for r in runs:
    if not r["NDropped"] or r["Declared"]:
        continue
    ndrops += r["NDropped"]
    p = pats[r["Pattern"]]
    for d in r["Dropped"]:
        key = d["Reason"]
        if key in seen:
            continue
        seen.add(key)
        ck.violation(key, "code.Matches drops a match: pattern %s (%s) matches %s `%s` at %s of package %s, but the filtered search does not yield it [%s; CouldMatchAny=%s, EntryNodes=%s, RootCallSymbols=%s]"
                     % (p["Src"], p["Origin"], d["Kind"], d["Src"], d["Pos"], r["Pkg"], d["Reason"], r["Could"], p["Entry"], p["Roots"]),
                     {"pattern": p["Src"], "origin": p["Origin"], "package": r["Pkg"], "node": d, "could_match_any": r["Could"],
                      "entry_nodes": p["Entry"], "root_call_symbols": p["Roots"], "symbols_pattern": p["SymV"],
                      "brute_force_matches": r["Brute"], "filtered_matches": r["Filtered"], "dropped": r["NDropped"]})
extra = sum(r["Extra"] for r in runs)
wrap = sum(r["WrapDiff"] for r in runs)
if extra:
    r = next(r for r in runs if r["Extra"])
    ck.violation("extra-match", "code.Matches yields a node on which the pattern does not match: %s in %s" % (pats[r["Pattern"]]["Src"], r["Pkg"]), r)
if wrap:
    r = next(r for r in runs if r["WrapDiff"])
    ck.violation("wrapper-not-transparent", "a transparent wrapper node matches differently from the node it wraps: %s in %s" % (pats[r["Pattern"]]["Src"], r["Pkg"]), r)

if not ck.violations and (pm or rm):
    what = []
    if pm:
        i, ds = pm[0]
        what.append("pattern %s: %s differs between model and Parser" % (pats[i]["Src"], ",".join(ds)))
    if rm:
        i, ds = rm[0]
        what.append("CouldMatchAny differs for pattern %s in %s" % (pats[runs[i]["Pattern"]]["Src"], runs[i]["Pkg"]))
    ck.violation("model-mismatch", "model and implementation disagree although no match was dropped on the explored inputs: " + "; ".join(what),
                 {"pattern_mismatches": [(pats[i]["Src"], ds) for i, ds in pm[:10]], "run_mismatches": len(rm)}, no_input=True)
if broken and not ck.violations:
    ck.violation("obligation:" + broken[0][0], "proof obligation or tie no longer checks: %s (tables_ok gen_tables = %s)" % (broken[0][0], T),
                 {"broken": broken, "tables_ok": T}, no_input=True)

nontriv = sum(1 for r in runs if r["Brute"] > 0 and not r["Declared"])
ck.assume += [
    "index contract (typeindex, vendored x/tools code): Index.Object/Selection find every package-level symbol / field / method of a package that is imported or reached through a field or method; Index.Calls(obj) yields every call whose callee (typeutil.Callee) is obj - hypotheses of symbols_sound / rootcalls_sound, explored by the brute-force comparison",
    "universe of start nodes: the 41 go/ast kinds of the pinned allTypes (kinds without a pattern node - File, comments, Ellipsis, IndexListExpr, BlockStmt/FieldList for non-list patterns - are outside the pattern language's universe)",
]
ck.finish({
    "evaluations": sum(r["NodesTried"] for r in runs),
    "distinct_nontrivial": nontriv,
    "rule": "evaluation = one brute-force pattern.Match of one pattern on one syntax node; every (pattern, package) pair compares the full brute-force match set with what code.Matches yields; non-trivial = pairs with at least one brute-force match in a package that does not declare the pattern's symbols. Patterns: every pattern.MustParse literal of the checks + generated ones (root Or/Not/Binding, function/generic/method/type/alias/var/const/builtin Symbols under CallExpr/Or/Binding). Packages: generated call forms (plain, parenthesised, method value/expression, generic instantiation, dot/renamed import, alias, embedded promotion, conversion, builtin) + real packages",
    "samples": [{"pattern": pats[r["Pattern"]]["Src"], "package": r["Pkg"], "brute": r["Brute"], "filtered": r["Filtered"]}
                for r in runs if r["Brute"] > 0][:3],
    "patterns_shipped": sum(1 for p in pats if p["Origin"].startswith("shipped")),
    "patterns_generated": sum(1 for p in pats if p["Origin"] == "generated"),
    "packages": sorted({r["Pkg"] for r in runs}),
    "brute_force_matches": sum(r["Brute"] for r in runs), "filtered_matches": sum(r["Filtered"] for r in runs),
    "dropped_matches_in_premise": ndrops,
    "dropped_outside_premise(symbol declared in analysed package)": sum(r["NDropped"] for r in runs if r["Declared"]),
    "duplicate_yields": sum(r["Dups"] for r in runs),
    "match_panics_recovered": sum(r["Panics"] for r in runs),
    "pattern_model_mismatches": len(pm), "could_match_model_mismatches": len(rm), "tables_ok": T,
    "skipped_by_harness": data["Skipped"],
})
