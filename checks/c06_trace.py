"""C06: parse the scheduler trace written by lintcmd/runner/verif_trace.go and render it as Gallina."""
import re


class Run:
    def __init__(self, cap):
        self.cap = cap
        self.top = None            # list of rows (deps, trig, pend, failed, name)
        self.inner = {}            # package id -> rows
        self.labels = []           # Gallina labels in log order
        self.raw = []              # raw event lines in log order (for replay files)
        self.complete = False


def parse_trace(text):
    runs, cur, g = [], None, None
    for line in text.split("\n"):
        if not line:
            continue
        f = line.split(" ")
        if f[0] == "run":
            cur = Run(int(f[1])); runs.append(cur); g = None
        elif cur is None:
            continue
        elif f[0] == "graph":
            lvl = int(f[1]); g = []
            if lvl < 0:
                cur.top = g
            else:
                cur.inner[lvl] = g
                cur.labels.append("GInit %d" % lvl)
                cur.raw.append(line)
        elif f[0] == "node":
            m = re.match(r"node (\d+) (\d) (\d+) deps=(\S*) trig=(\S*) name=(.*)$", line)
            ids = lambda s: [int(x) for x in s.split(",") if x != ""]
            g.append((ids(m.group(4)), ids(m.group(5)), int(m.group(3)), m.group(2) == "1", m.group(6)))
        elif f[0] == "ev":
            lvl, kind, a, b, x = int(f[1]), f[2], int(f[3]), int(f[4]), int(f[5])
            e = {"seed": "ESeed %d" % a, "deq": "EDeq %d" % a, "spawn": "ESpawn %d" % a, "inline": "EInline %d" % a,
                 "start": "EStart %d" % a, "end": "EEnd %d %s" % (a, "None" if x else "(Some tt)"), "rel": "ERel %d" % a,
                 "dec": "EDec %d %d" % (a, b), "enq": "EEnq %d %d" % (a, b), "close": "EClose", "exit": "EExit"}[kind]
            cur.labels.append("GTop (%s)" % e if lvl < 0 else "GIn %d (%s)" % (lvl, e))
            cur.raw.append(line)
        elif f[0] == "endrun":
            cur.complete = True
    return runs


KINDS = {"seed": 0, "deq": 1, "spawn": 2, "inline": 3, "start": 4, "end": 5, "rel": 6, "dec": 7, "enq": 8, "close": 9, "exit": 10}


def coq_rows(rows):
    # ids that could not be resolved by the hook (-2) are rendered as an id outside the graph
    n = len(rows)
    fix = lambda l: "[" + ";".join(str(x if x >= 0 else n + 7) for x in l) + "]"
    return "[" + ";\n  ".join("(%s, %s, %d, %s)" % (fix(d), fix(t), p, "true" if f else "false") for d, t, p, f, _ in rows) + "]"


def d3(v):
    assert 0 <= v < 64 ** 3
    return chr(48 + (v >> 12)) + chr(48 + ((v >> 6) & 63)) + chr(48 + (v & 63))


def pack(lv, k, a, b):
    return d3(lv) + chr(48 + k) + d3(a) + d3(b)


def coq_run(name, run, tabs=None):
    """Definitions <name>_gg : gdag, <name>_cap : nat, <name>_atr : option (list (glabel * bool)) (events as text, with the skip bit of start events).
    tabs: dict content -> name of already emitted tables (identical graphs are emitted once per file)."""
    import hashlib
    if tabs is None:
        tabs = {}
    out = ""

    def tab(rows):
        nonlocal out
        c = coq_rows(rows)
        if c not in tabs:
            tabs[c] = "tab_" + hashlib.sha1(c.encode()).hexdigest()[:12]
            out += "Definition %s : list nrow := %s.\n" % (tabs[c], c)
        return tabs[c]
    top = tab(run.top or [])
    # analyzer graphs are shared between packages: distinct tables + assignment package -> table number
    distinct, assign = [], []
    for p, r in sorted(run.inner.items()):
        t = tab(r)
        if t not in distinct:
            distinct.append(t)
        assign.append("(%d, %d)" % (p, distinct.index(t)))
    out += "Definition %s_top : list nrow := %s.\n" % (name, top)
    out += "Definition %s_tabs : list (list nrow) := [%s].\n" % (name, "; ".join(distinct))
    out += "Definition %s_assign : list (N * N) := [%s].\n" % (name, "; ".join(assign))
    out += "Definition %s_gg : gdag := gdag_of_nshared %s_top %s_tabs %s_assign.\n" % (name, name, name, name)
    out += "Definition %s_cap : nat := %d%%nat.\n" % (name, run.cap)
    flat = []
    for line in run.raw:
        f = line.split(" ")
        if f[0] == "graph":
            flat.append(pack(0, 11, int(f[1]), 0))
        else:
            lvl, kind, a, b, x = int(f[1]), f[2], int(f[3]), int(f[4]), int(f[5])
            flat.append(pack(lvl + 1, KINDS[kind], a, x if kind in ("end", "start") else max(b, 0)))
    # long literals overflow coqc's stack: chunks of 1000 events
    chunks = []
    for c in range(0, len(flat), 1000):
        cn = "%s_c%d" % (name, len(chunks))
        out += "Definition %s : bstr := \"%s\"%%bstr.\n" % (cn, "".join(flat[c:c + 1000]))
        chunks.append(cn)
    out += "Definition %s_atr : option (list (glabel unit unit * bool)) := decode_annot [%s].\n" % (name, "; ".join(chunks))
    return out


HEADER = """From Coq Require Import List Arith Bool NArith. Import ListNotations.
Require Import Verif.Model.C06_Map Verif.Model.C06.
Open Scope N_scope.
"""


def shape(run):
    """canonical description of the schedule, to count distinct schedules"""
    return "\n".join(run.raw)
