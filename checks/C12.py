#!/usr/bin/env python3
"""C12 — merging runs follows any/all semantics, order-independently (DESIGN §6 C12)."""
import json, os, re, sys, hashlib
sys.path.insert(0, os.path.dirname(os.path.abspath(__file__)))
from common import *

ck = Check("C12", level="proof")

if ck.replay_in:
    print(open(ck.replay_in).read())
    sys.exit(0)

broken = []          # proof obligations / ties that no longer check

ok, out = ck.forbidden_vernac()
if not ok:
    broken.append(("forbidden-vernacular", out))

# 1. translator + theorems re-checked against the regenerated sort key / equal / descriptor tables
ok, out = ck.genmodel()
if not ok:
    broken.append(("genmodel", out[-3000:]))
ok, out = ck.coq_make(["Model/C12_Check.vo", "Proofs/C12.vo", "Proofs/C12_Spec.vo"])
if not ok:
    ck.violation("coq-model-broken", "Coq model of C12 does not compile (translation of lintcmd/cmd.go failed?)",
                 {"log": out[-3000:], "broken": broken}, no_input=True)
    ck.finish({"evaluations": 1, "distinct_nontrivial": 0, "rule": "n/a", "samples": ["model did not compile"]})
ck.log("model and proofs made")
ok, out = ck.coq_props()
if not ok:
    broken.append(("Props/C12.v", out[-3000:]))
else:
    ok, out = ck.coq_make(["Examples/C12.vo"])
    if not ok:
        broken.append(("Examples/C12.v", out[-3000:]))

# 2. implementation: in-process through the hook, and `staticcheck -merge` on crafted gob files
ck.log("props checked")
exe, out = ck.go_build("./cmd/hc12")
if exe is None:
    ck.violation("harness-build", "harness does not build against /repo", {"log": out[-3000:]}, no_input=True)
    ck.finish({"evaluations": 1, "distinct_nontrivial": 0, "rule": "n/a", "samples": ["harness build failed"]})
sc, out = ck.build_repo_cmd("./cmd/staticcheck", "staticcheck-c12")
if sc is None:
    ck.violation("staticcheck-build", "cmd/staticcheck does not build", {"log": out[-3000:]}, no_input=True)
    ck.finish({"evaluations": 1, "distinct_nontrivial": 0, "rule": "n/a", "samples": ["staticcheck build failed"]})
ck.log("harness and staticcheck built")
work = ck.mkscratch()
res = os.path.join(work, "out.json")
n, ncli = (20000, 300) if ck.thorough() else (1500, 45)
rc, out = sh([exe, "-work", work, "-out", res, "-seed", str(ck.seed), "-n", str(n), "-cli", str(ncli), "-staticcheck", sc], timeout=3000)
if rc != 0:
    ck.violation("harness-run", "harness run failed: " + out[-500:], {"log": out[-3000:]}, no_input=True)
    ck.finish({"evaluations": 1, "distinct_nontrivial": 0, "rule": "n/a", "samples": ["harness run failed"]})
cases = json.load(open(res))
for c in cases:
    if c.get("Pkgs"):
        for r, pk in zip(c["Runs"], c["Pkgs"]):
            r["CheckedFiles"] = sorted(f for p in pk if p["Initial"] and not p["Failed"] and not p["Skipped"] for f in (p["Files"] or []))
ck.log("harness: %d cases" % len(cases))


def cdiag(d):
    return "mkD %s %d %d %d %s %d %d %d %s %s %d %d %s" % (
        coq_str(d["File"]), d["Off"], d["Line"], d["Col"], coq_str(d["EndFile"]), d["EndOff"], d["EndLine"], d["EndCol"],
        coq_str(d["Category"]), coq_str(d["Message"]), d["Severity"], d["MergeIf"], coq_str(d["BuildName"]))


def crun(r, pkgs=None):
    if pkgs is not None:   # a run of the real linter: checked files = checked_of (packages as known by construction)
        checked = "(checked_of %s)" % coq_list(["mkPk %s %s %s %s" % (coq_bool(p["Initial"]), coq_bool(p["Failed"]), coq_bool(p["Skipped"]),
                                                                      coq_list([coq_str(f) for f in (p["Files"] or [])])) for p in pkgs])
    else:
        checked = coq_list([coq_str(f) for f in (r["CheckedFiles"] or [])])
    return "mkRun %s %s" % (checked, coq_list([cdiag(d) for d in (r["Diagnostics"] or [])]))


def cview(v):
    return "(%s, %d, %d, (%s, %d, %d), %s, %s, %s)" % (
        coq_str(v["File"]), v["Line"], v["Col"], coq_str(v["EndFile"]), v["EndLine"], v["EndCol"],
        coq_str(v["Cat"]), coq_str(v["Msg"]), coq_str(v["Builds"]))


def ccase(c):
    obs = []
    for flag, field, tag in (("HasFull", "Full", "OFull"), ("HasText", "Text", "OText"), ("HasJSON", "JSON", "OJson")):
        if c[flag]:
            obs.append("(%s, %s)" % (tag, coq_list([cview(v) for v in (c[field] or [])])))
    merged = "(Some %s)" % coq_list([cdiag(d) for d in (c["Merged"] or [])]) if c["HasMerged"] else "None"
    pk = c.get("Pkgs") or [None] * len(c["Runs"] or [])
    oc = "(Some %s)" % coq_list([coq_list([coq_str(f) for f in l or []]) for l in c["ObsChecked"]]) if c.get("HasObsChecked") else "None"
    return "mkCase %s %s %s %s" % (coq_list([crun(r, p) for r, p in zip(c["Runs"] or [], pk)]), merged, coq_list(obs), oc)


HEADER = """From Coq Require Import List ZArith String. Import ListNotations.
Require Import Verif.Model.C12_Types Verif.Gen.C12_SortKey Verif.Model.C12 Verif.Model.C12_Check.
Open Scope string_scope. Open Scope Z_scope.
"""
# string literals are shared through one definition per distinct string (elaborating an n-character
# literal costs ~10n term nodes); few large shards because starting coqc is the dominant fixed cost
STRS = {}
_coq_str = coq_str
def coq_str(s):
    if s not in STRS:
        STRS[s] = "s%d" % len(STRS)
    return STRS[s]
SHARD = 700 if not ck.thorough() else 1500
files = {}
for s in range(0, len(cases), SHARD):
    STRS.clear()
    defs = ["Definition c%d : case := %s." % (k, ccase(c)) for k, c in enumerate(cases[s:s + SHARD])]
    strdefs = ["Definition %s : string := %s." % (v, _coq_str(k)) for k, v in STRS.items()]
    text = HEADER + "\n".join(strdefs) + "\n" + "\n".join(defs) + "\n" + \
        "Definition cases : list case := %s.\n" % coq_list(["c%d" % k for k in range(len(defs))]) + \
        "Definition M := Eval vm_compute in mismatches cases.\nDefinition V := Eval vm_compute in violations cases.\nPrint M.\nPrint V.\n"
    if s == 0:
        text += "Definition X := Eval vm_compute in find_cex gen_sort_key gen_equal_fields gen_descr_fields.\nPrint X.\n"
    files["s%04d" % (s // SHARD)] = text


def run_cases(files, timeout=1500, jobs=8):
    from concurrent.futures import ThreadPoolExecutor
    def one(name, text):
        path = os.path.join(ck.casedir, name + ".v")
        with open(path, "w") as f:
            f.write(text)
        return sh(["coqc", "-noglob", "-R", COQ, "Verif", path], cwd=ck.casedir, timeout=timeout)
    with ThreadPoolExecutor(max_workers=jobs) as ex:
        futs = {n: ex.submit(one, n, t) for n, t in files.items()}
        return {n: f.result() for n, f in futs.items()}


ck.log("evaluating %d case files" % len(files))
results = run_cases(files)
ck.log("evaluated")


def parse(val):
    # [(3%nat, [DMerged; DPrinted OFull]); ...]
    return [(int(m.group(1)), [x.strip() for x in m.group(2).split(";")])
            for m in re.finditer(r"\((\d+)(?:%nat)?,\s*\[([^\]]*)\]\)", val)]


X = ck.printed_value(results["s0000"][1], "X") if results.get("s0000", (1, ""))[0] == 0 else None
Vs, Ms = [], []
evalfail = None
for name in sorted(files):
    rc, out = results[name]
    M, V = ck.printed_value(out, "M"), ck.printed_value(out, "V")
    if rc != 0 or M is None or V is None:
        evalfail = (name, out[-2000:])
        continue
    base = int(name[1:]) * SHARD
    Vs += [(base + i, d) for i, d in parse(V)]
    Ms += [(base + i, d) for i, d in parse(M)]
if evalfail:
    ck.violation("cases-eval", "cases file %s did not evaluate" % evalfail[0], {"log": evalfail[1]}, no_input=True)


# ---- description of a failing case (python re-statement of the specification, for the message only) ----
def descr(d):
    return (d["File"], d["Off"], d["Line"], d["Col"], d["EndFile"], d["EndOff"], d["EndLine"], d["EndCol"], d["Category"], d["Message"])


def expected(c):
    maps = []
    for r in c["Runs"] or []:
        m = {}
        for d in r["Diagnostics"] or []:
            m[descr(d)] = d
        maps.append((set(r["CheckedFiles"] or []), m))
    exp = {}
    for _, m in maps:
        for k, d in m.items():
            keep = d["MergeIf"] == 0 or (d["MergeIf"] == 1 and all(k in m2 for cf, m2 in maps if d["File"] in cf))
            if keep:
                exp.setdefault(k, set()).add(d["BuildName"])
    return sorted((k[0], k[2], k[3], k[4], k[6], k[7], k[8], k[9], ",".join(sorted(b))) for k, b in exp.items())


def observed(c):
    for flag, field in (("HasFull", "Full"), ("HasText", "Text"), ("HasJSON", "JSON")):
        if c[flag]:
            yield field, sorted((v["File"], v["Line"], v["Col"], v["EndFile"], v["EndLine"], v["EndCol"], v["Cat"], v["Msg"], v["Builds"]) for v in (c[field] or []))


def key_of(c):
    if c["Kind"] in ("directed", "cli-directed"):
        return "%s:%s" % (c["Kind"], c["Note"].replace(" ", ","))
    return "%s:%s" % (c["Kind"], hashlib.sha1(json.dumps(c["Runs"], sort_keys=True).encode()).hexdigest()[:12])


reported = 0
# smallest reproducers first: black-box directed, in-process directed, black-box random, then by size
PRIO = {"matrix": 0, "cli-directed": 0, "directed": 1, "cli": 2, "variant": 3, "random": 3}
Vs.sort(key=lambda x: (PRIO.get(cases[x[0]]["Kind"], 9), sum(len(r["Diagnostics"] or []) for r in cases[x[0]]["Runs"] or []), x[0]))
for i, diffs in Vs:
    if reported >= 8:
        break
    c = cases[i]
    exp, obs = expected(c), dict(observed(c))
    what = "%s case: %s; " % (c["Kind"], ", ".join(diffs))
    if "DChecked" in diffs:
        what += "CheckedFiles of the real runs %s differ from the files of the packages that were analysed (initial, compiled, not skipped) %s; " % (
            json.dumps(c.get("ObsChecked")), json.dumps([r["CheckedFiles"] for r in c["Runs"]]))
    if "DMerged" in diffs:
        what += "mergeRuns kept/dropped the wrong problems for %d runs; " % len(c["Runs"] or [])
    if any(d.startswith("DPrinted") for d in diffs):
        field = list(obs)[0]
        # project the expectation onto what that formatter shows (text: no end position; json: no build names)
        pexp = sorted((e[0], e[1], e[2], "", 0, 0, e[6], e[7], e[8]) if field == "Text" else (e[:8] + ("",)) if field == "JSON" else e for e in exp)
        what += "printed problems (file, line, column, end, category, message, build names; %s) differ from one line per problem with exactly its build names: printed %s, expected %s" % (
            {"Full": "text+json", "Text": "-f text", "JSON": "-f json"}[field], json.dumps(obs[field])[:400], json.dumps(pexp)[:400])
    rerun = "(cd %s && go build -tags verif -o /tmp/sc ./cmd/staticcheck) && (cd /verif/harness && go build -tags verif -o /tmp/hc12 ./cmd/hc12) && /tmp/hc12 -out /dev/stdout -work /tmp -pool %s -staticcheck /tmp/sc" % (REPO, c["Note"].strip("[]").replace(" ", ",")) \
        if c["Kind"].endswith("directed") else "VERIF_SEED=%d ./check C12 --tier %s (case %d)" % (ck.seed, ck.tier, i)
    ck.violation(key_of(c), what, {"case_index": i, "case": c, "expected_views": exp, "observed": obs, "diffs": diffs, "rerun": rerun,
                                   "broken_obligations": [b[0] for b in broken]})
    reported += 1

if not ck.violations and Ms:
    i, diffs = Ms[0]
    ck.violation("model-mismatch", "model and implementation disagree although the property holds on all explored cases (%d cases, first: %d %s)" % (len(Ms), i, diffs),
                 {"case_index": i, "case": cases[i], "diffs": diffs, "count": len(Ms)}, no_input=True)
if broken and not ck.violations:
    ck.violation("obligation:" + broken[0][0],
                 "proof obligation or tie no longer checks: %s (model-level counterexamples over the small pool: %s)" % (broken[0][0], (X or "?")[:300]),
                 {"broken": broken, "model_counterexamples": X}, no_input=True)

# ---- coverage, measured ----
def nontrivial(c):
    ds = [d for r in (c["Runs"] or []) for d in (r["Diagnostics"] or [])]
    by = {}
    for d in ds:
        by.setdefault(descr(d), set()).add(d["BuildName"])
    multi_build = any(len(b) > 1 for b in by.values())
    near = len({(k[0], k[2], k[3], k[9]) for k in by}) < len(by)   # same position+message, different category/end/offset
    has_all = any(d["MergeIf"] == 1 for d in ds)
    return len(c["Runs"] or []) >= 2 and (multi_build or near) and (has_all or near)


distinct = {hashlib.sha1(json.dumps(c["Runs"], sort_keys=True).encode()).hexdigest() for c in cases if nontrivial(c)}
kinds = {}
for c in cases:
    kinds[c["Kind"]] = kinds.get(c["Kind"], 0) + 1
dropped_all = sum(1 for c in cases if c["HasMerged"] and
                  len({descr(d) for r in c["Runs"] or [] for d in r["Diagnostics"] or [] if d["MergeIf"] == 1}) >
                  len({descr(d) for d in c["Merged"] or [] if d["MergeIf"] == 1}))
ck.trusted += ["harness hc12 (/verif/harness/cmd/hc12) and hook lintcmd/verif_export_c11c12.go: field-by-field conversion to lintcmd's own types; stdout of printDiagnostics captured through a pipe; text and json output parsed back",
               "sort.Slice returns a permutation of its input in which no element is followed by a smaller one whenever the closure is a strict weak order (sort_key_is_order proves the closure is one); map iteration order is arbitrary"]
ck.assume += ["category names that differ only in letter case do not occur together (cat_canon; analyzers are registered under their case-folded name)",
              "gob round trip of lintResult is the identity (exercised black-box on %d `staticcheck -merge` cases, not modelled)" % (kinds.get("cli", 0) + kinds.get("cli-directed", 0))]
ck.finish({
    "evaluations": len(cases),
    "distinct_nontrivial": len(distinct),
    "rule": "case = list of runs (checked files, problems with build names) pushed through runFromLintResult+mergeRuns+printDiagnostics in-process and, for the cli kinds, through `staticcheck -merge` on gob files; non-trivial = at least 2 runs and (a problem under several build names or two problems sharing position and message but differing in category/end) and (an 'all'-strategy problem or such a near-collision); distinct by hash of the runs",
    "samples": [{"kind": cases[i]["Kind"], "runs": cases[i]["Runs"], "printed": list(observed(cases[i]))[0][1] if list(observed(cases[i])) else None}
                for i in ([0, len(cases) // 2, len(cases) - 1] if cases else [])],
    "by_kind": kinds,
    "cases_where_an_all_problem_was_dropped": dropped_all,
    "model_mismatches": len(Ms),
    "small_pool_counterexamples_of_model": X,
})
