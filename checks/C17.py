#!/usr/bin/env python3
"""C17 — U1000 verdicts are order-independent, monotone, merged over variants (DESIGN §6 C17)."""
import json, os, re, sys
sys.path.insert(0, os.path.dirname(os.path.abspath(__file__)))
from common import *
from u1000_common import coq_cases_noglob, forbidden_in_own_files

ck = Check("C17", level="proof")
broken = []

if ck.replay_in:
    print(open(ck.replay_in).read())
    sys.exit(0)

def bail(key, what, log):
    ck.violation(key, what, {"log": log[-3000:]}, no_input=True)
    ck.finish({"evaluations": 1, "distinct_nontrivial": 0, "rule": "n/a", "samples": [what]})

ok, out = forbidden_in_own_files(ck)
if not ok:
    broken.append(("forbidden-vernacular", out))

# 1. translator (source shape of lint()'s merge and of color/Results) + theorems
ok, out = ck.genmodel()
if not ok:
    broken.append(("genmodel", out[-2000:]))
ok, out = ck.coq_make(["Model/C17_Check.vo", "Model/C17_Shape.vo", "Gen/C17_LintShape.vo", "Proofs/C17.vo", "Examples/C17.vo"])
if not ok:
    broken.append(("coq-make", out[-3000:]))
    ok2, out2 = ck.coq_make(["Model/C17_Check.vo"])
    if not ok2:
        bail("coq-model-broken", "Coq model of C17 does not compile", out2)
ok, out = ck.coq_props()
if not ok:
    broken.append(("Props/C17.v", out[-3000:]))

ck.log("theorems re-checked")
# 2. implementation: exported graphs, permutations, added references, variants through runner + CLI
exe, out = ck.go_build("./cmd/hc17")
if exe is None:
    bail("harness-build", "harness does not build against the repository (hook H2 unused/verif_export.go missing or API changed)", out)
sc, out = ck.build_repo_cmd("./cmd/staticcheck", "staticcheck-c17")
if sc is None:
    bail("staticcheck-build", "cmd/staticcheck does not build", out)
ck.log("harness and staticcheck built")
work = ck.mkscratch()
prefix = os.path.join(work, "out")
shards = 12
args = [exe, "-work", work, "-out", prefix, "-seed", str(ck.seed), "-shards", str(shards), "-staticcheck", sc,
        "-testdata", os.path.join(REPO, "unused/testdata/src/example.com")]
if ck.thorough():
    args += ["-gen", "600", "-perms", "3", "-mono", "2", "-cperms", "2", "-cmono", "2", "-variants", "20", "-maxnodes", "9000",
             "-corpus", REPO + ":./unused+./pattern+./config+./lintcmd/...+./analysis/...+./go/ir+./staticcheck/..."]
else:
    args += ["-gen", "24", "-perms", "2", "-mono", "1", "-cperms", "1", "-cmono", "1", "-variants", "4", "-maxnodes", "1500"]
env = dict(GOENV); env["VERIF_REPO"] = REPO
rc, out = sh(args, timeout=6000, env=env)
if rc != 0 or not os.path.exists(prefix + ".json"):
    bail("harness-run", "harness run failed: " + out[-400:], out)
data = json.load(open(prefix + ".json"))
stats = data["Stats"]
if stats.get("analyzer_failed", 0) * 4 > stats.get("generated", 0) + stats.get("corpus", 0):
    broken.append(("harness", "the analyzer failed on %d packages" % stats.get("analyzer_failed", 0)))
ck.log("harness done", stats, [l for l in out.splitlines() if l.startswith("[hc17")])

HDR = """From Coq Require Import List NArith String. Import ListNotations.
Require Import Verif.Model.C17_Graph Verif.Model.C17_Merge Verif.Model.C17_Check.
Open Scope N_scope.
"""
files = {}
for k in range(shards):
    body = open("%s_%d.v" % (prefix, k)).read()
    files["shard%d" % k] = HDR + body + """
Definition M := Eval vm_compute in numbered bundle_mismatch bundles.
Definition V := Eval vm_compute in numbered bundle_violation bundles.
Print M.
Print V.
"""
have_v = os.path.exists(prefix + "_V.v")
if have_v:
    files["variants_runner"] = HDR + "Open Scope string_scope.\n" + open(prefix + "_R.v").read() + """
Definition X := Eval vm_compute in numbered caseV_extra casesR.
Definition Y := Eval vm_compute in numbered caseV_missing casesR.
Print X.
Print Y.
"""
    if os.path.exists(prefix + "_G.v"):
        files["variants_graphmerge"] = HDR + "Open Scope string_scope.\n" + open(prefix + "_G.v").read() + """
Definition V := Eval vm_compute in numbered caseV_violation casesG.
Print V.
"""
    files["variants"] = HDR + "Open Scope string_scope.\n" + open(prefix + "_V.v").read() + """
Definition X := Eval vm_compute in numbered caseV_extra casesV.
Definition Y := Eval vm_compute in numbered caseV_missing casesV.
Definition V := Eval vm_compute in numbered caseV_violation casesV.
Print X.
Print Y.
Print V.
"""
res = coq_cases_noglob(ck, files, timeout=3000, jobs=12)
ck.log("cases evaluated")

bundles = {(b["Shard"], b["Index"]): b for b in data["Bundles"]}
def parse(val):
    """[(3, [DGraph 0; DPerm 1 PGraphsDiffer]); ...] -> [(3, ['DGraph 0', ...])]"""
    return [(int(m.group(1)), [x.strip() for x in m.group(2).split(";") if x.strip()])
            for m in re.finditer(r"\((\d+)%?(?:nat)?,\s*\[([^\]]*)\]\)", val or "")]
def case_of(b, kind, idx):
    for c in b["Cases"]:
        if c["Kind"] == kind and c["Index"] == idx:
            return c
    return {}

nviol = 0
mismatch_notes = []
for k in range(shards):
    rc, out = res["shard%d" % k]
    M, V = ck.printed_value(out, "M"), ck.printed_value(out, "V")
    if rc != 0 or M is None or V is None:
        broken.append(("cases-eval shard%d" % k, out[-2000:]))
        continue
    for bi, diags in parse(V):
        b = bundles.get((k, bi), {"Pkg": "?", "Cases": []})
        for d in diags:
            m = re.match(r"D(Perm|Mono) (\d+) (\w+)", d)
            if not m:
                continue
            c = case_of(b, "P" if m.group(1) == "Perm" else "M", int(m.group(2)))
            if m.group(1) == "Perm":
                key = "order:%s:%s" % (b["Pkg"], c.get("What", ""))
                what = "U1000 result of package %s changes when %s: %s" % (b["Pkg"], c.get("What"), "; ".join(c.get("Detail", [])[:4]))
            else:
                key = "monotone:%s:%s" % (b["Pkg"], c.get("What", ""))
                what = "package %s: %s turned used objects into unused ones: %s" % (b["Pkg"], c.get("What"), "; ".join(c.get("Detail", [])[:4]))
            ck.violation(key, what, {"package": b["Pkg"], "case": c, "diag": d, "rerun": "VERIF_SEED=%d ./check C17" % ck.seed})
            nviol += 1
    for bi, diags in parse(M):
        b = bundles.get((k, bi), {"Pkg": "?", "Cases": []})
        for d in diags[:3]:
            m = re.match(r"D(Graph|Perm|Mono) (\d+)\s*(\w*)", d)
            c = case_of(b, {"Graph": "G", "Perm": "P", "Mono": "M"}[m.group(1)], int(m.group(2))) if m else {}
            mismatch_notes.append({"package": b["Pkg"], "diag": d, "what": c.get("What"), "detail": c.get("Detail", [])[:6],
                                   "sources": c.get("Sources"), "other": c.get("Other")})

vinfo = data.get("Variants") or {}
if have_v:
    rc, out = res["variants"]
    X, Y, V = ck.printed_value(out, "X"), ck.printed_value(out, "Y"), ck.printed_value(out, "V")
    if rc != 0 or X is None or Y is None or V is None:
        broken.append(("cases-eval variants", out[-2000:]))
    else:
        if V != "[]":
            runs = vinfo.get("Runs", [])
            for m in re.finditer(r'\("([^"]*)",\s*(\d+)(?:%N)?,\s*(\d+)(?:%N)?,\s*"([^"]*)"\)', V):
                f, line, col, msg = m.group(1), m.group(2), m.group(3), m.group(4)
                key = "variants:%s:%s:%s" % (f, line, msg)
                ck.violation(key, "U1000 output of the CLI disagrees with 'reported iff some enabled variant lists the object unused and no variant lists it used': %s:%s:%s %s"
                             % (f, line, col, msg), {"problem": [f, line, col, msg], "runs": runs, "module": vinfo.get("Module"),
                                                     "rerun": "VERIF_SEED=%d ./check C17" % ck.seed})
                nviol += 1
        elif X != "[]" or Y != "[]":
            mismatch_notes.append({"variants": "model of lint() and CLI disagree", "extra_in_cli": X[:1500], "missing_in_cli": Y[:1500]})
if have_v and "variants_graphmerge" in res:
    rc, out = res["variants_graphmerge"]
    V = ck.printed_value(out, "V")
    if rc != 0 or V is None:
        broken.append(("cases-eval variants_graphmerge", out[-2000:]))
    elif V != "[]":
        for m in re.finditer(r'\("([^"]*)",\s*(\d+)(?:%N)?,\s*(\d+)(?:%N)?,\s*"([^"]*)"\)', V):
            f, line, col, msg = m.group(1), m.group(2), m.group(3), m.group(4)
            key = "graphmerge:%s:%s:%s" % (f, line, msg)
            ck.violation(key, "SerializedGraph.Merge + Results over the variants of a package disagrees with 'reported iff unused in some variant and used in none': %s:%s:%s %s"
                         % (f, line, col, msg), {"problem": [f, line, col, msg], "merges": vinfo.get("GraphMerge"), "module": vinfo.get("Module"),
                                                 "rerun": "VERIF_SEED=%d ./check C17" % ck.seed})
            nviol += 1
if have_v:
    rc, out = res["variants_runner"]
    X, Y = ck.printed_value(out, "X"), ck.printed_value(out, "Y")
    if rc != 0 or X is None or Y is None:
        broken.append(("cases-eval variants_runner", out[-2000:]))
    elif X != "[]" or Y != "[]":
        mismatch_notes.append({"variants": "merge model over the results lint() receives from the runner (after Load) and CLI disagree",
                               "extra_in_cli": X[:1500], "missing_in_cli": Y[:1500]})
if vinfo.get("Notes") and not mismatch_notes:
    mismatch_notes.append({"variants": "results after the runner's cache round trip differ from the direct analysis of the variant", "notes": vinfo["Notes"][:10]})
for e in (vinfo.get("Errors") or []):
    broken.append(("variants-run", e))
for h in (data.get("Harness") or []):
    broken.append(("harness", h))

if not ck.violations:
    if mismatch_notes:
        ck.violation("model-mismatch", "model and implementation disagree (exported graphs / colouring / merge) although the property holds on every explored case: %s"
                     % json.dumps(mismatch_notes[0])[:400], {"mismatches": mismatch_notes[:20]}, no_input=True)
    elif broken:
        ck.violation("obligation:" + broken[0][0], "proof obligation or tie no longer checks: %s: %s" % (broken[0][0], str(broken[0][1])[-300:]),
                     {"broken": broken[:10]}, no_input=True)

ck.assume += [
    "graph construction (rules 1.1-12.1 of unused.go) is not modelled: the graph the analyzer actually built enters through hook H2 (unused/verif_export.go) and is compared case by case",
    "node identities across permuted copies of a package are computed by the harness from (declaration text, rank of the position inside the declaration)",
    "per-variant unused.Result lists: ground truth from running the analyzer directly on every type-checked variant (go/packages with Tests), cross-checked against what lintcmd/runner hands to lint() after the cache round trip (Result.Load); the merged output from the staticcheck binary built from the tree, cold and warm cache",
]
nv = vinfo.get("Stats", {}) if vinfo else {}
ck.finish({
    "evaluations": stats.get("graphs", 0) + stats.get("perm_cases", 0) + stats.get("mono_cases", 0) + nv.get("variants", 0),
    "distinct_nontrivial": stats.get("perm_renumbered", 0) + stats.get("mono_used_grew", 0) + nv.get("cli_problems", 0),
    "rule": "evaluations = exported graphs compared with the model (each twice: analyzer Run and Results over hook nodes) + permutation/repetition cases (graph isomorphism checked by iso_b, observed Unused/Used label sets compared) + added-reference cases (hom_b, Used subset) + package variants merged; non-trivial = permutation cases whose node numbering really changed + added references after which the used set strictly grew + U1000 problems printed by the CLI over the variant module",
    "samples": [{"package": b["Pkg"], "cases": [c["What"] for c in b["Cases"]][:6]} for b in data["Bundles"][:3]],
    "stats": stats, "variant_stats": nv, "skipped": (data.get("Skipped") or [])[:40],
    "generated_packages": stats.get("generated", 0), "corpus_packages": stats.get("corpus", 0),
})
