#!/usr/bin/env python3
"""C06 — deterministic, schedule-independent, race-free linting (DESIGN §6 C06).

Coq: the runner's scheduler as a two-level transition system (Model/C06.v), theorems for all executions
(Props/C06.v). Tie: every run of the real staticcheck binary (built with -tags verif from the working tree)
records its scheduler trace (hook H3); valid_trace (the model's transition relation as a checker) is evaluated
on every trace inside coqc. Exploration: GOMAXPROCS x yield seeds x shuffled/partial pattern lists, outputs
compared byte for byte; -race build."""
import json, os, re, sys, threading, hashlib, time
sys.path.insert(0, os.path.dirname(os.path.abspath(__file__)))
from common import *
import c06_trace as T

ck = Check("C06", level="other")
broken = []

if ck.replay_in:
    print(open(ck.replay_in).read())
    sys.exit(0)

ok, out = ck.forbidden_vernac()
if not ok:
    mine = [l for l in out.split("\n") if "/C06" in l]     # other properties' files are their checks' business
    if mine:
        broken.append(("forbidden-vernacular", "\n".join(mine)))

# 2./3. (in the background, while coqc works) binaries from the working tree, then the exploration
def build_sc(name, race):
    exe = os.path.join(BIN, "%s.%d" % (name, os.getpid()))
    ck.tmpbins.append(exe)
    cmd = ["go", "build", "-tags", "verif", "-o", exe]
    if REPO != "/repo":
        cmd.append("-trimpath")      # scratch worktrees share the build cache
    if race:
        cmd.append("-race")
    cmd.append("./cmd/staticcheck")
    rc, o = sh(cmd, cwd=REPO, timeout=2400)
    return (exe if rc == 0 else None), o

work = ck.mkscratch()
res = os.path.join(work, "out.json")
bg = {}
def explore():
    race_res = {}
    def build_race():
        race_res["exe"], race_res["out"] = build_sc("staticcheck06race", True)
    rt = threading.Thread(target=build_race)
    rt.start()
    sc, out = build_sc("staticcheck06", False)
    if sc is None:
        rt.join()
        bg["fatal"] = ("build", "staticcheck does not build with -tags verif", out[-3000:])
        return
    exe, out = ck.go_build("./cmd/hc06")
    rt.join()
    if exe is None:
        bg["fatal"] = ("harness-build", "harness does not build", out[-3000:])
        return
    ck.log("binaries built")
    race = race_res.get("exe")
    if race is None:
        bg["race_build_log"] = (race_res.get("out") or "")[-2000:]
    args = [exe, "-bin", sc, "-work", work, "-out", res, "-seed", str(ck.seed), "-repo", REPO]
    if race:
        args += ["-racebin", race]
    if ck.thorough():
        args += ["-same", "40", "-partial", "12", "-race", "4", "-par", "4", "-go117", "12", "-dirruns", "24", "-stress", "6000000", "-racerepo", "./lintcmd/runner,./internal/sync,./analysis/lint,./unused"]
    else:
        args += ["-same", "5", "-partial", "2", "-race", "1", "-par", "6", "-traced", "0", "-text=false", "-go117", "2", "-dirruns", "8", "-stress", "300000"]
    env = dict(GOENV); env["VERIF_REPO"] = REPO
    rc, out = sh(args, timeout=6 * 3600, env=env)
    if rc != 0 or not os.path.exists(res):
        bg["fatal"] = ("harness-run", "harness run failed: " + out[-500:], out[-3000:])
    ck.log("exploration done")
bgt = threading.Thread(target=explore)
bgt.start()

# 1. translator + theorems
ok, out = ck.genmodel()
if not ok:
    broken.append(("genmodel (lintcmd/cmd.go:printDiagnostics sort closure / runner.go shape not recognised)", out[-2000:]))
model_ok = True
ok, out = ck.coq_make(["Model/C06.vo", "Model/C06_Out.vo", "Proofs/C06_Global.vo", "Proofs/C06_Out.vo", "Proofs/C06_Indep.vo", "Examples/C06.vo"])
if not ok:
    broken.append(("coq-make", out[-3000:]))
    ok2, out2 = ck.coq_make(["Model/C06.vo", "Model/C06_Out.vo"])
    if not ok2:
        model_ok = False
have_gen = os.path.exists(os.path.join(COQ, "Gen", "C06_SortKey.v"))
if have_gen:
    ok, out = ck.coq_make(["Gen/C06_SortKey.vo"])
    have_gen = ok
ck.log("coq made")
ok, out = ck.coq_props()
ck.log("props checked")
if not ok:
    m = re.search(r"File \"\./Props/C06\.v\", line (\d+)", out)
    which = ""
    if m:
        lines = open(os.path.join(COQ, "Props", "C06.v")).read().split("\n")
        for i in range(int(m.group(1)) - 1, -1, -1):
            mm = re.match(r"Theorem (\w+)", lines[i])
            if mm:
                which = mm.group(1); break
    broken.append(("Props/C06.v" + (": " + which if which else ""), out[-2500:]))
bgt.join()
if not model_ok:
    ck.violation("coq-model-broken", "Coq model of C06 does not compile", {"log": broken[-1][1]}, no_input=True)
    ck.finish({"explanation": "model did not compile", "evaluations": 1, "distinct_nontrivial": 0, "rule": "n/a", "samples": ["model did not compile"]})
if "fatal" in bg:
    k, w, l = bg["fatal"]
    ck.violation(k, w, {"log": l}, no_input=True)
    ck.finish({"explanation": w, "evaluations": 1, "distinct_nontrivial": 0, "rule": "n/a", "samples": [w]})
if "race_build_log" in bg:
    broken.append(("race-build", bg["race_build_log"]))
data = json.load(open(res))
runs = data["Runs"]
ck.log("harness: %d runs, %d violations" % (len(runs), len(data.get("Violations") or [])))
for v in data.get("Violations") or []:
    d = v.get("Detail") or {}
    d["module_files"] = data["Files"] if v["Key"] in ("nondeterministic-output", "package-dependent-output", "data-race") else None
    d["seed"] = ck.seed
    ck.violation(v["Key"], v["What"], d, no_input=v["Key"].startswith("harness:"))

# 4. every recorded trace against the model's transition relation
traced = []
for r in runs:
    if r.get("Trace") and os.path.exists(r["Trace"]):
        try:
            trs = T.parse_trace(open(r["Trace"]).read())
        except Exception as e:
            ck.violation("trace-parse", "scheduler trace of run %s cannot be parsed: %s" % (r["ID"], e), {"run": r}, no_input=True)
            continue
        for k, tr in enumerate(trs):
            traced.append((r, k, tr))
    elif r.get("Trace") and not r.get("TimedOut") and r.get("Exit") in (0, 1):
        ck.violation("trace-missing", "run %s wrote no scheduler trace (hook H3 not active?)" % r["ID"], {"run": r}, no_input=True)
shards = {}
nshard = 8
for i, (r, k, tr) in enumerate(traced):
    shards.setdefault(i % nshard, []).append((i, r, k, tr))
files = {}
for sh_i, items in shards.items():
    txt = T.HEADER
    tabs = {}
    for i, r, k, tr in items:
        txt += T.coq_run("t%d" % i, tr, tabs)
        txt += ("Definition V%d := Eval vm_compute in match t%d_atr with Some tr => valid_trace_nskips t%d_top t%d_tabs t%d_assign t%d_cap tr | None => false end.\nPrint V%d.\n"
                % (i, i, i, i, i, i, i))
    files["traces%d" % sh_i] = txt
results = ck.coq_cases_parallel(files, timeout=3000, jobs=nshard) if files else {}
nvalid, events, shapes, inner_levels = 0, 0, set(), 0
failing = []
for sh_i, items in shards.items():
    rc, out = results["traces%d" % sh_i]
    for i, r, k, tr in items:
        val = ck.printed_value(out, "V%d" % i)
        events += len(tr.raw)
        inner_levels += len(tr.inner)
        shapes.add(hashlib.sha1(T.shape(tr).encode()).hexdigest())
        if val is None:
            ck.violation("cases-eval", "trace file did not evaluate: " + out[-400:], {"log": out[-3000:]}, no_input=True)
            break
        if val == "true" and tr.complete:
            nvalid += 1
        else:
            failing.append((i, r, k, tr))
# second pass: where does a rejected trace leave the transition relation?
files = {}
for i, r, k, tr in failing[:16]:
    files["reject%d" % i] = (T.HEADER + T.coq_run("t%d" % i, tr, {}) +
        "Definition F%d := Eval vm_compute in match t%d_atr with Some tr => reject_point t%d_top t%d_tabs t%d_assign t%d_cap tr | None => Some (0%%nat, false) end.\nPrint F%d.\n"
        % (i, i, i, i, i, i, i))
results = ck.coq_cases_parallel(files, timeout=3000, jobs=nshard) if files else {}
for i, r, k, tr in failing[:16]:
    rc, out = results["reject%d" % i]
    val = ck.printed_value(out, "F%d" % i) or ""
    m = re.match(r"Some \((\d+)(?:%nat)?, (true|false)\)", val)
    idx = int(m.group(1)) if m else None
    skipdiff = bool(m and m.group(2) == "true")
    crashed = r.get("TimedOut") or r.get("Exit") not in (0, 1)
    if idx is None and crashed:
        continue        # a prefix of a run that crashed or hung (reported by the harness), every recorded step is legal
    if skipdiff:
        f = tr.raw[idx].split(" ")
        lvl, a = int(f[1]), int(f[3])
        rows = tr.top if lvl < 0 else tr.inner.get(lvl, [])
        name = rows[a][4] if a < len(rows) else "?"
        depn = [rows[d][4] for d in rows[a][0]] if a < len(rows) else []
        ck.violation("skip-decision:" + ("package" if lvl < 0 else "analyzer"),
                     "run %s (GOMAXPROCS=%d, VERIF_YIELD=%d, %s): action %s %s although the failed flags of the action and its dependencies %s at that point say the opposite: the failure of a dependency is not ordered before the dependent's start"
                     % (r["ID"], r["GMP"], r["Yield"], " ".join((r.get("Args") or []) + r["Patterns"])[:80], name,
                        "was skipped" if f[5] == "1" else "ran exec", depn),
                     {"run": {x: r.get(x) for x in ("ID", "GMP", "Yield", "Patterns", "Args", "Format", "Tests")}, "event_index": idx, "event": tr.raw[idx],
                      "events_before": tr.raw[max(0, idx - 25):idx + 1], "action": name, "dependencies": depn,
                      "replay": "GOMAXPROCS=%d VERIF_YIELD=%d VERIF_TRACE=/tmp/t staticcheck(-tags verif) %s in the generated module (seed %d)" % (r["GMP"], r["Yield"], " ".join((r.get("Args") or []) + r["Patterns"]), ck.seed),
                      "module_files": data["Files"]})
        continue
    ctx = tr.raw[max(0, idx - 12):idx + 3] if idx is not None else tr.raw[-15:]
    what = ("the scheduler of run %s (GOMAXPROCS=%d, VERIF_YIELD=%d, %s) performed a step the model's transition relation does not allow"
            % (r["ID"], r["GMP"], r["Yield"], " ".join((r.get("Args") or []) + r["Patterns"])[:80]))
    if idx is not None:
        what += ": event %d `%s`" % (idx, tr.raw[idx] if idx < len(tr.raw) else "?")
    elif not tr.complete:
        what += ": the recorded run did not complete"
    else:
        what += ": the final state is not accepted (a second handler for an action, or the semaphore exceeded its capacity)"
    ck.violation("trace-rejected:" + (tr.raw[idx].split(" ")[2] if idx is not None and idx < len(tr.raw) else "incomplete"), what,
                 {"run": {x: r[x] for x in ("ID", "GMP", "Yield", "Patterns", "Format", "Tests")}, "rejected_event_index": idx,
                  "events_before_and_after": ctx, "capacity": tr.cap,
                  "graph_top": [{"id": j, "deps": n[0], "triggers": n[1], "pending": n[2], "failed": n[3], "name": n[4]} for j, n in enumerate(tr.top or [])],
                  "replay": "GOMAXPROCS=%d VERIF_YIELD=%d VERIF_TRACE=/tmp/t staticcheck(-tags verif) %s in the generated module (seed %d)" % (r["GMP"], r["Yield"], " ".join(r["Patterns"]), ck.seed),
                  "module_files": data["Files"]})
ck.log("traces: %d validated of %d (%d events, %d distinct schedules)" % (nvalid, len(traced), events, len(shapes)))

# 5. the obligation of output_deterministic on the observed output: sorted by the regenerated key, key total
obs_ok = None
if have_gen and data.get("RefDiags"):
    ds = data["RefDiags"]
    strings = sorted({x for d in ds for x in (d["Location"]["File"], d["Message"], d["Code"], d["End"]["File"], d["Severity"])},
                     key=lambda s: s.encode("utf8"))
    rank = {s: i for i, s in enumerate(strings)}
    rows = ["[%d;%d;%d;0;%d;%d;0;%d;%d;%d;0;%d]%%Z" % (rank[d["Location"]["File"]], d["Location"]["Line"], d["Location"]["Column"],
            rank[d["Message"]], rank[d["Code"]], rank[d["End"]["File"]], d["End"]["Line"], d["End"]["Column"], rank[d["Severity"]]) for d in ds]
    txt = ("From Coq Require Import List ZArith Bool. Import ListNotations.\nRequire Import Verif.Model.C06_Out Verif.Gen.C06_SortKey.\n"
           "Definition obs : list diag := [\n %s].\nDefinition O := Eval vm_compute in (sortedb gen_sort_key obs, key_totalb gen_sort_key obs).\nPrint O.\n"
           % ";\n ".join(rows))
    rc, out = ck.coq_cases("observed", txt)
    val = ck.printed_value(out, "O")
    if val is None:
        ck.violation("cases-eval", "observed-output file did not evaluate: " + out[-400:], {"log": out[-2000:]}, no_input=True)
    else:
        obs_ok = val
        if not val.startswith("(true"):
            ck.violation("output-not-sorted", "the printed diagnostics are not ordered by the comparison chain extracted from printDiagnostics",
                         {"observed": val, "stdout": [r for r in runs if r["Kind"] == "ref"][0].get("Stdout", "")[:4000], "module_files": data["Files"]})
        elif "true, true" not in val.replace("(", "").replace(")", ""):
            ck.violation("sort-key-not-total", "two different printed diagnostics compare equal under the sort key: their order is left to the unstable sort",
                         {"observed": val, "stdout": [r for r in runs if r["Kind"] == "ref"][0].get("Stdout", "")[:4000], "module_files": data["Files"]})

if ck.thorough() and not broken:
    ok, out = ck.coqchk(["Verif.Props.C06"])
    if not ok:
        broken.append(("coqchk", out[-2000:]))

if broken and not ck.violations:
    ck.violation("obligation:" + broken[0][0], "proof obligation or tie no longer checks: %s; no run of the exploration (%d runs, %d traces) misbehaved"
                 % (broken[0][0], len(runs), len(traced)), {"broken": broken}, no_input=True)

sample_run = traced[0] if traced else None
ck.assume += [
    "exec of an action is a terminating function of the action and of its dependencies' results (Section variable exec + hypothesis exec_local)",
    "Go memory model: atomics are sequentially consistent, a channel send happens before the matching receive completes, `go` happens before the goroutine starts, close happens before a receive that observes it (the edges of the happens-before skeleton)",
    "race freedom of the Go code outside the modelled protocol (analyzers, loader, cache) is explored with the race detector, not proved",
    "the trace hook logs a linearisation of the real execution (decrement+log in one critical section; sends logged before, receives after; see lintcmd/runner/verif_trace.go)",
]
ck.trusted.append("harness hc06 (module generator, run matrix, output comparison) and checks/c06_trace.py (trace -> Gallina)")
same = [r for r in runs if r["Kind"] in ("same", "warm", "ref", "same117", "ref117")]
ck.finish({
    "explanation": "Theorems (Props/C06.v) hold for all executions of the scheduler model; the real scheduler is tied to the model by validating every recorded trace with the model's transition relation in coqc, and explored across GOMAXPROCS / yield seeds / pattern lists / -race. Race freedom of the Go code itself is explored, not proved (partial).",
    "evaluations": len(runs),
    "distinct_nontrivial": len(shapes),
    "rule": "one evaluation = one run of the real staticcheck binary on the generated 18-package module (diamond deps, facts across packages, test variants, a package that does not compile, a package that fails while the runner executes under -go 1.17 with dependents that have slower siblings, two packages with an identically placed unexported object used in one only); distinct_nontrivial = number of distinct recorded schedules (sha1 of the full event sequence incl. graphs) among the traced runs, each with >= 2 package actions running analyzers",
    "samples": [{"run": {x: sample_run[0][x] for x in ("ID", "GMP", "Yield", "Patterns")}, "capacity": sample_run[2].cap,
                 "first_events": sample_run[2].raw[:25], "events": len(sample_run[2].raw)}] if sample_run else ["no trace"],
    "traces_validated_against_impl": nvalid,
    "trace_events": events, "analyzer_levels": inner_levels,
    "byte_identical_runs": len(same), "partial_runs": len([r for r in runs if r["Kind"] == "partial"]),
    "decrement_stress_rounds": data.get("Stress"),
    "race_runs": data.get("RaceRuns", 0), "race_log": data.get("RaceLog", ""),
    "gomaxprocs": sorted({r["GMP"] for r in runs}), "yield_seeds": len({r["Yield"] for r in runs}),
    "observed_output_sorted_and_key_total": obs_ok,
    "reference_diagnostics": len(data.get("RefDiags") or []),
})
