#!/usr/bin/env python3
"""C20 — version-restricted problems respect the effective Go version (DESIGN §6 C20)."""
import json, os, re, sys
sys.path.insert(0, os.path.dirname(os.path.abspath(__file__)))
from common import *

ck = Check("C20", level="proof")
broken = []          # proof obligations / ties that no longer check

ok, out = ck.forbidden_vernac()
if not ok:
    broken.append(("forbidden-vernacular", out))

# 1. translator + theorems re-checked against the regenerated tables
ok, out = ck.genmodel()
if not ok:
    broken.append(("genmodel", out))
ok, out = ck.coq_make(["Model/C20_Check.vo", "Proofs/C20.vo", "Examples/C20.vo"])
if not ok:
    # Examples contain no_cex_now; if only that fails the model still runs
    ok2, out2 = ck.coq_make(["Model/C20_Check.vo", "Proofs/C20.vo"])
    broken.append(("coq-make", out[-3000:]))
    if not ok2:
        ck.violation("coq-model-broken", "Coq model of C20 does not compile", {"log": out2[-3000:]}, no_input=True)
        ck.finish({"evaluations": 1, "distinct_nontrivial": 0, "rule": "n/a", "samples": ["model did not compile"]})
ok, out = ck.coq_props()
if not ok:
    broken.append(("Props/C20.v", out[-3000:]))

# 2. implementation on the grid
exe, out = ck.go_build("./cmd/hc20")
if exe is None:
    ck.violation("harness-build", "harness does not build against /repo", {"log": out[-3000:]}, no_input=True)
    ck.finish({"evaluations": 1, "distinct_nontrivial": 0, "rule": "n/a", "samples": ["harness build failed"]})
work = ck.mkscratch()
res = os.path.join(work, "out.json")
args = [exe, "-work", work, "-out", res, "-seed", str(ck.seed)]
args += ["-mods", "0", "-flags", "0"] if ck.thorough() else ["-mods", "4", "-flags", "6"]
rc, out = sh(args, timeout=3000)
if rc != 0:
    ck.violation("harness-run", "harness run failed: " + out[-500:], {"log": out[-3000:]}, no_input=True)
    ck.finish({"evaluations": 1, "distinct_nontrivial": 0, "rule": "n/a", "samples": ["harness run failed"]})
data = json.load(open(res))
probes, cells = data["Probes"], data["Cells"]
# every file gets one UNRESTRICTED problem ("V <lang> <std>"); if it is missing, an unrestricted problem was suppressed
lost = [c for c in cells if not c.get("Lang") or not c.get("Std")]
for c in lost[:5]:
    cellsrc = {"module": ("go 1.%d" % c["Module"]) if c["Module"] else "no module (GOPATH mode)",
               "flag": ("-go 1.%d" % c["Flag"]) if c["Flag"] else "-go module", "tag": ("//go:build go1.%d" % c["Tag"]) if c["Tag"] else "none"}
    ck.violation("unrestricted-suppressed", "a problem reported WITHOUT any version restriction was suppressed (after problems with restrictions had been reported from the same pass): %s" % cellsrc,
                 {"cell": cellsrc, "reported_probes": c.get("Reported")})
cells = [c for c in cells if c.get("Lang") and c.get("Std")]

def ver(s):
    m = re.match(r"go(\d+)\.(\d+)", s)
    return "(%s, %s)%%Z" % (m.group(1), m.group(2))
def optz(n):
    return "None" if n == 0 else "(Some %d%%Z)" % n
pidx = {p["Name"]: i for i, p in enumerate(probes)}
probes_v = coq_list([coq_list(["(%s, %s)" % (k, ver(v)) for k, v in p["Setters"]]) for p in probes])
cells_v = coq_list(["mkCell %d%%Z %s %s %s %s %s" % (c["Module"], optz(c["Flag"]), optz(c["Tag"]), ver(c["Lang"]), ver(c["Std"]),
                    coq_list(["%d%%nat" % pidx[n] for n in (c["Reported"] or [])])) for c in cells])
text = """From Coq Require Import List ZArith. Import ListNotations.
Require Import Verif.Model.C20_Types Verif.Gen.C20_ReportOpts Verif.Model.C20 Verif.Model.C20_Check.
Definition probes : list (list (bound * version)) := %s.
Definition cells : list cell := %s.
Definition M := Eval vm_compute in mismatches probes cells.
Definition V := Eval vm_compute in violations probes cells.
Definition X := Eval vm_compute in find_cex gen_setters gen_gates.
Print M.
Print V.
Print X.
""" % (probes_v, cells_v)
rc, out = ck.coq_cases("grid", text)
M, V, X = ck.printed_value(out, "M"), ck.printed_value(out, "V"), ck.printed_value(out, "X")
if rc != 0 or M is None or V is None:
    ck.violation("cases-eval", "cases file did not evaluate", {"log": out[-3000:]}, no_input=True)
else:
    def describe(i):
        c = cells[i]
        return {"module": ("go 1.%d" % c["Module"]) if c["Module"] else "no module (GOPATH mode)", "flag": ("-go 1.%d" % c["Flag"]) if c["Flag"] else "-go module",
                "tag": ("//go:build go1.%d" % c["Tag"]) if c["Tag"] else "none", "impl_lang": c["Lang"], "impl_std": c["Std"]}
    def parse(val):
        # [(3%nat, [DReport 5 true; DLang]); ...]
        res = []
        for m in re.finditer(r"\((\d+)%?n?a?t?,\s*\[([^\]]*)\]\)", val):
            res.append((int(m.group(1)), [x.strip() for x in m.group(2).split(";")]))
        return res
    if V != "[]":
        for i, diffs in parse(V)[:20]:
            for d in diffs[:3]:
                m = re.match(r"DReport (\d+) (\w+)", d)
                if m:
                    p = probes[int(m.group(1))]
                    key = "report:%s" % "+".join(k for k, _ in p["Setters"])
                    what = "problem restricted by %s was %s in a file whose effective versions make it %s (%s)" % (
                        p["Setters"], "reported" if m.group(2) == "true" else "suppressed",
                        "out of range" if m.group(2) == "true" else "in range", describe(i))
                    ck.violation(key, what, {"cell": describe(i), "setters": p["Setters"], "impl_reported": m.group(2),
                                             "rerun": "./check C20 (probe %s)" % p["Name"]})
                else:
                    ck.violation("effective-version:%s" % d, "effective %s version differs from the documented one: %s" % (d, describe(i)),
                                 {"cell": describe(i)})
    elif M != "[]":
        # implementation satisfies the property on every cell, but the transcription disagrees with it
        ck.violation("model-mismatch", "model and implementation disagree although the property holds on all explored cells: " + M[:300],
                     {"mismatches": M[:3000]}, no_input=True)
# 3. CLI tie: the real staticcheck binary with real version-restricted checks (SA1019, SA1015)
clicells = []
sc, out = ck.build_repo_cmd("./cmd/staticcheck", "staticcheck")
if sc is None:
    ck.violation("staticcheck-build", "cmd/staticcheck does not build with -tags verif", {"log": out[-3000:]}, no_input=True)
else:
    res2 = os.path.join(work, "cli.json")
    args = [exe, "-cli", sc, "-work", work, "-out", res2, "-seed", str(ck.seed)]
    args += ["-mods", "0", "-flags", "3"] if ck.thorough() else ["-mods", "2", "-flags", "1"]
    rc, out = sh(args, timeout=3000)
    if rc != 0:
        ck.violation("cli-run", "CLI tie failed to run: " + out[-500:], {"log": out[-3000:]}, no_input=True)
    else:
        cli = json.load(open(res2))
        clicells = cli["Cells"]
        since = coq_list(["%d%%Z" % a["Since"] for a in cli["APIs"]])
        cv = coq_list(["mkCli %d%%Z %s %s %s %s %d%%nat" % (c["Module"], optz(c["Flag"]), optz(c["Tag"]),
                       coq_list([coq_bool(b) for b in c["SA1019"]]), coq_bool(c["SA1015"]), len(c["Other"] or [])) for c in clicells])
        text2 = """From Coq Require Import List ZArith. Import ListNotations.
Require Import Verif.Model.C20_Types Verif.Model.C20 Verif.Model.C20_Check.
Definition CV := Eval vm_compute in cli_violations %s %s.
Print CV.
""" % (since, cv)
        rc, out = ck.coq_cases("cli", text2)
        CV = ck.printed_value(out, "CV")
        if rc != 0 or CV is None:
            ck.violation("cli-eval", "CLI cases file did not evaluate", {"log": out[-3000:]}, no_input=True)
        elif CV != "[]":
            for m in list(re.finditer(r"\((\d+)%?n?a?t?,\s*\[([^\]]*)\]\)", CV))[:10]:
                c = clicells[int(m.group(1))]
                first = re.match(r"\s*\((\d+)%?n?a?t?,\s*(\w+)\)", m.group(2))
                idx = int(first.group(1)) if first else -1
                which = cli["APIs"][idx]["Name"] + " (SA1019, deprecated since go1.%d)" % cli["APIs"][idx]["Since"] if 0 <= idx < len(cli["APIs"]) else \
                        ("time.Tick (SA1015, stdlib < go1.23)" if idx == 100 else "unexpected problem")
                cellsrc = {"module": ("go 1.%d" % c["Module"]) if c["Module"] else "no module (GOPATH mode)", "flag": ("-go 1.%d" % c["Flag"]) if c["Flag"] else "-go module",
                           "tag": ("//go:build go1.%d" % c["Tag"]) if c["Tag"] else "none"}
                ck.violation("cli:%s" % which.split(" ")[0], "staticcheck CLI: %s wrongly %s for %s" % (
                    which, "reported" if (first and first.group(2) == "true") else "suppressed", cellsrc),
                    {"cell": cellsrc, "observed": c, "rerun": "staticcheck -checks SA1019,SA1015 -f json %s ./... in a module with that go directive and file tag" % cellsrc["flag"]})

if ck.thorough():
    okc, outc = ck.coqchk(["Verif.Props.C20"])
    if not okc:
        broken.append(("coqchk", outc[-2000:]))
if broken and not ck.violations:
    ck.violation("obligation:" + broken[0][0], "proof obligation or tie no longer checks: %s (model-level counterexamples: %s)" % (broken[0][0], X),
                 {"broken": broken, "model_counterexamples": X}, no_input=True)

nontriv = len({(c["Module"], c["Flag"], c["Tag"]) for c in cells if c["Tag"] or c["Flag"]})
ck.assume += ["go/types Info.FileVersions = max(tag, go1.21) for tagged files (external; compared with the real type checker on every cell)",
              "go/version.Compare on well-formed go1.N strings is the lexicographic order on (major, minor)"]
ck.finish({
    "evaluations": max(1, len(cells) * len(probes) + 8 * len(clicells)),
    "distinct_nontrivial": nontriv,
    "rule": "cell = (module go directive, -go flag, //go:build tag) run through the real loader+runner with a probe analyzer calling report.Report with each setter list; non-trivial = tag or flag present (effective version differs from the plain module version); every cell is compared on %d probes (4 bound kinds x 11 thresholds + 40 two-setter lists)" % len(probes),
    "samples": ([{"cell": cells[i], "probes": probes[:2]} for i in range(0, len(cells), max(1, len(cells) // 3))][:3] or ["no cell carried the unrestricted marker problem"]),
    "cells": len(cells), "probes": len(probes), "cli_cells": len(clicells),
    "traces_validated_against_impl": len(cells),
})
