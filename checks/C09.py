#!/usr/bin/env python3
"""C09 — pattern bindings: alternatives are atomic, names bind consistently, both Binding spellings are
interchangeable (DESIGN §6 C09)."""
import json, os, re, sys
sys.path.insert(0, os.path.dirname(os.path.abspath(__file__)))
from common import *

ck = Check("C09", level="proof")
if ck.replay_in:
    print(open(ck.replay_in).read())
    sys.exit(0)
broken = []          # proof obligations / ties that no longer check


def stop(cov_note):
    ck.finish({"evaluations": 1, "distinct_nontrivial": 0, "rule": "n/a", "samples": [cov_note]})


ok, out = ck.forbidden_vernac()
if not ok:
    broken.append(("forbidden-vernacular", out))

# 1. translator + theorems re-checked against the regenerated tables
ok, out = ck.genmodel()
if not ok:
    broken.append(("genmodel", out[-3000:]))
ok, out = ck.coq_make(["Gen/C09_Matcher.vo", "Model/C09_Check.vo"])
if not ok:
    ck.violation("coq-model-broken", "Coq model of C09 does not compile", {"log": out[-3000:]}, no_input=True)
    stop("model did not compile")
ok, out = ck.coq_make(["Proofs/C09.vo", "Proofs/C09_Spelling.vo", "Examples/C09.vo"])
if not ok:
    broken.append(("coq-make Proofs/C09 Proofs/C09_Spelling Examples/C09", out[-3000:]))
ok, out = ck.coq_props()
if not ok:
    broken.append(("Props/C09.v", out[-3000:]))
ck.log("theorems checked", "BROKEN: " + broken[0][0] if broken else "ok")

# 2. implementation on generated (pattern, tree) pairs
exe, out = ck.go_build("./cmd/hc09")
if exe is None:
    ck.violation("harness-build", "harness does not build against /repo", {"log": out[-3000:]}, no_input=True)
    stop("harness build failed")
work = ck.mkscratch()
res = os.path.join(work, "out.json")
ncases = 30000 if ck.thorough() else 1500
rc, out = sh([exe, "-out", res, "-seed", str(ck.seed), "-n", str(ncases)], timeout=3000)
if rc != 0:
    ck.violation("harness-run", "harness run failed: " + out[-500:], {"log": out[-3000:]}, no_input=True)
    stop("harness run failed")
data = json.load(open(res))
cases = data["Cases"]
ck.log("harness done:", len(cases), "cases")

OUT = {"ok": "OOk", "fail": "OFail", "panic-rebound": "OPanicRebound", "panic-other": "OPanicOther"}


def obs(m, p, o, s):
    return "(mkObs %s %s %s %s)" % (m, p, OUT[o], s)


def case_v(c):
    flip = "None"
    if c["Flipped"]:
        flip = "(Some %s)" % obs(c["FMapV"], c["FPatV"], c["FOutcome"], c["FStateV"])
    return "(mkCase %s %s %s)" % (c["TreeV"], obs(c["MapV"], c["PatV"], c["Outcome"], c["StateV"]), flip)


STRLIT = re.compile(r'"(?:[^"]|"")*"')


def intern_strings(body):
    """Every distinct string literal becomes one Definition (elaborated and compiled once per file)."""
    table = {}

    def repl(m):
        lit = m.group(0)
        if lit not in table:
            table[lit] = "s_%d" % len(table)
        return table[lit]
    body = STRLIT.sub(repl, body)
    defs = "".join("Definition %s : string := %s.\n" % (n, lit) for lit, n in table.items())
    return defs, body


SHARD = 400
files, shards = {}, []
for k in range(0, len(cases), SHARD):
    chunk = cases[k:k + SHARD]
    name = "cases_%03d" % (k // SHARD)
    shards.append((name, k))
    defs, body = intern_strings(coq_list(["\n " + case_v(c) for c in chunk]))
    files[name] = """From Coq Require Import List String ZArith NArith. Import ListNotations.
Require Import Verif.Model.C09_Types Verif.Gen.C09_Matcher Verif.Model.C09 Verif.Model.C09_Check.
Open Scope string_scope.
%sDefinition cases : list case := %s.
Definition M := Eval vm_compute in mismatches gen_cfg cases.
Definition V := Eval vm_compute in violations gen_cfg cases.
Definition I := Eval vm_compute in idx_not_inj cases.
Print M.
Print V.
Print I.
""" % (defs, body)
files["search"] = """Require Import Verif.Model.C09_Types Verif.Gen.C09_Matcher Verif.Model.C09 Verif.Model.C09_Check.
Definition X := Eval vm_compute in find_cex gen_cfg.
Print X.
"""
results = ck.coq_cases_parallel(files)
X = ck.printed_value(results["search"][1], "X")
ck.log("cases evaluated")


def parse(val):
    # [(3, [DFlag; DLeak]); ...]
    return [(int(m.group(1)), [x.strip() for x in m.group(2).split(";")])
            for m in re.finditer(r"\((\d+)%?n?a?t?,\s*\[([^\]]*)\]\)", val or "")]


mism, viol, notinj, evalfail = [], [], [], []
for name, base in shards:
    rc, out = results[name]
    M, V, I = ck.printed_value(out, "M"), ck.printed_value(out, "V"), ck.printed_value(out, "I")
    if rc != 0 or M is None or V is None:
        evalfail.append((name, out[-1500:]))
        continue
    mism += [(base + i, d) for i, d in parse(M)]
    viol += [(base + i, d) for i, d in parse(V)]
    notinj += [base + i for i, _ in parse(I)]
if evalfail:
    ck.violation("cases-eval", "cases file did not evaluate: " + evalfail[0][1][-300:], {"log": evalfail[0]}, no_input=True)


def describe(c):
    d = {"pattern": c["Pattern"], "go": c["Src"], "node": c["NodeTy"], "impl_outcome": c["Outcome"],
         "impl_state": c["StateV"], "bindings_mapping": c["MapV"], "parsed_pattern_with_idx": c["PatV"]}
    if c["Flipped"]:
        d.update({"other_spelling": c["Flipped"], "other_outcome": c["FOutcome"], "other_state": c["FStateV"],
                  "other_parsed": c["FPatV"]})
    return d


WHAT = {
    "DLeak": "pattern.Match succeeded but the State is not the one of the successful path (bindings of a failed Or alternative / Not operand visible, or bindings lost)",
    "DSpelling": "`name@pat` and `(Binding \"name\" pat)` parse to different patterns (bit index differs)",
    "DSpellingRun": "the two Binding spellings of the same pattern behave differently",
}
seen = set()
for i, ds in viol:
    c = cases[i]
    for d in ds:
        if d not in WHAT:
            continue
        # key: the pattern itself (canonical failing input) for directed cases, else the kind of failure
        key = "%s:%s" % (d, c["Pattern"]) if c["Kind"] == "directed" else d
        if key in seen:
            continue
        seen.add(key)
        ck.violation(key, "%s: pattern %s on `%s` -> %s %s" % (WHAT[d], c["Pattern"], c["Src"], c["Outcome"], c["StateV"][:200]),
                     dict(describe(c), idx_injective=(i not in notinj)))
if not viol and mism:
    i, ds = mism[0]
    ck.violation("model-mismatch", "model and implementation disagree (%s) although the property holds on all explored cases: pattern %s on `%s`"
                 % (",".join(ds), cases[i]["Pattern"], cases[i]["Src"]),
                 {"first": describe(cases[i]), "count": len(mism), "kinds": sorted({d for _, ds in mism for d in ds})}, no_input=True)
if broken and not ck.violations:
    ck.violation("obligation:" + broken[0][0], "proof obligation or tie no longer checks: %s" % broken[0][0],
                 {"broken": broken, "idx_not_injective_cases": len(notinj), "model_level_counterexamples(find_cex gen_cfg)": X}, no_input=True)

from collections import Counter
nontriv = sum(1 for c in cases if c["Outcome"] == "ok" and c["StateV"] != "[]" and (c["HasOr"] or c["HasNot"]))
ck.assume += ["type-aware nodes (Symbol, Builtin, Object, IntegerLiteral, TrulyConstantExpression) consult go/types: modelled through an oracle, not exercised by this tie (Parser.AllowTypeInfo=false)"]
ck.finish({
    "evaluations": len(cases) + sum(1 for c in cases if c["Flipped"]),
    "distinct_nontrivial": nontriv,
    "rule": "case = (generated pattern parsed by the real Parser, node of a generated Go file) run through the real pattern.Match; non-trivial = the match succeeded with a non-empty State and the pattern contains Or or Not; every case is evaluated by match_impl (regenerated cfg, idx as assigned by the parser) and by match_spec inside coqc",
    "samples": [describe(cases[i]) for i in range(0, len(cases), max(1, len(cases) // 3))][:3],
    "outcomes": dict(Counter(c["Outcome"] for c in cases)),
    "kinds": dict(Counter(c["Kind"] for c in cases)),
    "other_spelling_cases": sum(1 for c in cases if c["Flipped"]),
    "succeeded_with_bindings": sum(1 for c in cases if c["Outcome"] == "ok" and c["StateV"] != "[]"),
    "model_level_counterexample_search": X,
    "model_mismatches": len(mism), "property_violations": len(viol), "idx_not_injective_cases": len(notinj),
    "skipped_by_generator": data["Skipped"],
})
