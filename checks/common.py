"""Shared machinery for the per-property checks (see DESIGN.md section 2).

A check script does, in order:
    ck = Check("C20")                      # parses --tier / VERIF_TIER / VERIF_SEED / --replay
    ck.genmodel()                          # translator: /repo source -> coq/Gen/C20_*.v
    ck.coq_make(["Props/C20.vo"])          # theorems re-checked against regenerated tables
    ck.go_build("./cmd/hc20")              # harness built against /repo working tree, -tags verif
    ... run harness, write cases .v, ck.coq_cases(...)
    ck.violation(...) for every failure found (concrete input or broken obligation)
    ck.finish(coverage=...)                # writes evidence/<id>.json, prints VIOLATION/KNOWN-FINDING, exits
"""
import os, sys, json, time, subprocess, hashlib, re, fcntl, shutil, tempfile

VERIF = os.path.dirname(os.path.dirname(os.path.abspath(__file__)))
REPO = os.environ.get("VERIF_REPO", "/repo")
COQ = os.path.join(VERIF, "coq")
BIN = os.path.join(VERIF, "bin")
HARNESS = os.path.join(VERIF, "harness")
GENMODEL = os.path.join(VERIF, "genmodel")

GOENV = dict(os.environ)
GOENV["GOFLAGS"] = "-mod=mod"
GOENV["GOPROXY"] = "off"
# NB: GOTOOLCHAIN/GOSUMDB must stay at their defaults on this image (see DESIGN 2.2).
GOENV.pop("GOTOOLCHAIN", None)
GOENV.pop("GOSUMDB", None)

KERNEL_TB = [
    "Coq 8.16.1 kernel (coqc), including the vm_compute bytecode evaluator; native_compute not used",
    "Coq standard library; no Axiom/Parameter/Admitted in /verif/coq (grep enforced by setup.sh and by every check)",
]


def sh(cmd, cwd=None, timeout=1200, env=None, input=None):
    """Run a command; returns (rc, combined output). Timeouts are failures (rc 124)."""
    try:
        p = subprocess.run(cmd, cwd=cwd, env=env or GOENV, input=input, timeout=timeout,
                           stdout=subprocess.PIPE, stderr=subprocess.STDOUT, text=True,
                           shell=isinstance(cmd, str))
        return p.returncode, p.stdout
    except subprocess.TimeoutExpired as e:
        out = e.stdout if isinstance(e.stdout, str) else (e.stdout or b"").decode("utf8", "replace")
        return 124, (out or "") + "\n[timeout after %ss]" % timeout


class Lock:
    def __init__(self, name):
        self.path = os.path.join(VERIF, ".lock." + name)

    def __enter__(self):
        self.f = open(self.path, "w")
        fcntl.flock(self.f, fcntl.LOCK_EX)
        return self

    def __exit__(self, *a):
        fcntl.flock(self.f, fcntl.LOCK_UN)
        self.f.close()


def coq_str(s):
    """Gallina string literal (Coq.Strings.String) for an ASCII python string."""
    out = []
    for ch in s:
        if ch == '"':
            out.append('""')
        elif 32 <= ord(ch) < 127:
            out.append(ch)
        else:
            raise ValueError("non-printable in coq_str: %r" % s)
    return '"' + "".join(out) + '"'


def coq_list(items):
    return "[" + "; ".join(items) + "]"


def coq_bool(b):
    return "true" if b else "false"


def coq_Z(n):
    return "(%d)%%Z" % n


def coq_opt(x):
    return "None" if x is None else "(Some %s)" % x


def load_known_findings():
    """known_findings.txt lines:  finding: property=Cxx key=<key> <text>   |   fixed: property=Cxx <commit> <text>"""
    res = {}
    path = os.path.join(VERIF, "known_findings.txt")
    if not os.path.exists(path):
        return res
    for line in open(path):
        line = line.strip()
        m = re.match(r"finding:\s+property=(\S+)\s+key=(\S+)\s*(.*)$", line)
        if m:
            res.setdefault(m.group(1), {})[m.group(2)] = m.group(3)
    return res


class Check:
    def __init__(self, pid, level="proof"):
        self.pid = pid
        self.level = level
        self.t0 = time.time()
        self.tier = os.environ.get("VERIF_TIER", "quick")
        self.replay_in = None
        args = sys.argv[1:]
        i = 0
        while i < len(args):
            if args[i] == "--tier":
                self.tier = args[i + 1]; i += 2
            elif args[i] == "--replay":
                self.replay_in = args[i + 1]; i += 2
            else:
                i += 1
        if self.tier not in ("quick", "thorough"):
            self.tier = "quick"
        try:
            self.seed = int(os.environ.get("VERIF_SEED", "1"))
        except ValueError:
            self.seed = 1
        self.violations = []      # list of dict(key, what, replay)
        self.obligations = 0
        self.discharged = 0
        self.assumptions_out = []
        self.trusted = list(KERNEL_TB)
        self.assume = []
        self.notes = []
        self.logdir = os.path.join(VERIF, "replay")
        os.makedirs(self.logdir, exist_ok=True)
        os.makedirs(BIN, exist_ok=True)
        self.casedir = os.path.join(COQ, "cases", pid)
        shutil.rmtree(self.casedir, ignore_errors=True)
        os.makedirs(self.casedir, exist_ok=True)
        self.scratch = []
        self.tmpbins = []

    # ------------------------------------------------------------------ utilities
    def thorough(self):
        return self.tier == "thorough"

    def log(self, *a):
        print("[%s %.1fs]" % (self.pid, time.time() - self.t0), *a, flush=True)

    def mkscratch(self, prefix=None):
        """Scratch directory outside /repo and /verif; removed by finish()."""
        d = tempfile.mkdtemp(prefix=(prefix or ("verif-%s-" % self.pid)))
        self.scratch.append(d)
        return d

    def cleanup(self):
        for d in self.scratch:
            shutil.rmtree(d, ignore_errors=True)
        self.scratch = []
        for b in self.tmpbins:
            try:
                os.remove(b)
            except OSError:
                pass
        self.tmpbins = []

    # ------------------------------------------------------------------ translator
    def genmodel(self, which=None):
        """Run the translator for this property. Returns (ok, log). Gen files are only rewritten when
        their content changes, so an unchanged /repo leaves the .vo files up to date."""
        which = which or self.pid
        with Lock("genmodel"):
            exe = os.path.join(BIN, "genmodel")
            rc, out = sh(["go", "build", "-o", exe, "."], cwd=GENMODEL, timeout=600)
            if rc != 0:
                return False, "genmodel build failed:\n" + out
            rc, out = sh([exe, "-repo", REPO, "-out", os.path.join(COQ, "Gen"), "-only", which], timeout=300)
        self.trusted.append("genmodel (/verif/genmodel, go/ast only): transcribes tables/field lists of /repo into coq/Gen/%s_*.v on every run" % which)
        return rc == 0, out

    # ------------------------------------------------------------------ Coq
    def coq_make(self, targets, timeout=1500):
        """make the given .vo targets (full .vo build) under a lock. Returns (ok, log)."""
        with Lock("coq"):
            rc, out = sh(["bash", os.path.join(VERIF, "tools", "mkcoqproject.sh")], cwd=COQ, timeout=300)
            if rc != 0:
                return False, out
            rc, out2 = sh(["make", "-j16"] + targets, cwd=COQ, timeout=timeout)
        return rc == 0, out + out2

    def coq_props(self, propfile=None, timeout=900):
        """Compile Props/<pid>.v directly (its dependencies must have been made) and capture the
        Print Assumptions output; counts obligations = number of Theorem statements in the file."""
        propfile = propfile or ("Props/%s.v" % self.pid)
        src = open(os.path.join(COQ, propfile)).read()
        nthm = len(re.findall(r"^\s*(Theorem|Lemma|Corollary)\s", src, re.M))
        with Lock("coq"):
            rc, out = sh(["coqc", "-R", ".", "Verif", propfile], cwd=COQ, timeout=timeout)
        self.obligations += nthm
        if rc == 0:
            self.discharged += nthm
            closed = len(re.findall(r"Closed under the global context", out))
            axioms = re.findall(r"^Axioms:\n((?:.+\n)+)", out, re.M)
            self.assumptions_out.append("%s: %d theorems, Print Assumptions: %d closed under the global context%s"
                                        % (propfile, nthm, closed,
                                           ("; AXIOMS: " + " | ".join(a.strip() for a in axioms)) if axioms else "; no axioms"))
        return rc == 0, out

    def coq_cases(self, name, text, timeout=1200):
        """Write coq/cases/<pid>/<name>.v and compile it; returns (rc, output)."""
        path = os.path.join(self.casedir, name + ".v")
        with open(path, "w") as f:
            f.write(text)
        rc, out = sh(["coqc", "-R", COQ, "Verif", path], cwd=self.casedir, timeout=timeout)
        return rc, out

    def coq_cases_parallel(self, files, timeout=1200, jobs=16):
        """files: dict name -> text. Compiles them in parallel; returns dict name -> (rc, out)."""
        from concurrent.futures import ThreadPoolExecutor
        res = {}
        with ThreadPoolExecutor(max_workers=jobs) as ex:
            futs = {n: ex.submit(self.coq_cases, n, t, timeout) for n, t in files.items()}
            for n, f in futs.items():
                res[n] = f.result()
        return res

    @staticmethod
    def printed_value(out, name):
        """Extract the body printed by `Print name.` (after `name = `) up to `     : type`."""
        m = re.search(r"^%s\s*=\s*(.*?)\n\s*:\s" % re.escape(name), out, re.S | re.M)
        return None if m is None else re.sub(r"\s+", " ", m.group(1)).strip()

    def coqchk(self, modules, timeout=3600):
        """Thorough tier: re-check compiled .vo files (and everything they depend on) with the independent
        checker; -o prints the axioms relied upon. modules e.g. ["Verif.Props.C20"]. Returns (ok, summary)."""
        with Lock("coq"):
            rc, out = sh(["coqchk", "-silent", "-o", "-R", ".", "Verif"] + modules, cwd=COQ, timeout=timeout)
        m = re.search(r"CONTEXT SUMMARY(.*)", out, re.S)
        summary = re.sub(r"\s+", " ", m.group(1)).strip()[:1500] if m else out[-800:]
        self.assumptions_out.append("coqchk -o %s: rc=%d %s" % (" ".join(modules), rc, summary))
        return rc == 0, out

    def forbidden_vernac(self):
        """No Axiom/Admitted/... anywhere in the development (re-checked on every run)."""
        rc, out = sh(["bash", os.path.join(VERIF, "tools", "forbidden.sh")], cwd=VERIF, timeout=60)
        return rc == 0, out

    # ------------------------------------------------------------------ Go harness
    def go_build(self, pkg, outname=None, tags="verif", race=False, cwd=None, timeout=1500):
        cwd = cwd or HARNESS
        outname = outname or os.path.basename(pkg.rstrip("/"))
        # per-process output name: concurrent checks (possibly against different VERIF_REPO roots) never
        # see each other's binaries; removed by cleanup()
        exe = os.path.join(BIN, "%s.%d" % (outname, os.getpid()))
        self.tmpbins.append(exe)
        with Lock("gomod"):
            try:
                shutil.copyfile(os.path.join(REPO, "go.sum"), os.path.join(cwd, "go.sum"))
            except OSError:
                pass
        cmd = ["go", "build", "-tags", tags, "-o", exe]
        if REPO != "/repo":
            # alternative repository root (scratch worktree used for mutation testing): same go.mod with the
            # replace directive pointing at it, passed with -modfile so the committed go.mod is untouched
            tag = hashlib.sha1(REPO.encode()).hexdigest()[:8]
            alt = os.path.join(cwd, "alt-%s.mod" % tag)
            with Lock("gomod"):
                txt = open(os.path.join(cwd, "go.mod")).read().replace("=> /repo", "=> " + REPO)
                open(alt, "w").write(txt)
                shutil.copyfile(os.path.join(REPO, "go.sum"), os.path.join(cwd, "alt-%s.sum" % tag))
            cmd += ["-modfile", alt]
        if race:
            cmd.append("-race")
        cmd.append(pkg)
        rc, out = sh(cmd, cwd=cwd, timeout=timeout)
        return (exe if rc == 0 else None), out

    def build_repo_cmd(self, pkg, outname, tags="verif", race=False, timeout=1500):
        """Build a command of /repo itself (e.g. ./cmd/staticcheck) from the current working tree."""
        exe = os.path.join(BIN, "%s.%d" % (outname, os.getpid()))
        self.tmpbins.append(exe)
        cmd = ["go", "build", "-tags", tags, "-o", exe]
        if race:
            cmd.append("-race")
        cmd.append(pkg)
        rc, out = sh(cmd, cwd=REPO, timeout=timeout)
        return (exe if rc == 0 else None), out

    # ------------------------------------------------------------------ reporting
    def violation(self, key, what, replay_obj=None, no_input=False):
        """Record a violation. key: canonical identification of the failing input (matched against
        known_findings.txt). replay_obj is written to replay/<pid>-<hash>.json."""
        h = hashlib.sha1((self.pid + key).encode()).hexdigest()[:10]
        path = os.path.join(self.logdir, "%s-%s.json" % (self.pid, h))
        with open(path, "w") as f:
            json.dump({"property": self.pid, "key": key, "what": what, "seed": self.seed, "tier": self.tier,
                       "no_failing_input_found": bool(no_input), "replay": replay_obj}, f, indent=1, default=str)
        self.violations.append({"key": key, "what": what, "replay": path, "no_input": no_input})

    def finish(self, coverage, extra_assumptions=None):
        known = load_known_findings().get(self.pid, {})
        real = []
        for v in self.violations:
            if v["key"] in known and not v["no_input"]:
                print("KNOWN-FINDING: property=%s %s [%s]" % (self.pid, known[v["key"]] or v["what"], v["key"]))
            else:
                real.append(v)
        cov = dict(coverage)
        cov.setdefault("obligations", self.obligations)
        cov.setdefault("discharged", self.discharged)
        cov.setdefault("checker_cmd", "make -C /verif/coq Props/%s.vo && coqc -R . Verif Props/%s.v (full .vo build; cases evaluated by vm_compute in coqc)" % (self.pid, self.pid))
        cov.setdefault("trusted_base", self.trusted + self.assumptions_out)
        if self.notes:
            cov.setdefault("notes", self.notes)
        ev = {
            "property_id": self.pid,
            "tier": self.tier,
            "seed": self.seed,
            "level": self.level,
            "coverage": cov,
            "assumptions": (extra_assumptions or []) + self.assume,
            "wall_s": round(time.time() - self.t0, 2),
            "violations": len(real),
        }
        os.makedirs(os.path.join(VERIF, "evidence"), exist_ok=True)
        with open(os.path.join(VERIF, "evidence", self.pid + ".json"), "w") as f:
            json.dump(ev, f, indent=1, default=str)
            f.write("\n")
        self.cleanup()
        seen = set()
        for v in real:
            if v["key"] in seen:
                continue
            seen.add(v["key"])
            print("%s: %s" % (self.pid, v["what"]))
            print("VIOLATION property=%s replay=%s%s" % (self.pid, v["replay"], " no-failing-input-found" if v["no_input"] else ""))
        sys.stdout.flush()
        sys.exit(1 if real else 0)
