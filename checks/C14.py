#!/usr/bin/env python3
"""C14 — dominance queries are exact on every CFG the IR builder produces (DESIGN §6 C14).

go/ir/dom.go (Lengauer-Tarjan) is not modelled.  Lib/Graphs.v proves a reference: a fuelled worklist
reachability-avoiding-a-node is sound, complete and never runs out of fuel, hence
dom_ref b c = true <-> every path (any length) from the root to c contains b; Proofs/C14.v proves that
whatever observation (Dominates matrix, Idom, Dominees, DomPreorder, DomPostorder) tree_check accepts is
exact.  On every run the harness builds many packages under builder-mode combinations and tree_check is
evaluated (vm_compute inside coqc) on what the implementation answered for every function."""
import json, os, re, sys
sys.path.insert(0, os.path.dirname(os.path.abspath(__file__)))
from common import *

ck = Check("C14", level="translation_validation")
broken = []

if ck.replay_in:
    print(open(ck.replay_in).read())
    sys.exit(0)

ok, out = ck.forbidden_vernac()
if not ok:
    broken.append(("forbidden-vernacular", out))

# 1. theorems (no generated tables: the reference is independent of /repo; re-made so that a broken
#    proof is never silently relied upon)
ok, out = ck.coq_make(["Lib/Graphs.vo", "Model/C14.vo", "Proofs/C14.vo", "Examples/C14.vo"])
if not ok:
    ok2, out2 = ck.coq_make(["Lib/Graphs.vo", "Model/C14.vo"])
    broken.append(("coq-make", out[-3000:]))
    if not ok2:
        ck.violation("coq-model-broken", "Coq model of C14 does not compile", {"log": out2[-3000:]}, no_input=True)
        ck.finish({"evaluations": 1, "distinct_nontrivial": 0, "rule": "n/a", "samples": ["model did not compile"]})
ck.log("theorems re-made")
ok, out = ck.coq_props()
ck.log("Props compiled")
if not ok:
    broken.append(("Props/C14.v", out[-3000:]))

# 2. the implementation's answers for every function of the corpora
exe, out = ck.go_build("./cmd/hc14")
if exe is None:
    ck.violation("harness-build", "harness does not build against the repository", {"log": out[-3000:]}, no_input=True)
    ck.finish({"evaluations": 1, "distinct_nontrivial": 0, "rule": "n/a", "samples": ["harness build failed"]})
ck.log("harness built")
work = ck.mkscratch()
res = os.path.join(work, "out.json")
env = dict(GOENV); env["VERIF_REPO"] = REPO
rc, out = sh([exe, "-work", work, "-out", res, "-seed", str(ck.seed), "-tier", ck.tier], timeout=6000, env=env)
if rc != 0 or not os.path.exists(res):
    where, src = "", None
    try:
        where = open(os.path.join(work, "progress.txt")).read().strip()
        item = where.split()[0]
        if item.startswith("gen/"):
            path = os.path.join(work, "gen", item[4:], item[4:] + ".go")
            src = {path: open(path).read()}
    except OSError:
        pass
    m = re.search(r"^(panic: .*|fatal error: .*)$", out, re.M)
    if where and m:
        # the builder / dominator construction crashed: the corpus item and mode being built are the failing input
        ck.violation("crash|" + where, "building IR for %s crashed: %s" % (where, m.group(1)[:300]),
                     {"item_and_mode": where, "log": out[-6000:], "source": src or {"dir": where}, "seed": ck.seed})
        # lifting consumes the dominator tree and may crash on a wrong one; NaiveForm does not lift, so the
        # same corpus in the NaiveForm modes shows WHICH function's tree is wrong
        rc, out2 = sh([exe, "-work", work, "-out", res, "-seed", str(ck.seed), "-tier", ck.tier, "-naiveonly"], timeout=6000, env=env)
    else:
        ck.violation("harness-run", "harness run failed: " + out[-800:], {"log": out[-6000:], "seed": ck.seed}, no_input=True)
    if rc != 0 or not os.path.exists(res):
        ck.finish({"evaluations": 1, "distinct_nontrivial": 0, "rule": "n/a", "samples": ["harness run failed"]})
data = json.load(open(res))
cases = data["Cases"]
ck.log("harness: %d (function, mode) pairs, %d distinct (CFG, observation) cases, %d skipped over %d blocks"
       % (data["Functions"], len(cases), data["Skipped"], data["MaxBlocks"]))


def nlist(xs):
    return "[" + ";".join(str(x) for x in xs) + "]"


def case_v(c):
    g = "[" + ";".join(nlist(s) for s in c["CFG"]["Succs"]) + "]"
    rec = "None" if c["CFG"]["Recover"] < 0 else "(Some %d)" % c["CFG"]["Recover"]
    d = c["Dom"]
    idom = "[" + ";".join("None" if i < 0 else "Some %d" % i for i in d["Idom"]) + "]"
    kids = "[" + ";".join(nlist(k) for k in (d["Dominees"] or [])) + "]"
    return "mkCase %d %s %s (mkObs %s %s %s %s %s)" % (c["ID"], g, rec, nlist(d["Dominates"]), idom, kids,
                                                       nlist(d["Pre"] or []), nlist(d["Post"] or []))


def malformed(c):
    """an index the serialiser could not resolve (block not in fn.Blocks, or nil where a block is required)
    cannot be written as N; only Recover and Idom may be -1 (nil)"""
    d = c["Dom"]
    must = [x for s in c["CFG"]["Succs"] for x in s] + [x for k in (d["Dominees"] or []) for x in k] + (d["Pre"] or []) + (d["Post"] or [])
    may = [c["CFG"]["Recover"]] + d["Idom"]
    return any(x < 0 for x in must) or any(x < -1 for x in may)


HEADER = """From Coq Require Import List NArith. Import ListNotations.
Require Import Verif.Lib.Graphs Verif.Model.C14.
Open Scope N_scope.
"""
by_id = {c["ID"]: c for c in cases}
bad_serial = [c for c in cases if malformed(c)]
good = [c for c in cases if not malformed(c)]
# balance shards by cost ~ blocks^2
good.sort(key=lambda c: -c["Stats"]["Blocks"])
nshard = 16 if ck.thorough() else 8
shards = [[] for _ in range(nshard)]
load = [0] * nshard
for c in good:
    i = load.index(min(load))
    shards[i].append(c)
    load[i] += c["Stats"]["Blocks"] ** 2 + 20
files = {}
shard_sizes = {}
for i, sh_cases in enumerate(shards):
    if not sh_cases:
        continue
    shard_sizes["s%02d" % i] = len(sh_cases)
    files["s%02d" % i] = HEADER + "Definition cases : list dom_case := [\n" + ";\n".join(case_v(c) for c in sh_cases) + \
        "].\nDefinition V := Eval vm_compute in violations cases.\nPrint V.\n"
big = data.get("Big")
if big:
    files["big"] = HEADER + "Definition S : list sample := [\n" + ";\n".join(
        "mkS %d %d %s %d %d %d %d" % (p[0], p[1], "true" if p[2] else "false", p[3], p[4], p[5], p[6]) for p in big["Pairs"]) + \
        "].\nDefinition B := Eval vm_compute in firstn 8 (sample_diag 0 S).\nPrint B.\n"
results = ck.coq_cases_parallel(files, timeout=3000)
# a shard that did not finish (e.g. killed under memory pressure) is retried once, alone
for name in [n for n, (rc, out) in results.items() if rc != 0]:
    ck.log("retrying shard " + name)
    results[name] = ck.coq_cases(name, files[name], timeout=9000)
ck.log("coq evaluation done")


def describe(c):
    return {"corpus": c["Corpus"], "package": c["Pkg"], "function": c["Func"], "mode": c["Mode"],
            "succs": c["CFG"]["Succs"], "recover": c["CFG"]["Recover"], "observed": c["Dom"],
            "rerun": "VERIF_SEED=%d ./check C14 --tier %s" % (ck.seed, ck.tier)}


def source_of(c):
    src = data["Sources"].get(c["Corpus"])
    return src if src else {"dir": c["Corpus"]}


accepted = 0
eval_failed = []
for name, (rc, out) in sorted(results.items()):
    if name == "big":
        B = ck.printed_value(out, "B")
        if rc != 0 or B is None:
            eval_failed.append((name, out[-2000:]))
        elif B != "[]":
            ck.violation("big|" + B.split()[0].lstrip("["), "sampled dominance observation of %s (%d blocks, mode N) violates necessary conditions: %s"
                         % (big["Func"], big["Blocks"], B[:300]),
                         {"function": big["Func"], "mode": "N", "blocks": big["Blocks"], "n_if": big["NIf"], "source": big["Source"],
                          "failed": B, "pairs": big["Pairs"][:60], "rerun": "VERIF_SEED=%d ./check C14 --tier %s" % (ck.seed, ck.tier)})
        continue
    V = ck.printed_value(out, "V")
    if rc != 0 or V is None:
        eval_failed.append((name, out[-2000:]))
        continue
    nrej = len(re.findall(r"\((\d+),\s*\[", V)) if V != "[]" else 0
    accepted += shard_sizes[name] - nrej
    if V != "[]":
        for m in re.finditer(r"\((\d+),\s*\[([^\]]*)\]\)", V):
            c = by_id[int(m.group(1))]
            clauses = [x.strip() for x in m.group(2).split(";")]
            kind = clauses[0].split()[0]
            key = "%s|%s|%s|%s" % (c["Corpus"] if c["Corpus"].startswith(("repo", "testdata")) else "gen", c["Func"], c["Mode"], kind)
            ck.violation(key, "go/ir dominance answers for %s (%s, mode %s, %d blocks) are not exact: failed clauses %s"
                         % (c["Func"], c["Corpus"], c["Mode"], c["Stats"]["Blocks"], clauses),
                         {"case": describe(c), "failed_clauses": clauses, "source": source_of(c)})
for c in cases:
    if c["Dom"].get("Aliased"):
        ck.violation("%s|%s|%s|aliased-listing" % (c["Corpus"] if c["Corpus"].startswith(("repo", "testdata")) else "gen", c["Func"], c["Mode"]),
                     "DomPreorder/DomPostorder of %s (%s, mode %s) returned the same slice to two successive calls (documented: a new slice)"
                     % (c["Func"], c["Corpus"], c["Mode"]), {"case": describe(c), "source": source_of(c)})
        break
for c in bad_serial:
    ck.violation("%s|%s|%s|dangling-block" % (c["Corpus"], c["Func"], c["Mode"]),
                 "a Succs/Idom/Dominees/DomPreorder entry of %s is a block that is not in fn.Blocks" % c["Func"],
                 {"case": describe(c), "source": source_of(c)})
if eval_failed:
    ck.violation("cases-eval", "cases file did not evaluate: " + eval_failed[0][0], {"log": eval_failed[0][1]}, no_input=True)
if broken and not ck.violations:
    ck.violation("obligation:" + broken[0][0], "proof obligation no longer checks: %s; tree_check accepted all %d observed functions"
                 % (broken[0][0], accepted), {"broken": broken}, no_input=True)

nontriv = sum(1 for c in cases if c["Stats"]["Join"] or c["Stats"]["Cycle"])
ck.assume += ["the harness reads Succs/Recover and the five observables through the exported go/ir API and writes them unchanged (block identity resolved by position in fn.Blocks)",
              "every block of a built function is reachable from the entry or the Recover block (checked per function: clause CGraph)"]
ck.finish({
    "evaluations": data["Functions"],
    "distinct_nontrivial": nontriv,
    "rule": "one evaluation = one (function, builder mode) pair whose Dominates matrix (all ordered pairs), Idom, Dominees, DomPreorder, DomPostorder were read from go/ir and checked by tree_check inside coqc; identical (CFG, observation) pairs are evaluated once (%d distinct); non-trivial = distinct case whose CFG has a join (block with >= 2 predecessors) or a cycle" % len(cases),
    "samples": [describe(c) for c in (cases[:1] + [c for c in cases if c["Stats"]["Irreducible"]][:1] + [c for c in cases if c["CFG"]["Recover"] >= 0][:1])],
    "programs": len(data["Items"]),
    "disagreements_checked": len(cases) - accepted,
    "corpus_items": data["Items"],
    "functions_by_corpus": data["ByCorpus"],
    "generated": data["Gen"],
    "builder_modes": data["Modes"],
    "distinct_cases": len(cases),
    "accepted_by_tree_check": accepted,
    "cyclic": sum(1 for c in cases if c["Stats"]["Cycle"]),
    "irreducible": sum(1 for c in cases if c["Stats"]["Irreducible"]),
    "with_recover_block": sum(1 for c in cases if c["CFG"]["Recover"] >= 0),
    "max_blocks": max([c["Stats"]["Blocks"] for c in cases] or [0]),
    "skipped_over_block_limit": data["Skipped"],
    "block_limit": data["MaxBlocks"],
    "big_function_sample": ({"function": big["Func"], "blocks": big["Blocks"], "sampled_pairs": len(big["Pairs"]),
                             "checked": "necessary conditions SRoot/SRefl/SInterval/SAntisym only (not tree_check)"} if big else None),
})
