#!/usr/bin/env python3
"""C03 — analysis is total: no crash or spurious failure on buildable code (DESIGN §6 C03, partial).

Proved (re-checked on every run against tables regenerated from /repo and GOROOT): switch_total for every registered
panicking switch.  Explored: every registered analyzer over generated programs (in process, per analyzer, under
recover: search + coverage measurement) and the REAL staticcheck binary built from the working tree over the same
generated module and over packages of the repository / its testdata (std in the thorough tier).
"""
import json, os, re, sys, shutil, glob, hashlib
sys.path.insert(0, os.path.dirname(os.path.abspath(__file__)))
from common import *

ck = Check("C03", level="other")
broken = []          # proof obligations / ties that no longer check
notes = []

def stop(what, log):
    ck.violation("harness:" + what, what + ": " + log[-400:], {"log": log[-4000:]}, no_input=True)
    ck.finish({"evaluations": 1, "distinct_nontrivial": 0, "rule": "n/a", "samples": [what],
               "explanation": "the check could not run: " + what})

if ck.replay_in:
    print(open(ck.replay_in).read())
    sys.exit(0)

ok, out = ck.forbidden_vernac()
if not ok:
    broken.append(("forbidden-vernacular", out))

# ------------------------------------------------------------------ 1. translator + theorems
# (runs in a thread, overlapped with the Go builds and the corpus runs below; joined before the tables are evaluated)
def coq_part():
    res = {"broken": [], "model_ok": True, "props_ok": False}
    ok, out = ck.genmodel()
    if not ok:
        res["broken"].append(("genmodel", out[-3000:]))
    ok, out = ck.coq_make(["Model/C03_Registry.vo", "Proofs/C03.vo", "Examples/C03.vo"])
    if not ok:
        res["broken"].append(("coq-make", out[-3000:]))
        ok2, out2 = ck.coq_make(["Model/C03_Registry.vo"])
        res["model_ok"] = ok2
    ok, out = ck.coq_props()
    res["props_ok"] = ok
    if not ok:
        res["broken"].append(("Props/C03.v", out[-3000:]))
    ck.log("theorems %s" % ("ok" if ok else "BROKEN"))
    return res
from concurrent.futures import ThreadPoolExecutor
_pool = ThreadPoolExecutor(max_workers=1)
coq_future = _pool.submit(coq_part)

# ------------------------------------------------------------------ 2. binaries from the working tree
exe, out = ck.go_build("./cmd/hc03")
if exe is None:
    stop("harness does not build against the repository", out)
sc, out = ck.build_repo_cmd("./cmd/staticcheck", "staticcheck-c03")
if sc is None:
    stop("cmd/staticcheck does not build from the working tree", out)
ck.log("binaries built")
work = ck.mkscratch()
SCENV = dict(GOENV)
SCENV["STATICCHECK_CACHE"] = os.path.join(work, "sccache")   # cold cache: every package is really analysed
SCFLAGS = ["-debug.run-quickfix-analyzers", "-checks=all", "-f", "json"]

# ------------------------------------------------------------------ 3. run-time cross-check of the generated tables
uj, dj = os.path.join(work, "universes.json"), os.path.join(work, "direct.json")
rc, out = sh([exe, "-mode", "universes", "-repo", REPO, "-out", uj], timeout=600)
if rc != 0:
    stop("harness -mode universes failed", out)
rc, out = sh([exe, "-mode", "direct", "-out", dj], timeout=300)
if rc != 0:
    stop("harness -mode direct failed", out)
univ = json.load(open(uj))
direct = json.load(open(dj))

# ------------------------------------------------------------------ 4. generated corpus, all analyzers in process
gj = os.path.join(work, "gen.json")
nrand, nmixed = (150, 40) if ck.thorough() else (14, 6)
rc, out = sh([exe, "-mode", "gen", "-work", work, "-seed", str(ck.seed), "-rand", str(nrand), "-mixed", str(nmixed), "-out", gj], timeout=3000)
if rc != 0:
    # the in-process driver itself died: a crash outside any analyzer's Run (e.g. while type-checking)
    stop("harness -mode gen failed", out)
gen = json.load(open(gj))
pkgs = gen["Packages"]
builderrs = [(p["Name"], p["BuildErr"]) for p in pkgs if p["BuildErr"]]
if builderrs:
    stop("generated program does not type-check (generator bug)", json.dumps(builderrs[:3]))
ck.log("generated %d packages, %d analyzers each in process" % (len(pkgs), len(gen["Analyzers"])))

def canon(msg):
    """panic message without addresses / positions / generated suffixes"""
    msg = re.sub(r"0x[0-9a-f]+", "0x", msg)
    msg = re.sub(r" at /\S+", "", msg)
    msg = re.sub(r"/tmp/[^ :]+", "<file>", msg)
    msg = re.sub(r"_s\d+", "", msg)
    msg = re.sub(r":\d+:\d+", "", msg)
    return msg.strip()[:160]

def src_of(p):
    try:
        return open(glob.glob(os.path.join(p["Dir"], "*.go"))[0]).read(200000)   # (the oversized package is 50 MB of padding)
    except Exception:
        return ""

inproc = {}     # key -> (pkg record, panic)
for p in pkgs:
    for q in p["Panics"] or []:
        single = len(p["Snippets"]) == 1
        name = p["Snippets"][0] if single else "mixed"
        name = re.sub(r"^rand_\d+$", "rand", name)
        key = "%s:%s:%s" % (name, q["Analyzer"], canon(q["Value"]))
        # prefer the single-snippet (minimal) package as the witness of a key
        alt = "%s:%s" % (q["Analyzer"], canon(q["Value"]))
        cur = inproc.get(alt)
        if cur is None or (len(p["Snippets"]) < len(cur[1]["Snippets"])) or (len(p["Snippets"]) == len(cur[1]["Snippets"]) and len(src_of(p)) < len(src_of(cur[1]))):
            inproc[alt] = (key, p, q)
    for e in p["Errors"] or []:
        alt = "error:" + canon(e)
        if alt not in inproc:
            inproc[alt] = ("%s:%s" % (p["Name"], alt), p, {"Analyzer": e.split(":")[0], "Value": e, "Stack": ""})

# ------------------------------------------------------------------ 5. the real binary
def run_sc(cwd, patterns, extra=None, timeout=3000):
    """returns (rc, stdout-json-lines, stderr)"""
    import subprocess
    try:
        pr = subprocess.run([sc] + SCFLAGS + (extra or []) + patterns, cwd=cwd, env=SCENV, timeout=timeout,
                            stdout=subprocess.PIPE, stderr=subprocess.PIPE, text=True)
        return pr.returncode, pr.stdout, pr.stderr
    except subprocess.TimeoutExpired as e:
        return 124, "", "[timeout after %ss]" % timeout

skipped_big = []
def judge(rc, so, se):
    """oracle on one staticcheck run: list of (kind, detail)"""
    bad = []
    if rc not in (0, 1):
        m = re.search(r"^(panic: .*|fatal error: .*)$", se, re.M)
        bad.append(("crash", (m.group(1) if m else "exit status %d" % rc) + ""))
    elif re.search(r"^(panic: |fatal error: )", se, re.M):
        bad.append(("crash", re.search(r"^(panic: .*|fatal error: .*)$", se, re.M).group(1)))
    if not bad:
        # the linter gave up (e.g. "failed loading result: ..."): a message on stderr that is not a warning
        for line in se.splitlines():
            if line.strip() and not line.startswith("warning:") and not line.startswith("go: "):
                bad.append(("abort", line.strip()[:300]))
                break
    for line in so.splitlines():
        try:
            d = json.loads(line)
        except ValueError:
            continue
        if d.get("code") in ("compile", "config"):
            bad.append((d["code"], "%s: %s" % (d.get("location", {}).get("file", ""), d.get("message", ""))))
    for m in re.finditer(r"^warning: (skipped package (\S+) because it is too large)", se, re.M):
        # corpora packages are small: not analysing one is a spurious failure of the run; the one deliberately
        # oversized package (a source file of loader.MaxFileSize bytes) is expected to be skipped
        if m.group(2).endswith("/bigfile/big"):
            skipped_big.append(m.group(2))
            continue
        bad.append(("skipped", m.group(1)))
    if not bad and re.search(r"internal error", se):
        bad.append(("internal-error", se.strip().splitlines()[0][:300]))
    return bad

def ndiag(so):
    return sum(1 for l in so.splitlines() if l.startswith("{"))

real_runs = []      # (corpus, packages, rc, bad)
mod = gen["Module"]
rc, so, se = run_sc(mod, ["./..."])
bad = judge(rc, so, se)
real_runs.append({"corpus": "generated", "packages": len(pkgs), "rc": rc, "bad": len(bad), "diagnostics": ndiag(so)})
ck.log("real binary over generated module: rc=%d bad=%d" % (rc, len(bad)))
real_viol = {}      # key -> dict
if bad:
    # attribute: run every package on its own (a crash kills the whole process, so the first run shows one crash only)
    # packages the in-process driver flagged first, then single-snippet packages, then the rest
    flagged = {p["Name"] for p in pkgs if p["Panics"] or p["Errors"]}
    order = sorted(pkgs, key=lambda p: (p["Name"] not in flagged, not p.get("BinaryOnly"), len(p["Snippets"]), len(src_of(p))))
    want = {"%s:%s" % (k, canon(d)) for k, d in bad}
    for p in order:
        if p["Name"] not in flagged and not p.get("BinaryOnly") and not (want - set(real_viol)):
            break       # every failure of the whole-module run has a single-package witness
        rc1, so1, se1 = run_sc(mod, ["./" + p["Name"]])
        for kind, detail in judge(rc1, so1, se1):
            single = len(p["Snippets"]) == 1
            name = re.sub(r"^rand_\d+$", "rand", p["Snippets"][0]) if single else "mixed"
            alt = "%s:%s" % (kind, canon(detail))
            cur = real_viol.get(alt)
            if cur is None or len(p["Snippets"]) < len(cur["pkg"]["Snippets"]) or (len(p["Snippets"]) == len(cur["pkg"]["Snippets"]) and len(src_of(p)) < len(src_of(cur["pkg"]))):
                real_viol[alt] = {"key": "%s:%s:%s" % (name, kind, canon(detail)), "pkg": p, "kind": kind, "detail": detail, "stderr": se1[:3000]}
    if not real_viol:
        real_viol["whole"] = {"key": "generated-module:" + canon(bad[0][1]), "pkg": None, "kind": bad[0][0], "detail": bad[0][1], "stderr": se[:3000]}

# in-process findings the real binary did not show on its own run are replayed against it, one package each
confirmed = {}
for alt, (key, p, q) in inproc.items():
    rc1, so1, se1 = run_sc(mod, ["./" + p["Name"]])
    b1 = judge(rc1, so1, se1)
    confirmed[alt] = (key, p, q, b1, se1)

def already(kind, detail):
    """the same failure (kind + canonical message) has been reported with a (smaller) witness before"""
    c = canon(detail)
    return any(v["key"].endswith(":%s:%s" % (kind, c)) or v["key"].endswith(":" + c) for v in ck.violations)

real_keys = set()
for alt, (key, p, q, b1, se1) in confirmed.items():
    if b1:
        k2 = "%s:%s:%s" % (key.split(":")[0], b1[0][0], canon(b1[0][1]))
        if k2 not in real_keys:
            real_keys.add(k2)
            ck.violation(k2, "staticcheck (all analyzers) %s on a buildable generated program: %s (in-process: analyzer %s)" % ("crashes" if b1[0][0] == "crash" else "fails (%s)" % b1[0][0], b1[0][1][:200], q["Analyzer"]),
                         {"package": p["Name"], "snippets": p["Snippets"], "source": src_of(p), "stderr": se1[:3000], "in_process": q})
    else:
        # the in-process driver saw a panic the binary does not show: the binary recovers nothing, so this is a
        # disagreement between the two drivers (e.g. an analyzer the CLI does not register)
        ck.violation(key, "analyzer %s panics on a buildable generated program when run in process: %s (the CLI run of the same package was clean)" % (q["Analyzer"], q["Value"][:200]),
                     {"package": p["Name"], "snippets": p["Snippets"], "source": src_of(p), "in_process": q})

for alt, v in real_viol.items():
    p = v["pkg"]
    if already(v["kind"], v["detail"]):
        continue
    what = "staticcheck (all analyzers) %s on a buildable generated program: %s" % (
        "crashes" if v["kind"] == "crash" else "fails (%s)" % v["kind"], v["detail"][:200])
    ck.violation(v["key"], what, {"package": p and p["Name"], "snippets": p and p["Snippets"], "source": p and src_of(p),
                                  "stderr": v["stderr"], "rerun": "cd <module with this file>; staticcheck -debug.run-quickfix-analyzers -checks=all ./..."})

# ------------------------------------------------------------------ 6. repository / testdata / std corpora
def repo_patterns():
    if ck.thorough():
        return ["./..."]
    return ["./internal/sync", "./sarif", "./printf", "./structlayout", "./internal/diff/myers", "./analysis/dfa/...",
            "./go/ast/astutil", "./lintcmd/version"]

def buildable(cwd, patterns):
    rc, out = sh(["go", "build"] + patterns, cwd=cwd, timeout=3000)
    failing = set(re.findall(r"^# (\S+)", out, re.M))
    return rc, failing, out

pats = repo_patterns()
rc, so, se = run_sc(REPO, pats)
bad = judge(rc, so, se)
real_runs.append({"corpus": "repository " + " ".join(pats), "rc": rc, "bad": len(bad), "diagnostics": ndiag(so)})
ck.log("real binary over repository packages: rc=%d bad=%d" % (rc, len(bad)))
for kind, detail in bad[:5]:
    if already(kind, detail):
        continue
    # confirm that the toolchain accepts what staticcheck rejects
    rcb, failing, outb = buildable(REPO, pats)
    if kind in ("compile", "config") and rcb != 0:
        notes.append("repository packages do not build (%s); compile problem not counted" % sorted(failing)[:3])
        continue
    ck.violation("repo:%s:%s" % (kind, canon(detail)), "staticcheck (all analyzers) on repository packages %s: %s %s" % (pats, kind, detail[:300]),
                 {"patterns": pats, "stderr": se[:3000], "rerun": "cd /repo; staticcheck -debug.run-quickfix-analyzers -checks=all " + " ".join(pats)})

# testdata packages copied into a scratch module; only those the toolchain builds are kept
td = os.path.join(work, "td")
os.makedirs(td)
open(os.path.join(td, "go.mod"), "w").write("module example.com/c03td\n\ngo 1.26\n")
cands = []
for d in sorted(glob.glob(os.path.join(REPO, "*", "*", "testdata", "*", "*")) + glob.glob(os.path.join(REPO, "unused", "testdata", "*", "*"))):
    if os.path.isdir(d) and glob.glob(os.path.join(d, "*.go")):
        cands.append(d)
import random
prng = random.Random(ck.seed)      # sampling of the testdata corpus only; the programs themselves come from hx.NewRand(seed)
if not ck.thorough():
    prng.shuffle(cands)
    cands = cands[:24]
names = {}
for d in cands:
    rel = os.path.relpath(d, REPO).split(os.sep)
    name = re.sub(r"[^A-Za-z0-9_]", "_", "_".join([rel[1], rel[-2], rel[-1]]) if rel[0] != "unused" else "_".join(["unused", rel[-2], rel[-1]]))
    dst = os.path.join(td, name)
    if os.path.exists(dst):
        continue
    os.makedirs(dst)
    for f in glob.glob(os.path.join(d, "*.go")):
        if not f.endswith("_test.go"):
            shutil.copy(f, dst)
    if not glob.glob(os.path.join(dst, "*.go")):
        shutil.rmtree(dst)
        continue
    names[name] = os.path.relpath(d, REPO)
dropped = 0
for _pass in range(10):
    # go build stops early when a package cannot even be set up (missing imports), so repeat until it is clean
    rcb, failing, outb = buildable(td, ["./..."]) if names else (0, set(), "")
    if rcb == 0:
        break
    before = len(names)
    for name in list(names):
        if ("example.com/c03td/" + name) in failing or re.search(r"(^|[\s:/])%s[/\\:]" % re.escape(name), outb):
            shutil.rmtree(os.path.join(td, name), ignore_errors=True)
            del names[name]
            dropped += 1
    if len(names) == before:
        # cannot tell which package is at fault: keep only packages that build on their own
        for name in list(names):
            rc1, _ = sh(["go", "build", "./" + name], cwd=td, timeout=600)
            if rc1 != 0:
                shutil.rmtree(os.path.join(td, name), ignore_errors=True)
                del names[name]
                dropped += 1
        break
if names:
    rc, so, se = run_sc(td, ["./..."], extra=["-tests=false"])
    bad = judge(rc, so, se)
    real_runs.append({"corpus": "testdata packages that go build accepts", "packages": len(names), "dropped_not_buildable": dropped,
                      "rc": rc, "bad": len(bad), "diagnostics": ndiag(so)})
    ck.log("real binary over %d testdata packages (%d not buildable dropped): rc=%d bad=%d" % (len(names), dropped, rc, len(bad)))
    bad = [b for b in bad if not already(*b)]
    if bad:
        # attribute to single packages; a crash ends the process, so one run shows one crash: stop at the first
        # package that reproduces each message (at most 12 single-package runs)
        want = {canon(d) for _, d in bad}
        seen = set()
        for name in sorted(names)[:12]:
            if not (want - seen):
                break
            rc1, so1, se1 = run_sc(td, ["./" + name], extra=["-tests=false"])
            for kind, detail in judge(rc1, so1, se1):
                if canon(detail) in seen or already(kind, detail):
                    continue
                seen.add(canon(detail))
                if kind in ("compile", "config") and sh(["go", "build", "./" + name], cwd=td, timeout=600)[0] != 0:
                    notes.append("testdata package %s does not build; its compile problem is not counted" % names[name])
                    continue
                ck.violation("testdata:%s:%s:%s" % (names[name], kind, canon(detail)),
                             "staticcheck (all analyzers) on buildable testdata package %s: %s %s" % (names[name], kind, detail[:300]),
                             {"package": names[name], "stderr": se1[:3000]})
        for kind, detail in bad:
            if canon(detail) not in seen and not already(kind, detail):
                m = re.search(r"example\.com/c03td/(\S+)", detail)
                if kind in ("compile", "config") and m and sh(["go", "build", "./" + m.group(1)], cwd=td, timeout=600)[0] != 0:
                    notes.append("testdata package %s does not build; its compile problem is not counted" % m.group(1))
                    continue
                ck.violation("testdata:%s:%s" % (kind, canon(detail)), "staticcheck (all analyzers) over the testdata module: %s %s" % (kind, detail[:300]), {"stderr": se[:3000]})

# a package of 400 small files (+ importer) under a low descriptor limit: go build accepts it under the same limit,
# and HEAD lints it with `ulimit -n 24` (measured); 128 leaves room and is far below the number of files
FDLIMIT = 128
import subprocess, shlex
env2 = dict(SCENV); env2["STATICCHECK_CACHE"] = os.path.join(work, "sccache-fd")     # cold: the package is really loaded
try:
    pr = subprocess.run(["sh", "-c", "ulimit -n %d; exec %s" % (FDLIMIT, " ".join(shlex.quote(x) for x in [sc] + SCFLAGS + ["./manyfiles/..."]))],
                        cwd=mod, env=env2, timeout=1200, stdout=subprocess.PIPE, stderr=subprocess.PIPE, text=True)
    rc, so, se = pr.returncode, pr.stdout, pr.stderr
except subprocess.TimeoutExpired:
    rc, so, se = 124, "", "[timeout]"
bad = judge(rc, so, se)
real_runs.append({"corpus": "generated manyfiles/... (400 files + importer) under ulimit -n %d, cold cache" % FDLIMIT, "packages": 2, "rc": rc, "bad": len(bad), "diagnostics": ndiag(so)})
ck.log("real binary over manyfiles/... under ulimit -n %d: rc=%d bad=%d" % (FDLIMIT, rc, len(bad)))
for kind, detail in bad[:3]:
    if already(kind, detail):
        continue
    rcb, _ = sh(["sh", "-c", "ulimit -n %d; exec go build ./manyfiles/..." % FDLIMIT], cwd=mod, timeout=1200)
    if rcb != 0:
        notes.append("go build itself fails under ulimit -n %d; low-descriptor finding not counted" % FDLIMIT)
        break
    ck.violation("low-fd-limit:%s:%s" % (kind, canon(re.sub(r"f\d+\.go", "fNNN.go", detail))),
                 "staticcheck (all analyzers) under `ulimit -n %d` on a package of 400 small files that go build accepts under the same limit: %s %s" % (FDLIMIT, kind, detail[:300]),
                 {"limit": FDLIMIT, "stderr": se[:3000], "rerun": "cd <generated module>; sh -c 'ulimit -n %d; exec staticcheck -checks=all ./manyfiles/...'" % FDLIMIT})

# warm cache with damaged output files: the first runs populated STATICCHECK_CACHE; delete / truncate a seeded
# sample of the cache's output (-d) files (their index entries survive) and lint the unchanged generated module again.
# A damaged cache entry must behave like a miss: same oracle.
dfiles = sorted(f for f in glob.glob(os.path.join(SCENV["STATICCHECK_CACHE"], "**", "*-d"), recursive=True) if os.path.isfile(f))
prng2 = random.Random(ck.seed * 7919 + 1)
prng2.shuffle(dfiles)
ndel = ntrunc = 0
for i, f in enumerate(dfiles[:(400 if ck.thorough() else 60)]):
    try:
        if i % 2 == 0 or os.path.getsize(f) == 0:
            os.remove(f); ndel += 1
        else:
            os.truncate(f, os.path.getsize(f) // 2); ntrunc += 1
    except OSError:
        pass
rc, so, se = run_sc(mod, ["./..."])
bad = judge(rc, so, se)
real_runs.append({"corpus": "generated, warm cache with %d of %d output files deleted and %d truncated" % (ndel, len(dfiles), ntrunc),
                  "packages": len(pkgs), "rc": rc, "bad": len(bad), "diagnostics": ndiag(so)})
ck.log("real binary over generated module, damaged warm cache (%d deleted, %d truncated of %d): rc=%d bad=%d" % (ndel, ntrunc, len(dfiles), rc, len(bad)))
for kind, detail in bad[:4]:
    if already(kind, detail):
        continue
    ck.violation("warm-cache-damaged:%s:%s" % (kind, canon(re.sub(r"\S*[0-9a-f]{40,}\S*", "<cache file>", detail))),
                 "staticcheck (all analyzers) over the unchanged generated module with a warm cache whose output files were partly deleted/truncated: %s %s" % (kind, detail[:300]),
                 {"deleted": ndel, "truncated": ntrunc, "seed": ck.seed, "stderr": se[:3000],
                  "rerun": "lint a module twice with the same STATICCHECK_CACHE, removing or truncating *-d files of the cache between the runs"})

if ck.thorough():
    rc, so, se = run_sc(REPO, ["std"], timeout=7200)
    bad = judge(rc, so, se)
    real_runs.append({"corpus": "std", "rc": rc, "bad": len(bad), "diagnostics": ndiag(so)})
    ck.log("real binary over std: rc=%d bad=%d" % (rc, len(bad)))
    for kind, detail in bad[:5]:
        if already(kind, detail):
            continue
        ck.violation("std:%s:%s" % (kind, canon(detail)), "staticcheck (all analyzers) over std: %s %s" % (kind, detail[:300]), {"stderr": se[:3000]})
    rcb, failing, outb = buildable(mod, ["./..."])
    if rcb != 0:
        notes.append("go build rejects generated packages accepted by go/types: %s" % sorted(failing)[:5])

# ------------------------------------------------------------------ 7. Coq: registry report + ties, evaluated by vm_compute
def agg(key):
    r = {}
    for p in pkgs:
        for k, v in (p[key] or {}).items():
            r[k] = r.get(k, 0) + (int(v) if not isinstance(v, bool) else (1 if v else 0))
    return r
instr_all, instr_nil, ast_all, cmpzero = agg("Instr"), agg("InstrNil"), agg("Ast"), agg("CmpZero")
builtins_seen = {}
for p in pkgs:
    for k, v in (p["Builtins"] or {}).items():
        builtins_seen[k] = builtins_seen.get(k, False) or v

def panicked(p, analyzer, pat):
    return any(q["Analyzer"] == analyzer and re.search(pat, q["Value"]) for q in (p["Panics"] or []))

# observations (switch id, member, handled): member was exercised in some package in which the owning analyzer did
# not hit the switch's panic; or a panic message names the member
obs = []
NIL = "analysis/facts/nilness/nilness.go:impl:"
UNU = "unused/unused.go:graph."
def observe(sw, analyzer, key, panic_pat, member_of_msg):
    seen_ok, seen_bad = set(), set()
    for p in pkgs:
        bad_here = set()
        for q in (p["Panics"] or []):
            if q["Analyzer"] == analyzer:
                m = re.search(panic_pat, q["Value"])
                if m:
                    bad_here.add(member_of_msg(m))
        seen_bad |= bad_here
        if not bad_here and not any(q["Analyzer"] == analyzer for q in (p["Panics"] or [])):
            for k, v in (p[key] or {}).items():
                if v:
                    seen_ok.add(k)
    for m in sorted(seen_bad):
        obs.append((sw, m, False))
    for m in sorted(seen_ok - seen_bad):
        obs.append((sw, m, True))
TOK = {"<": "token.LSS", "<=": "token.LEQ", ">": "token.GTR", ">=": "token.GEQ", "==": "token.EQL", "!=": "token.NEQ"}
observe(NIL + "instr.(type)", "nilness", "InstrNil", r"unhandled type (\S+)", lambda m: m.group(1))
observe(NIL + "callee.Name()", "nilness", "Builtins", r"unhandled builtin (\S+)", lambda m: m.group(1))
observe(NIL + "op#1", "nilness", "CmpZero", r"unhandled token (\S+)", lambda m: TOK.get(m.group(1), m.group(1)))
for sw, uni in ((UNU + "read:node.(type)", "Expr"), (UNU + "stmt:stmt.(type)", "Stmt"), (UNU + "decl:decl.(type)", "Decl")):
    observe(sw, "U1000", "Ast", r"unhandled case (\S+)", lambda m: m.group(1))
for d in direct:
    if d["Func"] != "sample":
        obs.append((d["Func"], d["Member"], d["Handled"]))
    else:
        notes.append("direct: no instance for %s" % d["Member"])
# only members of the switch's universe are compared (the Ast / Builtins maps contain other kinds as well); Coq filters

def cl(xs):
    return coq_list([coq_str(x) for x in xs])
obs_v = coq_list(["(%s, %s, %s)" % (coq_str(a), coq_str(b), coq_bool(c)) for a, b, c in obs])
univ_v = coq_list(["(%s, %s)" % (coq_str(k), cl(v)) for k, v in sorted(univ["Universes"].items())])
text = """From Coq Require Import List String Bool. Import ListNotations. Open Scope string_scope.
Require Import Verif.Model.C03_Types Verif.Gen.C03_Switches Verif.Model.C03 Verif.Model.C03_Registry.
(* universes computed by the type checker from the compiled packages *)
Definition tc_universes : list (string * list string) := %s.
Definition tc_builtins : list string := %s.
(* (switch, member, handled) as observed on the implementation *)
Definition observations : list (string * string * bool) := %s.

Definition subset (a b : list string) := forallb (fun x => mem x b) a.
Definition diff (a b : list string) := filter (fun x => negb (mem x b)) a.
(* tie 1: genmodel's universes = the type checker's *)
Definition universe_mismatches :=
  flat_map (fun kv => let g := members gen_universes (fst kv) in
     match diff g (snd kv), diff (snd kv) g with [], [] => [] | a, b => [(fst kv, a, b)] end) tc_universes.
(* tie 2: genmodel's builtin names (minus go/types' test-only ones and go/ir's synthetic ones) = the Universe/Unsafe scopes *)
Definition gen_builtin_names := map builtin_name (filter (fun b => negb (String.eqb (snd b) "synthetic")) gen_builtins).
Definition builtin_mismatches :=
  (diff (filter (fun n => match class_of n with Some BTestOnly => false | _ => true end) gen_builtin_names) tc_builtins,
   diff tc_builtins gen_builtin_names).
(* tie 3: model dispatch vs observed behaviour, for members of the switch's universe that are not excluded *)
Definition model_handled (id m : string) : option bool :=
  match find_switch id with
  | Some sw => Some (match dispatch gen_universes (sw_cases sw) m with Default => false | Clause _ => true end)
  | None => None end.
Definition in_scope (id m : string) : bool :=
  existsb (fun r => String.eqb (r_id r) id &&
     match universe_of r with Some u => mem m u && negb (mem m (excluded r)) | None => false end) registry.
Definition dispatch_mismatches :=
  filter (fun o => match o with (id, m, h) =>
     in_scope id m && match model_handled id m with Some b => negb (Bool.eqb b h) | None => true end end) observations.
Definition compared := List.length (filter (fun o => match o with (id, m, _) => in_scope id m end) observations).
(* classification of builtins vs what the built IR showed: a builtin call with a pointer-like result must be in the universe *)
Definition R := Eval vm_compute in registry_report.
Definition U := Eval vm_compute in unaccounted.
Definition UM := Eval vm_compute in universe_mismatches.
Definition BM := Eval vm_compute in builtin_mismatches.
Definition DM := Eval vm_compute in dispatch_mismatches.
Definition NC := Eval vm_compute in compared.
Definition BU := Eval vm_compute in builtin_universe.
Definition NR := Eval vm_compute in (List.length registry, List.length explored_only, List.length gen_switches).
Print R. Print U. Print UM. Print BM. Print DM. Print NC. Print BU. Print NR.
""" % (univ_v, cl(univ["Builtins"]), obs_v)
vals = {}
cres = coq_future.result()
broken = cres["broken"] + broken
model_ok, props_ok = cres["model_ok"], cres["props_ok"]
if model_ok:
    rc, out = ck.coq_cases("tables", text)
    for n in ("R", "U", "UM", "BM", "DM", "NC", "BU", "NR"):
        vals[n] = ck.printed_value(out, n)
    if rc != 0 or any(v is None for v in vals.values()):
        broken.append(("cases/C03/tables.v", out[-3000:]))
else:
    ck.violation("coq-model-broken", "Coq model of C03 does not compile", {"log": broken[-1][1]}, no_input=True)

def parse_report(val):
    """[("id", Some ["a"; "b"]); ("id2", None)] -> list of (id, None | [..])"""
    res = []
    for m in re.finditer(r'\("((?:[^"]|"")*)",\s*(None|Some\s*\[([^\]]*)\])\)', val or ""):
        wit = None if m.group(2) == "None" else re.findall(r'"((?:[^"]|"")*)"', m.group(3))
        res.append((m.group(1).replace('""', '"'), wit))
    return res

report = parse_report(vals.get("R"))
builtin_universe = re.findall(r'"([^"]*)"', vals.get("BU") or "")
# builtin calls whose result was pointer-like in the built IR must be in the proved universe (else the universe is too small)
for name, pl in sorted(builtins_seen.items()):
    if pl and name not in builtin_universe and vals.get("BU") is not None:
        broken.append(("builtin-classification", "builtin %s has a pointer-like result in built IR but is not classified BPtrLike" % name))

# directed programs for witnesses: which generated snippet exercises a member of which switch
def directed_for(sw_id, member):
    want = None
    if sw_id.endswith("callee.Name()"):
        want = "builtin:" + member
    elif ":impl:op" in sw_id:
        want = "token:" + member.replace("token.", "")
    elif "instr.(type)" in sw_id:
        want = "instr:" + member.replace("*ir.", "")
    elif "st1020" in sw_id and member == "*ast.ParenExpr":
        want = "odd:paren-receiver"
    elif "astutil/util.go:Equal" in sw_id and member == "*ast.FuncType":
        want = "odd:equal-functype"
    if want is None:
        return None
    for p in pkgs:
        if len(p["Snippets"]) == 1 and want in (p["Targets"] or []):
            return p
    return None

violated_keys = {v["key"] for v in ck.violations}
for sw_id, wit in report:
    if wit is None:
        broken.append(("switch_total", "registered switch %s (or its universe) is no longer found in the source" % sw_id))
        continue
    for m in wit:
        p = directed_for(sw_id, m)
        crashed = False
        if p is not None:
            rc1, so1, se1 = run_sc(mod, ["./" + p["Name"]])
            b1 = judge(rc1, so1, se1)
            if b1:
                crashed = True
                key = "%s:%s:%s" % (p["Snippets"][0], b1[0][0], canon(b1[0][1]))
                if key not in violated_keys:
                    violated_keys.add(key)
                    ck.violation(key, "switch_total fails for %s with witness %s and the real binary dies on the directed program: %s" % (sw_id, m, b1[0][1][:200]),
                                 {"switch": sw_id, "witness": m, "package": p["Name"], "source": src_of(p), "stderr": se1[:3000]})
        if not crashed:
            broken.append(("switch_total", "switch %s does not handle universe member %s (no crashing program found for it%s)" % (
                sw_id, m, "" if p is None else "; directed program %s ran clean" % p["Name"])))

if vals.get("U") not in (None, "[]"):
    broken.append(("c03_scan_accounted", "panicking switches that are neither registered, explored-only nor self-covering: " + vals["U"][:600]))
if vals.get("UM") not in (None, "[]"):
    broken.append(("tie:universes", "genmodel's universes differ from the type checker's: " + vals["UM"][:600]))
if vals.get("BM") not in (None, "([], [])"):
    broken.append(("tie:builtins", "genmodel's builtin names differ from go/types' scopes: " + vals["BM"][:600]))
if vals.get("DM") not in (None, "[]"):
    broken.append(("tie:dispatch", "modelled dispatch disagrees with the observed behaviour: " + vals["DM"][:800]))

if broken and not ck.violations:
    # a proof obligation / tie broke and neither the directed programs, nor the generated corpus, nor the package
    # corpora produced a crash
    ck.violation("obligation:" + broken[0][0], "proof obligation or tie no longer checks: %s: %s" % (broken[0][0], str(broken[0][1])[-600:]),
                 {"broken": [(a, str(b)[-2000:]) for a, b in broken], "registry_report": vals.get("R")}, no_input=True)
elif broken:
    notes.append("also broken: " + "; ".join("%s: %s" % (a, str(b)[-200:]) for a, b in broken[:6]))

# ------------------------------------------------------------------ 8. evidence
def gen_universe(name):
    try:
        t = open(os.path.join(COQ, "Gen", "C03_Switches.v")).read()
        m = re.search(r'\("%s", \[(.*?)\]\)' % re.escape(name), t)
        return re.findall(r'"([^"]*)"', m.group(1))
    except Exception:
        return []
U_instr = gen_universe("ir.Instruction")
kinds_cov = sorted(k for k in U_instr if k in instr_nil)
kinds_miss = sorted(k for k in U_instr if k not in instr_nil)
ast_cov = {u: (sorted(k for k in gen_universe("ast." + u) if k in ast_all), sorted(k for k in gen_universe("ast." + u) if k not in ast_all)) for u in ("Expr", "Stmt", "Decl", "Spec")}
distinct_src = {hashlib.sha1(src_of(p).encode()).hexdigest() for p in pkgs}
nr = re.findall(r"\d+", vals.get("NR") or "")
ck.notes += notes
ck.assume += [
    "go/types export data and types.Implements (used to cross-check genmodel's universes on every run)",
    "exclusion table Model/C03_Registry.v: each excluded universe member carries a justification from the Go spec / go/parser / go/types contract; only the NotConstructed ones are machine-checked",
    "the abstract dispatch model covers the choice of the clause only; what a clause does after being chosen (type assertions, index expressions, nil dereferences inside analyzers) is not modelled and only explored",
    "exploration oracle: exit status 0/1, no 'panic:'/'fatal error:' on stderr, no compile/config problem in the JSON output, no 'skipped package' warning (other than for the deliberately oversized package), nothing but warnings on stderr, for the real binary built from the working tree",
]
ck.finish({
    "explanation": "PARTIAL. Proved (Coq, re-checked every run on tables regenerated from source): for each of the %s registered panicking switches the case list covers its universe minus the justified exclusions (switch_total), with a general lemma that such coverage makes the panicking default unreachable in the dispatch model; every panicking switch found by the scan (%s) is registered, listed explored-only with a reason (%s) or self-covering. NOT proved: absence of panics other than a missed dispatch case; termination; spurious compile/config failures. Those are explored: %d analyzers x %d generated packages in process (per-analyzer recover) and the real staticcheck binary (all analyzers incl. quickfix) over the generated module, %s." % (
        nr[0] if nr else "?", nr[2] if len(nr) > 2 else "?", nr[1] if len(nr) > 1 else "?", len(gen["Analyzers"]), len(pkgs),
        "; ".join(r["corpus"].split(" ")[0] for r in real_runs[1:])),
    "evaluations": len(gen["Analyzers"]) * len(pkgs) + sum(r.get("packages", 1) for r in real_runs),
    "distinct_nontrivial": len(distinct_src),
    "rule": "evaluation = one analyzer run over one generated package (in process) or one package analysed by the real binary; distinct_nontrivial = generated packages with distinct source text (each contains at least one function with a pointer-like result, so the nilness transfer function runs); random packages come from hx.NewRand(seed)",
    "samples": [{"package": p["Name"], "snippets": p["Snippets"], "source_head": src_of(p)[:600]} for p in ([q for q in pkgs if not q.get("BinaryOnly")][:1] + [q for q in pkgs if q["Name"].startswith("rand_")][:1])],
    "programs": len(pkgs),
    "instruction_kinds_universe": len(U_instr),
    "instruction_kinds_covered_in_nilness_analysed_functions": len(kinds_cov),
    "instruction_kinds_not_covered": kinds_miss,
    "ast_kinds_covered": {u: len(c) for u, (c, m) in ast_cov.items()},
    "ast_kinds_not_covered": {u: m for u, (c, m) in ast_cov.items()},
    "builtin_calls_seen_in_ir": {k: ("pointer-like" if v else "not pointer-like") for k, v in sorted(builtins_seen.items())},
    "compare_tokens_against_nil_valued_constant": cmpzero,
    "dispatch_observations_compared_with_model": int(vals["NC"]) if (vals.get("NC") or "").isdigit() else 0,
    "disagreements_checked": len(obs),
    "real_binary_runs": real_runs,
    "oversized_package_was_skipped_and_its_importers_analysed": bool(skipped_big),
    "in_process_panics": sorted(k for k in inproc),
    "registry_report": vals.get("R"),
})
