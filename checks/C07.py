#!/usr/bin/env python3
"""C07 — U1000 is deletion-safe and catches every zero-reference object (DESIGN §6 C07)."""
import json, os, re, sys
sys.path.insert(0, os.path.dirname(os.path.abspath(__file__)))
from common import *
from u1000_common import coq_cases_noglob, forbidden_in_own_files

ck = Check("C07", level="proof")
broken = []

if ck.replay_in:
    print(open(ck.replay_in).read())
    sys.exit(0)

def bail(key, what, log):
    ck.violation(key, what, {"log": log[-3000:]}, no_input=True)
    ck.finish({"evaluations": 1, "distinct_nontrivial": 0, "rule": "n/a", "samples": [what]})

ok, out = forbidden_in_own_files(ck)
if not ok:
    broken.append(("forbidden-vernacular", out))

# 1. theorems (graph model shared with C17)
ok, out = ck.coq_make(["Model/C07.vo", "Proofs/C07.vo", "Examples/C07.vo"])
if not ok:
    broken.append(("coq-make", out[-3000:]))
    ok2, out2 = ck.coq_make(["Model/C07.vo"])
    if not ok2:
        bail("coq-model-broken", "Coq model of C07 does not compile", out2)
ok, out = ck.coq_props()
if not ok:
    broken.append(("Props/C07.v", out[-3000:]))
ck.log("theorems re-checked")

# 2. implementation
exe, out = ck.go_build("./cmd/hc07")
if exe is None:
    bail("harness-build", "harness does not build against the repository (hook H2 unused/verif_export.go missing or API changed)", out)
sc, out = ck.build_repo_cmd("./cmd/staticcheck", "staticcheck-c07")
if sc is None:
    bail("staticcheck-build", "cmd/staticcheck does not build", out)
ck.log("harness and staticcheck built")
work = ck.mkscratch()
prefix = os.path.join(work, "out")
shards = 12
args = [exe, "-work", work, "-out", prefix, "-seed", str(ck.seed), "-shards", str(shards), "-staticcheck", sc,
        "-testdata", os.path.join(REPO, "unused/testdata/src/example.com")]
if ck.thorough():
    args += ["-gen", "2000", "-maxnodes", "9000",
             "-corpus", REPO + ":./unused+./pattern+./config+./lintcmd/...+./analysis/...+./go/ir+./staticcheck/...+./simple/...+./stylecheck/..."]
else:
    args += ["-gen", "80", "-maxnodes", "1500", "-corpus", REPO + ":./unused+./config+./pattern"]
env = dict(GOENV); env["VERIF_REPO"] = REPO
rc, out = sh(args, timeout=6000, env=env)
if rc != 0 or not os.path.exists(prefix + ".json"):
    bail("harness-run", "harness run failed: " + out[-400:], out)
data = json.load(open(prefix + ".json"))
stats = data["Stats"]
if stats.get("analyzer_failed", 0) * 4 > stats.get("generated", 0) + stats.get("corpus", 0):
    broken.append(("harness", "the analyzer failed on %d packages" % stats.get("analyzer_failed", 0)))
ck.log("harness done", stats, [l for l in out.splitlines() if l.startswith("[hc07")])

HDR = """From Coq Require Import List NArith. Import ListNotations.
Require Import Verif.Model.C17_Graph Verif.Model.C17_Check Verif.Model.C07.
Open Scope N_scope.
"""
files = {}
for k in range(shards):
    files["shard%d" % k] = HDR + open("%s_%d.v" % (prefix, k)).read() + """
Definition M := Eval vm_compute in numbered caseD_mismatch cases.
Definition V := Eval vm_compute in numbered caseD_violation cases.
Print M.
Print V.
"""
have_l = os.path.exists(prefix + "_L.v")
if have_l:
    files["samename"] = """From Coq Require Import List NArith String. Import ListNotations.
Require Import Verif.Model.C17_Graph Verif.Model.C17_Merge Verif.Model.C17_Check Verif.Model.C07.
Open Scope N_scope. Open Scope string_scope.
""" + open(prefix + "_L.v").read() + """
Definition V := Eval vm_compute in numbered caseL_violation casesL.
Print V.
"""
res = coq_cases_noglob(ck, files, timeout=3000, jobs=12)
ck.log("cases evaluated")

pkgs = {(p["Shard"], p["Index"]): p for p in data["Packages"] if p["Shard"] >= 0}
def parse(val):
    return [(int(m.group(1)), [x.strip() for x in m.group(2).split(";") if x.strip()])
            for m in re.finditer(r"\((\d+)%?(?:nat)?,\s*\[([^\]]*)\]\)", val or "")]

write_only = []        # occurrences of the known class
mismatch_notes = []
for k in range(shards):
    rc, out = res["shard%d" % k]
    M, V = ck.printed_value(out, "M"), ck.printed_value(out, "V")
    if rc != 0 or M is None or V is None:
        broken.append(("cases-eval shard%d" % k, out[-2000:]))
        continue
    for ci, diags in parse(V):
        p = pkgs.get((k, ci), {"Pkg": "?"})
        for d in diags:
            m = re.match(r"(DDanglingWrite|DDangling|DNotReported) (\d+)", d)
            if not m:
                continue
            kind, n = m.group(1), int(m.group(2))
            if kind == "DDanglingWrite":
                r = (p.get("WRefs") or [])[n] if n < len(p.get("WRefs") or []) else {}
                write_only.append({"package": p["Pkg"], "assignment": r})
            elif kind == "DDangling":
                r = (p.get("Refs") or [])[n] if n < len(p.get("Refs") or []) else {}
                key = "dangling:%s:%s:%s" % (p["Pkg"], r.get("Pos"), r.get("Name"))
                ck.violation(key, "package %s: %s is reported by U1000 (or declared inside a reported object) but identifier %s at %s, inside %s which is kept, still refers to it: deleting the reported objects breaks the package"
                             % (p["Pkg"], r.get("Target"), r.get("Name"), r.get("Pos"), r.get("InDecl")),
                             {"package": p["Pkg"], "reference": r, "reported": p.get("Reported"), "sources": p.get("Sources"),
                              "rerun": "VERIF_SEED=%d ./check C07" % ck.seed})
            else:
                labels = p.get("CandLabels") or []
                desc = p["Candidates"][labels.index(n)] if n in labels else "label %d" % n
                key = "not-reported:%s:%s" % (p["Pkg"], desc)
                ck.violation(key, "package %s: %s is unexported, package-level, not exempt and no identifier in the package refers to it, but U1000 does not report it"
                             % (p["Pkg"], desc), {"package": p["Pkg"], "object": desc, "reported": p.get("Reported"), "sources": p.get("Sources"),
                                                  "rerun": "VERIF_SEED=%d ./check C07" % ck.seed})
    for ci, diags in parse(M):
        p = pkgs.get((k, ci), {"Pkg": "?"})
        for d in diags[:4]:
            note = {"package": p["Pkg"], "diag": d}
            m = re.match(r"D(Cover|Inner|SafeModel) (\d+)", d)
            if m and int(m.group(2)) < len(p.get("Refs") or []):
                note["reference"] = p["Refs"][int(m.group(2))]
            mismatch_notes.append(note)

# second half through the real linter path: packages sharing their name, file base names and lines
sn = data.get("SameName") or {}
if have_l:
    rc, out = res["samename"]
    V = ck.printed_value(out, "V")
    if rc != 0 or V is None:
        broken.append(("cases-eval samename", out[-2000:]))
    elif V != "[]":
        for m in re.finditer(r'\("([^"]*)",\s*(\d+)(?:%N)?,\s*(\d+)(?:%N)?,\s*"([^"]*)"\)', V):
            f, line, col, msg = m.group(1), m.group(2), m.group(3), m.group(4)
            key = "cli-not-reported:%s:%s:%s" % (f, line, msg)
            ck.violation(key, "staticcheck ./... over a module whose packages share names, file base names and lines does not print '%s' at %s:%s:%s although no identifier of that package refers to the object (it is reported when the package is linted alone)"
                         % (msg, f, line, col), {"missing": [f, line, col, msg], "module": sn.get("Module"), "cli": sn.get("CLI"),
                                                 "expected": sn.get("Expected"), "rerun": "VERIF_SEED=%d ./check C07" % ck.seed})
for e in (sn.get("Errors") or []):
    broken.append(("samename-run", e))

# (ii) really deleting the reported objects
for p in data["Packages"]:
    for e in (p.get("DelWriteOnly") or []):
        write_only.append({"package": p["Pkg"], "type_error_after_deletion": re.sub(r"^.*/", "", e)})
    if p.get("DelErrors"):
        e0 = re.sub(r"^\S*/", "", p["DelErrors"][0])
        key = "deletion:%s:%s" % (p["Pkg"], e0)
        ck.violation(key, "package %s no longer type-checks after deleting the %d objects U1000 reports (with what is declared inside them): %s"
                     % (p["Pkg"], p.get("Deleted", 0), "; ".join(re.sub(r"^\S*/", "", e) for e in p["DelErrors"][:3])),
                     {"package": p["Pkg"], "errors": p["DelErrors"][:10], "reported": p.get("Reported"), "sources": p.get("Sources"),
                      "rerun": "VERIF_SEED=%d ./check C07" % ck.seed})
if write_only:
    ck.violation("write-only-variable",
                 "U1000 reports variables that are only assigned to (x = v, x++; rule 9.7 'writes do not use'); deleting them leaves the assignments behind and the package no longer type-checks (%d occurrences, e.g. %s)"
                 % (len(write_only), json.dumps(write_only[0])[:300]), {"occurrences": write_only[:40]})
for h in (data.get("Harness") or []):
    broken.append(("harness", h))

real = [v for v in ck.violations if v["key"] != "write-only-variable"]
if not real:
    if mismatch_notes:
        ck.violation("model-mismatch", "model/hypothesis check fails on an exported graph although deletion safety holds on every explored package: %s"
                     % json.dumps(mismatch_notes[0])[:400], {"mismatches": mismatch_notes[:20]}, no_input=True)
    elif broken:
        ck.violation("obligation:" + broken[0][0], "proof obligation or tie no longer checks: %s: %s" % (broken[0][0], str(broken[0][1])[-300:]),
                     {"broken": broken[:10]}, no_input=True)

ck.assume += [
    "graph construction (rules 1.1-12.1) is not modelled; the theorem deletion_safe_model is relative to edges_cover_refs, rooted and inner_refs_local, which are evaluated on every exported graph against types.Info.Uses/Selections (boolean checks proved sound)",
    "Go's type checker (go/types) is the oracle for 'still type-checks'; deletion is done on the AST (functions, methods, package-level and local var/const/type specifications, struct fields)",
    "second half through lintcmd: the staticcheck binary built from the tree over a generated module with several packages of the same name; expected lines = the go/types candidates of each package",
    "second half: candidates are computed from go/types alone (unexported package-level func/type/var/stand-alone const, no Info.Uses entry, not _, init, main, not in a generated/cgo/file-ignored file, no lint:ignore on or above the declaration, no linkname/cgo_export)",
]
ck.finish({
    "evaluations": stats.get("packages", 0) + stats.get("refs", 0) + stats.get("candidates", 0) + (sn.get("Stats") or {}).get("expected", 0),
    "distinct_nontrivial": stats.get("packages_with_deletions", 0),
    "rule": "evaluations = packages deleted-and-type-checked + identifier references checked against the exported graph + zero-reference candidates checked against Unused; non-trivial = packages in which at least one reported object was really deleted before type-checking",
    "samples": [{"package": p["Pkg"], "nodes": p["Nodes"], "deleted": p.get("Deleted"), "reported": (p.get("Reported") or [])[:5]} for p in data["Packages"][:3]],
    "samename_stats": sn.get("Stats"), "stats": stats, "skipped": (data.get("Skipped") or [])[:40],
    "known_class_occurrences": len(write_only),
})
