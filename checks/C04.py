#!/usr/bin/env python3
"""C04 — cache transparency: warm-cache results equal cold-cache results (DESIGN §6 C04, design.d/C04.md)."""
import json, os, re, sys
sys.path.insert(0, os.path.dirname(os.path.abspath(__file__)))
from common import *

ck = Check("C04", level="proof")
if ck.replay_in:
    print(open(ck.replay_in).read())
    sys.exit(0)
broken = []          # proof obligations / ties that no longer check: (name, log)


def bail(key, what, log):
    ck.violation(key, what, {"log": log[-3000:]}, no_input=True)
    ck.finish({"evaluations": 1, "distinct_nontrivial": 0, "rule": "n/a", "samples": [what]})


ok, out = ck.forbidden_vernac()
if not ok:
    broken.append(("forbidden-vernacular", out))

# ---------------------------------------------------------------- 1. translator + theorems
ok, out = ck.genmodel()
if not ok:
    # the anchored functions no longer have the shape the translator transcribes: the Gen file is stale or
    # absent, so nothing below can be trusted to talk about the current code -> the histories decide
    broken.append(("genmodel (shape of subrunner.do / computeHash / NewHash / newLinter not recognised)", out[-3000:]))
ok, out = ck.coq_make(["Model/C04_Check.vo", "Proofs/C04.vo", "Examples/C04.vo"])
model_ok = True
if not ok:
    broken.append(("coq-make Proofs/Examples", out[-3000:]))
    ok2, out2 = ck.coq_make(["Model/C04_Check.vo"])
    model_ok = ok2
ok, out = ck.coq_props() if model_ok else (False, "model does not compile")
if not ok:
    # name the statement that no longer checks: the Theorem preceding the reported line of Props/C04.v
    name = "?"
    m = re.search(r'File "[^"]*Props/C04\.v", line (\d+)', out)
    if m:
        for i, ln in enumerate(open(os.path.join(COQ, "Props", "C04.v")).read().split("\n"), 1):
            t = re.match(r"\s*Theorem\s+(\w+)", ln)
            if t and i <= int(m.group(1)):
                name = t.group(1)
    broken.insert(0, ("Props/C04.v:%s" % name, out[-3000:]))

if ck.thorough() and ok and hasattr(ck, "coqchk"):
    okc, outc = ck.coqchk(["Verif.Props.C04"])
    if not okc:
        broken.append(("coqchk Verif.Props.C04", outc[-2000:]))

ck.log("translator + theorems done (broken: %s)" % [b[0] for b in broken])
# ---------------------------------------------------------------- 2. the real binary over histories
exe_sc, out = ck.build_repo_cmd("./cmd/staticcheck", "staticcheck-c04")
if exe_sc is None:
    bail("staticcheck-build", "cmd/staticcheck does not build from the working tree", out)
bins = [exe_sc]
if ck.thorough():
    # a second binary with another build ID (the salt): same code, different link
    exe2 = os.path.join(BIN, "staticcheck-c04b.%d" % os.getpid())
    if hasattr(ck, "tmpbins"):
        ck.tmpbins.append(exe2)
    rc, out = sh(["go", "build", "-tags", "verif", "-ldflags=-X main.verifSaltProbe=1", "-o", exe2, "./cmd/staticcheck"], cwd=REPO, timeout=1500)
    if rc == 0:
        bins.append(exe2)
exe, out = ck.go_build("./cmd/hc04")
if exe is None:
    bail("harness-build", "harness does not build against /repo", out)

# table-level facts from the model (independent of the proofs)
tables = {}
if model_ok:
    rc, out = ck.coq_cases("tables", """From Coq Require Import List String. Import ListNotations. Open Scope string_scope.
Require Import Verif.Model.C04_Types Verif.Gen.C04_CacheKey Verif.Model.C04 Verif.Model.C04_Check.
Definition KF := Eval vm_compute in map dim_name key_fields.
Definition MD := Eval vm_compute in map dim_name missing_dims.
Definition MA := Eval vm_compute in map dim_name (filter (fun d => negb (dmem d key_fields)) relevant_assumed).
Definition UR := Eval vm_compute in map read_name uncovered_reads.
Definition UN := Eval vm_compute in map read_name (filter (fun r => negb (known_env_finding r)) uncovered_reads).
Definition CK := Eval vm_compute in (dmem (Cfg "Checks") key_fields, dmem FlagChecks key_fields, protocol_shape_ok).
Definition X := Eval vm_compute in map dim_name (model_cex key_fields).
Print KF. Print MD. Print MA. Print UR. Print UN. Print CK. Print X.
""")
    for n in ("KF", "MD", "MA", "UR", "UN", "CK", "X"):
        v = ck.printed_value(out, n)
        tables[n] = re.findall(r'"((?:[^"]|"")*)"', v) if v is not None and n != "CK" else v
    if rc != 0 or tables.get("KF") is None:
        broken.append(("cases/tables.v", out[-2000:]))

# environment variables read through os.Getenv on the analysis path that are not keyed: flip them too
envflip = []
for r in (tables.get("UN") or []):
    m = re.search(r'os\.Getenv\(""([A-Za-z0-9_]+)""\)', r) or re.search(r'os\.Getenv\("([A-Za-z0-9_]+)"\)', r)
    if m:
        envflip.append(m.group(1))

ck.log("binaries built; running histories")
work = ck.mkscratch()
res = os.path.join(work, "out.json")
args = [exe, "-work", work, "-out", res, "-seed", str(ck.seed), "-bin", ",".join(bins)]
if ck.thorough():
    args += ["-hist", os.environ.get("VERIF_C04_HIST", "40"), "-steps", "8", "-par", "8", "-thorough"]
else:
    # VERIF_C04_HIST: debugging aid (mutation testing): number of random histories
    args += ["-hist", os.environ.get("VERIF_C04_HIST", "4"), "-steps", "6", "-par", "8"]
if envflip:
    args += ["-envflip", ",".join(sorted(set(envflip)))]
env = dict(GOENV)
env["VERIF_REPO"] = REPO
rc, out = sh(args, timeout=6000, env=env)
if rc != 0:
    bail("harness-run", "harness run failed: " + out[-500:], out)
ck.log("harness done")
data = json.load(open(res))
steps = data["Steps"]
if any(s["WarmRC"] == -1 or (s["Compared"] and s["ColdRC"] == -1) for s in steps):
    bail("harness-run", "the staticcheck binary could not be started in some step", json.dumps([s["WarmErr"] for s in steps if s["WarmRC"] == -1][:3]))
crashed = [s for s in steps if s["WarmRC"] not in (0, 1)]
probe = data.get("EnvProbe")

# ---------------------------------------------------------------- 3. cases: predicate + key correspondence in coqc
intern = {}


def iid(s):
    return intern.setdefault(s, len(intern))


def dim_term(name):
    if name.startswith("Cfg:"):
        return "Cfg " + coq_str(name[4:])
    if name.startswith("Env:"):
        return "OtherEnv " + coq_str(name[4:])
    return name


KNOWN_DIMS = {"PkgPath", "Files", "GoMod", "Tags", "GOOS", "GOARCH", "Tests", "DepTypes", "DepFacts", "FlagGo",
              "FlagChecks", "Analyzers", "Binary", "Godebug"}
step_terms, obs_terms, obs_index = [], [], []
compared = [s for s in steps if s["Compared"]]
for s in compared:
    w = iid(json.dumps([s["Warm"] or [], s["WarmRC"]]))
    c = iid(json.dumps([s["Cold"] or [], s["ColdRC"]]))
    step_terms.append("mkStep %d %d %d%%N %d%%N" % (s["Hist"], s["Index"], w, c))
for s in steps:
    for k in (s["Keys"] or []):
        dims = []
        for name, val in sorted(k["Dims"].items()):
            if name in KNOWN_DIMS or name.startswith("Cfg:") and name != "Cfg:error" or name.startswith("Env:"):
                dims.append("(%s, %d%%N)" % (dim_term(name), iid(name + "=" + val)))
        obs_terms.append("mkObs %d %s %d%%N" % (len(obs_index), coq_list(dims), iid("key=" + k["Action"])))
        obs_index.append((s["Hist"], s["Index"], k["Pkg"]))
V = U = E = HITS = None
if model_ok:
    text = """From Coq Require Import List String NArith. Import ListNotations. Open Scope string_scope.
Require Import Verif.Model.C04_Types Verif.Gen.C04_CacheKey Verif.Model.C04 Verif.Model.C04_Check.
Definition steps : list stepobs := %s.
Definition obs : list keyobs := %s.
Definition V := Eval vm_compute in violations steps.
Definition U := Eval vm_compute in key_unsound key_fields [] obs.
Definition E := Eval vm_compute in key_extra key_fields [] obs.
Definition HITS := Eval vm_compute in key_hits [] obs.
Print V. Print U. Print E. Print HITS.
""" % (coq_list(step_terms), coq_list(obs_terms))
    rc, out = ck.coq_cases("histories", text)
    V, U, E, HITS = (ck.printed_value(out, n) for n in ("V", "U", "E", "HITS"))
    if rc != 0 or V is None or U is None:
        broken.append(("cases/histories.v did not evaluate", out[-2000:]))
        V = None
if V is None:
    # the model does not run: evaluate the property predicate here so that a concrete input is still found
    vio = [(s["Hist"], s["Index"]) for s in compared if (s["Warm"] or []) != (s["Cold"] or []) or s["WarmRC"] != s["ColdRC"]]
else:
    vio = [(int(a), int(b)) for a, b in re.findall(r"\((\d+), (\d+)\)", V)]

ck.log("cases evaluated: %d steps compared, %d warm!=cold" % (len(compared), len(vio)))
bystep = {(s["Hist"], s["Index"]): s for s in steps}


def history_of(h, upto):
    return [{"step": s["Index"], "edit": s["Edit"], "argv": s["Argv"],
             "env": {"GOOS": s["State"]["GOOS"], "GODEBUG+": s["State"]["Godebug"]}}
            for s in steps if s["Hist"] == h and s["Index"] <= upto]


for (h, i) in vio[:20]:
    s = bystep[(h, i)]
    warm, cold = s["Warm"] or [], s["Cold"] or []
    only_w = [l for l in warm if l not in cold]
    only_c = [l for l in cold if l not in warm]
    key = "stale:" + (s["Kind"] if s["Kind"].startswith("directed:") else "random:seed%d:h%d:s%d" % (ck.seed, h, i))
    what = ("warm-cache run differs from cold-cache run after history %s (last edit: %s): %d problem(s) only with the reused cache, %d only with the empty cache"
            % (s["Kind"], s["Edit"], len(only_w), len(only_c)))
    ck.violation(key, what, {"history": history_of(h, i), "files_at_failing_step": s.get("Files"),
                             "only_warm": only_w[:10], "only_cold": only_c[:10], "warm_rc": s["WarmRC"], "cold_rc": s["ColdRC"],
                             "rerun": "VERIF_SEED=%d ./check C04 --tier %s" % (ck.seed, ck.tier)})

# recorded finding: SA9007 embeds os.User*Dir()/os.TempDir() of the analysing process in a cached message
if probe and probe.get("Differs"):
    ck.violation("env-read:staticcheck/sa9007",
                 "SA9007's related message carries a directory of the ANALYSING process; after changing %s the reused cache still shows the old one" % probe["Var"],
                 {"var": probe["Var"], "first_run": probe["First"], "warm": probe["Warm"], "cold": probe["Cold"],
                  "uncovered_reads": tables.get("UR")})

if U is not None and U != "[]" and not vio:
    pairs = re.findall(r"\((\d+), (\d+), \[([^\]]*)\]\)", U)
    desc = [{"a": obs_index[int(a)], "b": obs_index[int(b)], "dims": d} for a, b, d in pairs[:5]]
    ck.violation("key-correspondence", "two runs wrote the SAME real action hash although the model's key projection differs (a dimension the model counts as keyed is not): %s" % desc[:2],
                 {"pairs": desc}, no_input=True)

if broken and not [v for v in ck.violations if not v["no_input"] and not v["key"].startswith("env-read:")]:
    ck.violation("obligation:" + broken[0][0].split(" ")[0],
                 "proof obligation or tie no longer checks: %s; relevant dimensions missing from the key: %s; unkeyed environment reads: %s; model-level stale dimensions: %s; every directed history (one per dimension) and %d random steps agreed warm=cold"
                 % (broken[0][0], tables.get("MA"), tables.get("UN"), tables.get("X"), len(compared)),
                 {"broken": broken, "tables": tables}, no_input=True)

# ---------------------------------------------------------------- evidence
kinds = sorted({s["Kind"] for s in steps})
changed = 0        # steps whose output differs from the previous step of the same history (a stale cache would show)
prev = {}
for s in steps:
    p = prev.get(s["Hist"])
    if p is not None and (p["Warm"] or []) != (s["Warm"] or []):
        changed += 1
    prev[s["Hist"]] = s
ck.assume += [
    "analyse_relevant: loading, type-checking and all analyzers on one package are a function of the dimensions in relevant_assumed (HYPOTHESIS of every theorem; explored by the warm-vs-cold histories on the real binary, never proved)",
    "H injective: no SHA-256 collision among the keys that occur (hypothesis)",
    "cmd/go build IDs: the action-ID half of an export file's build ID covers compiled files, go directive, tags/GOOS/GOARCH/test variant; the full ID of an import covers its export data (interpretation of the `files`/`import` components; exercised by the key correspondence)",
    "facts of a package do not depend on whether it is analysed as initial package or as dependency (abstraction of factsOnly mode)",
    "known finding env-read:staticcheck/sa9007 is excluded from relevant_assumed",
]
ck.notes += ["steps where staticcheck exited with a status other than 0/1 (same in warm and cold unless listed as violation): %d" % len(crashed),
             "key fields: %s" % tables.get("KF"), "relevant dims missing from key (incl. recorded finding): %s" % tables.get("MD"),
             "model-level stale dims: %s" % tables.get("X"),
             "key correspondence: %d observations, %s repeated real keys, unsound pairs %s, untracked-input pairs (informational) %s"
             % (len(obs_terms), HITS, U, (E or "")[:200])]
ck.finish({
    "evaluations": len(steps) + len(compared) + (3 if probe else 0),
    "distinct_nontrivial": changed,
    "rule": "evaluation = one run of the real staticcheck binary (-f json) on the generated module; every step after the first of a history is run twice (persistent STATICCHECK_CACHE vs fresh directory) and compared; non-trivial = step whose output differs from the previous step of its history (so a stale cache would be visible); %d histories (%d directed, one per input dimension incl. transitive fact flips; %d random over the edit alphabet)"
            % (data["Histories"], len([k for k in kinds if k.startswith("directed")]), data["Histories"] - len([k for k in kinds if k.startswith("directed")])),
    "samples": [{"history": s["Kind"], "edit": s["Edit"], "argv": s["Argv"], "problems": len(s["Warm"] or [])} for s in compared[::max(1, len(compared) // 3)]][:3],
    "histories": data["Histories"], "steps_compared": len(compared), "key_observations": len(obs_terms),
    "directed_dimensions": [k[9:] for k in kinds if k.startswith("directed:")],
    "traces_validated_against_impl": len(compared),
})
