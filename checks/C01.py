#!/usr/bin/env python3
"""C01 — IR preserves program semantics (lifted and naive form)   (DESIGN §6 C01, partial).

Theorems (Props/C01.v) are about the executable IR semantics Model/C01_IRSem.v.  The tie is differential:
corpus + seeded generated Go programs are (a) compiled with `go build` and run (ground truth) and
(b) built by go/ir in {lifted, naive} x {debug off, on}, serialised to Gallina and executed by the model
interpreter inside coqc (vm_compute) on the same inputs.  Any disagreement between (a) and an IR form
is a C01 violation with program + function + input + mode as replay."""
import json, os, re, sys
sys.path.insert(0, os.path.dirname(os.path.abspath(__file__)))
from common import *

ck = Check("C01", level="other")
broken = []

def bail(key, what, log):
    ck.violation(key, what, {"log": log[-3000:]}, no_input=True)
    ck.finish({"evaluations": 1, "distinct_nontrivial": 0, "rule": "n/a", "samples": [what]})

if ck.replay_in:
    print(open(ck.replay_in).read())
    sys.exit(0)

ok, out = ck.forbidden_vernac()
if not ok:
    broken.append(("forbidden-vernacular", out))

# 1. model + theorems
ok, out = ck.coq_make(["Model/C01_IRSem.vo", "Model/C01_Syntax.vo", "Model/C01_Check.vo", "Model/C01_SSA.vo"])
if not ok:
    bail("coq-model-broken", "Coq model of C01 does not compile", out)
ok, out = ck.coq_make(["Proofs/C01.vo", "Proofs/C01_SSA.vo", "Examples/C01.vo"], timeout=2400)
if not ok:
    broken.append(("coq-make", out[-3000:]))
else:
    ok, out = ck.coq_props()
    if not ok:
        broken.append(("Props/C01.v", out[-3000:]))

ck.log("theorems checked (%d obligations)" % ck.obligations)
# 2. harness: ground truth + serialised IR
exe, out = ck.go_build("./cmd/hc01")
ck.log("harness built")
if exe is None:
    bail("harness-build", "harness does not build against /repo", out)
work = ck.mkscratch()
res = os.path.join(work, "out.json")
nprog, ncases, perfile = (400, 8, 4) if ck.thorough() else (24, 6, 3)
env = dict(GOENV)
env["VERIF_REPO"] = REPO
rc, out = sh([exe, "-work", work, "-out", res, "-seed", str(ck.seed), "-n", str(nprog), "-cases", str(ncases),
              "-corpus", os.path.join(VERIF, "corpus", "C01")], timeout=6000, env=env)
if rc != 0:
    bail("harness-run", "harness run failed: " + out[-500:], out)
progs = json.load(open(res))
ck.log("harness done: %d programs" % len(progs))

FORMS = ["L", "N", "LD", "ND"]
FORMNAME = {"L": "lifted", "N": "naive (NaiveForm)", "LD": "lifted + GlobalDebug", "ND": "naive + GlobalDebug"}
status = {}
for p in progs:
    status[p["Status"]] = status.get(p["Status"], 0) + 1
okprogs = [p for p in progs if p["Status"] == "ok"]
for p in progs:
    if p["Status"] == "ir-build-panicked":
        # go/ir crashed on a type-correct program: the IR cannot preserve anything
        ck.violation("ir-build-panic:%s:%d" % (p["Origin"], p["Seed"]), "go/ir panicked while building a type-correct program: " + p["Detail"][:300],
                     {"program": p["Name"], "seed": p["Seed"], "source": p["Src"], "detail": p["Detail"]})
    elif p["Status"] in ("typecheck-failed", "compile-failed") and p["Origin"] == "corpus":
        broken.append(("corpus program %s: %s" % (p["Name"], p["Status"]), p["Detail"][-1500:]))

HEADER = ("From Coq Require Import List ZArith NArith PArith Bool.\nImport ListNotations.\n"
          "Require Import Verif.Model.C01_IRSem Verif.Model.C01_Syntax Verif.Model.C01_Check Verif.Model.C01_SSA.\n"
          "Open Scope Z_scope.\nDefinition fuel : nat := N.to_nat 2000000.\n\n")   # = FUEL below
files = {}
batch = []
for i, p in enumerate(okprogs):
    batch.append(p)
    if len(batch) == perfile or i == len(okprogs) - 1:
        files["b%03d" % len(files)] = (HEADER + "\n".join(q["VText"] for q in batch), batch)
        batch = []
results = ck.coq_cases_parallel({n: t for n, (t, _) in files.items()}, timeout=3000, jobs=12)
ck.log("cases evaluated: %d files" % len(files))

def balanced(s, i):
    """text of the parenthesised/braced term starting at s[i]"""
    depth = 0
    for j in range(i, len(s)):
        if s[j] in "([{":
            depth += 1
        elif s[j] in ")]}":
            depth -= 1
            if depth == 0:
                return s[i:j + 1]
    return s[i:]

FUEL = 2000000
prog_max_steps = {}
evaluations = 0
max_steps = 0
fuel_cases = []
okcount = 0
discards = {"fuel": 0, "unsupported": 0}
unsupp_codes = {}
mismatches = []
stuck = []
ssa_funcs_bad = 0
forms_distinct = 0
forms_same = 0
executed_progs = 0
for name, (text, batch) in files.items():
    rc, out = results[name]
    if rc != 0:
        broken.append(("cases file %s did not evaluate" % name, out[-2000:]))
        continue
    for p in batch:
        executed_progs += 1
        for fm in FORMS:
            if fm in p["SameAs"]:
                forms_same += 1
                evaluations += p["NCases"]       # identical IR text: behaviour identical by determinism of the model
                continue
            forms_distinct += 1
            val = ck.printed_value(out, "%s_R_%s" % (p["Name"], fm))
            sval = ck.printed_value(out, "%s_S_%s" % (p["Name"], fm))
            if val is None or sval is None:
                broken.append(("result of %s/%s missing" % (p["Name"], fm), out[-1500:]))
                continue
            if sval != "[]":
                ssa_funcs_bad += len(re.findall(r"\d+%N|\d+", sval))
            if val.startswith("FRInitFailed"):
                m = re.search(r"EUnsupported (\d+)", val)
                if m or "OutOfFuel" in val:
                    discards["unsupported" if m else "fuel"] += p["NCases"]
                    evaluations += p["NCases"]
                else:
                    mismatches.append((p, fm, -1, "package initialisation failed in the model: " + val[:300]))
                continue
            ms = re.search(r"(\d+)(?:%N)?\s*$", val)
            if ms:
                max_steps = max(max_steps, int(ms.group(1)))
                prog_max_steps[p["Name"]] = max(prog_max_steps.get(p["Name"], 0), int(ms.group(1)))
            bad = {}
            for m in re.finditer(r"\((\d+)%N,\s*(VMismatch|VFuel|VUnsupported|VStuck)", val):
                idx, kind = int(m.group(1)), m.group(2)
                bad[idx] = (kind, balanced(val, m.start()))
            for ci in range(p["NCases"]):
                evaluations += 1
                if ci not in bad:
                    okcount += 1
                    continue
                kind, txt = bad[ci]
                if kind == "VFuel":
                    fuel_cases.append((p, fm, ci, txt))
                elif kind == "VUnsupported":
                    discards["unsupported"] += 1
                    code = re.search(r"VUnsupported (\d+)", txt)
                    c = code.group(1) if code else "?"
                    unsupp_codes[c] = unsupp_codes.get(c, 0) + 1
                elif kind == "VStuck":
                    stuck.append((p, fm, ci, txt))
                else:
                    mismatches.append((p, fm, ci, txt))
    # forms identical to an evaluated one inherit its verdicts
for p in okprogs:
    pass

def case_desc(p, ci):
    if ci < 0:
        return {"function": "init", "inputs": ""}
    return {"function": p["FuncNames"][p["CaseFn"][ci]], "inputs": p["CaseIn"][ci], "case_index": ci}

def replay_obj(p, fm, ci, txt):
    same = [f for f, g in p["SameAs"].items() if g == fm]
    return {"program": p["Name"], "origin": p["Origin"], "program_seed": p["Seed"], "mode": FORMNAME[fm],
            "also_modes": [FORMNAME[f] for f in same], **case_desc(p, ci),
            "compiled_program_showed": (p.get("CaseExp") or [""] * (ci + 1))[ci][:3000] if ci >= 0 else "",
            "model_result": txt[:3000], "source": p["Src"],
            "rerun": "VERIF_SEED=%d ./check C01 --tier %s   (program %s)" % (ck.seed, ck.tier, p["Name"])}

def vkey(prefix, p, d, ci, fm):
    # corpus programs: one key per function (a corpus function is one fixed scenario with fixed inputs);
    # generated programs: program seed + function + case + form
    if p["Origin"] == "corpus":
        return "%scorpus:%s:%s" % (prefix, p["Name"], d["function"])
    return "%s%s:%s:%s:%s:%s" % (prefix, p["Origin"], p["Seed"], d["function"], ci, fm)

seen_keys = set()
nreported = 0
for p, fm, ci, txt in mismatches:
    d = case_desc(p, ci)
    key = vkey("", p, d, ci, fm)
    if key in seen_keys or nreported >= 40:
        continue
    seen_keys.add(key)
    nreported += 1
    ck.violation(key, "IR (%s) of %s.%s disagrees with the compiled program on input {%s}: model says %s" % (
        FORMNAME[fm], p["Name"], d["function"], d["inputs"], re.sub(r"\s+", " ", txt)[:400]), replay_obj(p, fm, ci, txt))
# OutOfFuel: the compiled program terminated.  If the fuel exceeds 20x the longest agreeing execution of the
# same program (at least 1000 steps) the IR execution is reported as non-terminating; otherwise the case is
# discarded (and counted).
reported_div = 0
for p, fm, ci, txt in fuel_cases:
    ref = max(1000, prog_max_steps.get(p["Name"], 0))
    if FUEL >= 20 * ref:
        reported_div += 1
        if reported_div > 40:
            continue
        d = case_desc(p, ci)
        key = vkey("diverges:", p, d, ci, fm)
        if key in seen_keys:
            continue
        seen_keys.add(key)
        ck.violation(key, "executing the IR (%s) of %s.%s on input {%s} does not terminate within %d steps (longest agreeing execution of this program: %d steps) while the compiled program terminated" % (
            FORMNAME[fm], p["Name"], d["function"], d["inputs"], FUEL, prog_max_steps.get(p["Name"], 0)), replay_obj(p, fm, ci, txt))
    else:
        discards["fuel"] += 1
for p, fm, ci, txt in stuck[:40]:
    d = case_desc(p, ci)
    key = vkey("stuck:", p, d, ci, fm)
    if key in seen_keys:
        continue
    seen_keys.add(key)
    ck.violation(key, "executing the IR (%s) of %s.%s on input {%s} gets stuck (%s): ill-formed IR or an operand of the wrong shape" % (
        FORMNAME[fm], p["Name"], d["function"], d["inputs"], re.sub(r"\s+", " ", txt)[:200]), replay_obj(p, fm, ci, txt))

if broken and not ck.violations:
    ck.violation("obligation:" + broken[0][0], "proof obligation or tie no longer checks: %s" % broken[0][0],
                 {"broken": broken}, no_input=True)

# coverage
kinds = {}
feats = {}
for p in okprogs:
    for fm, ks in (p["Kinds"] or {}).items():
        for k, v in ks.items():
            kinds[k] = kinds.get(k, 0) + v
    for k, v in (p["Features"] or {}).items():
        feats[k] = feats.get(k, 0) + v
ncases = sum(p["NCases"] for p in okprogs)
npanics = sum(p["Panics"] for p in okprogs)
disc = discards["fuel"] + discards["unsupported"]
ck.assume += [
    "the Go toolchain (go build + execution of the binary) is the behavioural oracle for the source programs",
    "generated programs only have behaviour fixed by the Go specification (statement discipline in harness/cmd/hc01/gen.go): the gc binary is one legitimate behaviour, required of the IR",
    "serialiser harness/cmd/hc01/ser.go transcribes go/ir functions faithfully (types resolved there: int kinds, zero values, type ids, method tables)",
    "builder+lifter correctness itself is NOT proved: it is checked differentially on the programs of this run only",
]
ck.finish({
    "evaluations": evaluations,
    "distinct_nontrivial": len({(p["Name"], p["CaseFn"][ci]) for p in okprogs for ci in range(p["NCases"])}),
    "rule": "evaluation = (program, function, input vector, IR form) executed by the model interpreter in coqc and compared with the go-built binary on results, panic class/value, extern call trace, final globals and pointer/slice arguments; forms whose serialised IR is textually identical to an already evaluated form are counted through it; distinct_nontrivial = distinct (program, function) pairs executed",
    "samples": [{"program": p["Name"], "functions": p["FuncNames"], "first_case": p["CaseIn"][0] if p["CaseIn"] else ""} for p in okprogs[:3]],
    "programs": len(progs), "programs_executed": executed_progs, "program_status": status,
    "cases_per_form": ncases, "ground_truth_panics": npanics,
    "forms_evaluated": forms_distinct, "forms_identical_to_evaluated": forms_same,
    "agree": okcount, "mismatches": len(mismatches),
    "mismatches_of_recorded_findings": sum(1 for p, fm, ci, txt in mismatches
                                           if vkey("", p, case_desc(p, ci), ci, fm) in load_known_findings().get("C01", {})), "stuck": len(stuck), "out_of_fuel": len(fuel_cases),
    "fuel": FUEL, "max_steps_of_agreeing_case": max_steps,
    "discarded": disc, "discard_rate": round(disc / max(1, evaluations), 4), "discards": discards, "unsupported_codes": unsupp_codes,
    "ssa_discipline_rejected_functions": ssa_funcs_bad,
    "cfg_compared_lifted_vs_naive": sum(p.get("CFGFuncs", 0) for p in okprogs),
    "cfg_differs_lifted_vs_naive": sum(p.get("CFGDiff", 0) for p in okprogs),
    "instruction_kinds_static": dict(sorted(kinds.items())),
    "generator_features": dict(sorted(feats.items())),
    "traces_validated_against_impl": okcount,
})
