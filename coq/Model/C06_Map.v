(* C06: total finite maps nat -> V used by the scheduler model: a base function overridden by a
   PositiveMap (logarithmic access, so that recorded traces of thousands of events evaluate quickly
   under vm_compute).  Only [get]/[set] and the two laws [gss]/[gso] are used by the development. *)
From Coq Require Import Arith PArith FMapPositive.

Record fmap (V : Type) := mkfmap { fbase : nat -> V; fover : PositiveMap.t V }.
Arguments mkfmap {V}. Arguments fbase {V}. Arguments fover {V}.

Definition fconst {V} (f : nat -> V) : fmap V := mkfmap f (PositiveMap.empty V).
Definition get {V} (m : fmap V) (a : nat) : V :=
  match PositiveMap.find (Pos.of_succ_nat a) (fover m) with Some v => v | None => fbase m a end.
Definition set {V} (m : fmap V) (a : nat) (v : V) : fmap V :=
  mkfmap (fbase m) (PositiveMap.add (Pos.of_succ_nat a) v (fover m)).

Lemma get_const : forall V (f : nat -> V) a, get (fconst f) a = f a.
Proof. intros. unfold get, fconst. simpl. rewrite PositiveMap.gempty. reflexivity. Qed.

Lemma gss : forall V (m : fmap V) a v, get (set m a v) a = v.
Proof. intros. unfold get, set. simpl. rewrite PositiveMap.gss. reflexivity. Qed.

Lemma gso : forall V (m : fmap V) a b v, a <> b -> get (set m a v) b = get m b.
Proof.
  intros. unfold get, set. simpl. rewrite PositiveMap.gso. reflexivity.
  intro E. apply SuccNat2Pos.inj in E. congruence.
Qed.

Lemma gsspec : forall V (m : fmap V) a b v, get (set m a v) b = if Nat.eqb a b then v else get m b.
Proof.
  intros. destruct (Nat.eqb_spec a b). subst. apply gss. apply gso. assumption.
Qed.

Global Opaque get set fconst.
