(* C08: types of the tables regenerated from pattern/parser.go (Gen/C08_Tables.v). Definitions only. *)
From Coq Require Import List String.
Import ListNotations.

(* what a case of collectEntryNodes does *)
Inductive ebeh :=
| EAll                       (* every kind of allTypes *)
| ERec (field : string)      (* recurse into one field (Binding.Node, Not.Node) *)
| ERecList (field : string)  (* recurse into every element of a list field (Or.Nodes) *)
| ETable.                    (* nodeToASTTypes[type of the node] *)

(* what a case of collectSymbols does *)
Inductive sbeh :=
| SBOr                       (* Or of the children, flattened; an Any child makes it Any *)
| SBAny
| SBSymbol (field : string)  (* the Name of a Symbol, with inSymbol = true *)
| SBString                   (* symbolToIndexSymbol when inSymbol, else Any *)
| SBRec (field : string)
| SBAnd (fields : list string)
| SBAndAll.                  (* And over all fields (reflection) *)

Record entry_tables := mkTables {
  t_all : list string;                    (* allTypes *)
  t_rows : list (string * list string);   (* nodeToASTTypes *)
  t_ebeh : list (string * ebeh);
  t_sbeh : list (string * sbeh)
}.

(* Pattern.SymbolsPattern *)
Inductive sympat :=
| SNone                                   (* Go nil: the pattern can never match *)
| SAny
| SOr (l : list sympat)
| SAnd (l : list sympat)
| SSym (path ty ident : string)
| SOther (s : string).
