(* C10: executable comparison of model / specification with what the implementation did.
   Used by coq/cases/C10/*.v written by checks/C10.py (vm_compute). *)
From Coq Require Import List ZArith Bool String Ascii.
Import ListNotations.
Require Import Verif.Model.C10 Verif.Model.C10_Spec.
Open Scope string_scope.
Open Scope list_scope.

Fixpoint list_eqb {A} (eqb : A -> A -> bool) (a b : list A) : bool :=
  match a, b with
  | [], [] => true
  | x :: a', y :: b' => eqb x y && list_eqb eqb a' b'
  | _, _ => false
  end.
Fixpoint remove_first {A} (eqb : A -> A -> bool) (x : A) (l : list A) : option (list A) :=
  match l with
  | [] => None
  | y :: r => if eqb x y then Some r else option_map (cons y) (remove_first eqb x r)
  end.
(* multiset difference a - b *)
Fixpoint msub {A} (eqb : A -> A -> bool) (a b : list A) : list A :=
  match b with
  | [] => a
  | y :: r => match remove_first (fun u v => eqb v u) y a with Some a' => msub eqb a' r | None => msub eqb a r end
  end.

(* (kind, file, category, line, column)
   kind 1: a field other than the severity of input diagnostic #line changed, or the diagnostic is gone
        2: must be ignored but is not        3: is ignored but must not be
        4: expected extra diagnostic (malformed / unmatched report) missing      5: unexpected extra diagnostic
        6: (CLI) expected diagnostic missing                                     7: (CLI) unexpected diagnostic *)
Definition vio := (Z * string * string * Z * Z)%type.
Definition mk_vio (k : Z) (d : diag) : vio := (k, p_file (d_pos d), d_cat d, p_line (d_pos d), p_col (d_pos d)).

(* ------------------------------------------------------------------ in-process triples *)
Record icase := mkI { i_ds : list diag; i_dirs : list sdir; i_allowed : allowed_t; i_out : list diag }.

Definition in_class_i (c : icase) : bool :=
  forallb (fun d => forallb simple_glob (dir_names d)) (i_dirs c) &&
  forallb (fun d => simple_subject (d_cat d)) (i_ds c) &&
  forallb (fun kv => simple_subject (fst kv)) (i_allowed c).

(* input diagnostics are compared on every field; the extra diagnostics created by the code under test (categories
   compile / staticcheck) are compared without their message text, which the property does not talk about *)
Definition is_extra_cat (d : diag) : bool := String.eqb (d_cat d) "compile" || String.eqb (d_cat d) "staticcheck".
Definition diag_eqb_x (a b : diag) : bool :=
  if is_extra_cat a then
    pos_eqb (d_pos a) (d_pos b) && String.eqb (d_cat a) (d_cat b) && sev_eqb (d_sev a) (d_sev b) && Z.eqb (d_rest a) (d_rest b)
  else diag_eqb a b.
Definition i_mismatch (c : icase) : bool :=
  let n := List.length (i_ds c) in
  let m := filter_ignored (i_ds c) (i_dirs c) (i_allowed c) in
  negb (list_eqb diag_eqb (firstn n m) (firstn n (i_out c)) && list_eqb diag_eqb_x (skipn n m) (skipn n (i_out c))).

(* extras are compared by position and category (and severity for compile errors); messages are not part of the property *)
Definition extra_eqb (a b : diag) : bool :=
  pos_eqb (d_pos a) (d_pos b) && String.eqb (d_cat a) (d_cat b) &&
  (if String.eqb (d_cat a) "compile" then sev_eqb (d_sev a) (d_sev b) else true).

Fixpoint main_vios (dirs : list sdir) (i : Z) (ds out : list diag) : list vio :=
  match ds with
  | [] => []
  | x :: r =>
      match out with
      | [] => (1%Z, p_file (d_pos x), d_cat x, i, 0%Z) :: main_vios dirs (i + 1)%Z r []
      | y :: o =>
          (if diag_eqb (set_sev (d_sev x) y) x then
             match spec_sev dirs x, d_sev y with
             | SevIgnored, SevIgnored => []
             | SevIgnored, _ => [mk_vio 2 x]
             | _, SevIgnored => [mk_vio 3 x]
             | _, _ => if sev_eqb (d_sev x) (d_sev y) then [] else [(1%Z, p_file (d_pos x), d_cat x, i, 0%Z)]
             end
           else [(1%Z, p_file (d_pos x), d_cat x, i, 0%Z)]) ++ main_vios dirs (i + 1)%Z r o
      end
  end.

Definition i_violation (c : icase) : list vio :=
  let n := List.length (i_ds c) in
  let extras := skipn n (i_out c) in
  let want := spec_extras (i_ds c) (i_dirs c) (i_allowed c) in
  main_vios (i_dirs c) 0 (i_ds c) (i_out c) ++
  map (mk_vio 4) (msub extra_eqb want extras) ++ map (mk_vio 5) (msub extra_eqb extras want).

(* ------------------------------------------------------------------ parseDirective on comment texts *)
(* (text, implementation's Command, implementation's Arguments) *)
Definition p_mismatch (c : string * string * list string) : bool :=
  let '(t, cmd, args) := c in
  match parse_directive t with
  | Some (cmd', args') => negb (String.eqb cmd cmd' && list_eqb String.eqb args args')
  | None => true
  end.

(* ------------------------------------------------------------------ CLI metamorphic runs *)
Record ccase := mkC {
  c_allowed : allowed_t;
  c_show : bool;                          (* -show-ignored *)
  c_base : list diag;                     (* base report without U1000, positions shifted to the variant's numbering *)
  c_u : list (diag * list pos);           (* base U1000 problems with the positions of the objects that keep them reachable *)
  c_dirs : list (string * pos * pos);     (* inserted comment text, its position, position of the code line below *)
  c_out : list diag }.                    (* report of the variant *)

Definition cli_dirs (c : ccase) : list sdir :=
  flat_map (fun e => let '(t, dp, np) := e in
            match parse_directive t with Some (cmd, args) => [mkDir cmd args dp np] | None => [] end) (c_dirs c).
Definition u_kept (dirs : list sdir) (e : diag * list pos) : bool :=
  negb (u1000_ignored dirs (d_pos (fst e)) || existsb (u1000_ignored dirs) (snd e)).
Definition cli_view (show : bool) (l : list diag) : list diag :=
  if show then l else filter (fun d => negb (sev_eqb (d_sev d) SevIgnored)) l.
Definition cli_model (c : ccase) : list diag :=
  let dirs := cli_dirs c in
  cli_view (c_show c) (filter_ignored (c_base c) dirs (c_allowed c) ++ map fst (filter (u_kept dirs) (c_u c))).
(* does directive d make some U1000 problem of the base report disappear? (then it "suppresses something") *)
Definition u_effect (c : ccase) (d : sdir) : bool := existsb (fun e => u1000_ignored [d] (d_pos (fst e))) (c_u c).
Definition spec_unmatched (c : ccase) (dirs : list sdir) (only_required : bool) : list diag :=
  flat_map (fun d => if must_report_b (c_allowed c) (c_base c) d && negb (only_required && u_effect c d)
                     then [unmatched_diag (sd_dpos d)] else []) dirs.
(* required = what the property demands; allowed = required + reports for directives whose only effect was on U1000
   (lintcmd cannot see that effect and the property does not forbid the report) *)
Definition cli_spec (c : ccase) (only_required : bool) : list diag :=
  let dirs := cli_dirs c in
  cli_view (c_show c) (spec_main (c_base c) dirs ++
                       flat_map (fun d => if malformed_b d then [malformed_diag d] else []) dirs ++
                       spec_unmatched c dirs only_required ++ map fst (filter (u_kept dirs) (c_u c))).
Definition in_class_c (c : ccase) : bool :=
  forallb (fun d => forallb simple_glob (dir_names d)) (cli_dirs c) &&
  forallb (fun d => simple_subject (d_cat d)) (c_base c) &&
  forallb (fun kv => simple_subject (fst kv)) (c_allowed c).

Definition c_mismatch (c : ccase) : bool :=
  let m := cli_model c in
  negb (Nat.eqb (List.length m) (List.length (c_out c)) && match msub diag_eqb_x m (c_out c) with [] => true | _ => false end).
Definition cli_eqb (a b : diag) : bool :=
  pos_eqb (d_pos a) (d_pos b) && String.eqb (d_cat a) (d_cat b) && sev_eqb (d_sev a) (d_sev b).
Definition c_violation (c : ccase) : list vio :=
  map (mk_vio 6) (msub cli_eqb (cli_spec c true) (c_out c)) ++ map (mk_vio 7) (msub cli_eqb (c_out c) (cli_spec c false)).

(* ------------------------------------------------------------------ drivers *)
Definition numbered_b {A} (f : A -> bool) (l : list A) : list nat :=
  map fst (filter (fun x => f (snd x)) (combine (seq 0 (List.length l)) l)).
Definition numbered_l {A B} (f : A -> list B) (l : list A) : list (nat * list B) :=
  filter (fun x => match snd x with [] => false | _ => true end) (combine (seq 0 (List.length l)) (map f l)).
Definition count_b {A} (f : A -> bool) (l : list A) : nat := List.length (filter f l).
