(* C11: obligations on the generated tables and executable comparison of model / specification with what the
   implementation did (cases/C11/*.v, vm_compute). *)
From Coq Require Import List ZArith Bool String Ascii.
Import ListNotations.
Require Import Verif.Gen.C11_Names Verif.Model.C11.
Open Scope string_scope.
Open Scope list_scope.

(* ---- obligations on the generated tables ---- *)
Fixpoint ascii_only (s : string) : bool :=
  match s with EmptyString => true | String a r => Nat.ltb (nat_of_ascii a) 127 && Nat.leb 32 (nat_of_ascii a) && ascii_only r end.
Fixpoint nodup_b (l : list string) : bool :=
  match l with [] => true | x :: r => negb (mem x r) && nodup_b r end.
(* premise ascii_names: every registered check name is printable ASCII, contains a digit (so its category is
   its letter prefix) and no two names collide after case folding *)
Definition names_ok (names : list string) (non_ascii : nat) : bool :=
  Nat.eqb non_ascii 0 && forallb ascii_only names && forallb has_digit names && nodup_b (map lower names)
  && negb (Nat.eqb (List.length names) 0).
(* the constants of the model are the ones the code compares with *)
Definition literals_ok : bool :=
  forallb (fun x => mem x gen_filter_literals) ["-"; "*"; "all"] && forallb (fun x => mem x ["-"; "*"; "all"]) gen_filter_literals
  && forallb (fun x => mem x gen_merge_literals) ["inherit"] && forallb (fun x => mem x ["inherit"]) gen_merge_literals
  && forallb (fun x => mem x gen_forced_exit) ["staticcheck"; "compile"; "config"]
  && forallb (fun x => mem x ["staticcheck"; "compile"; "config"]) gen_forced_exit.
(* Execute: config.DefaultConfig.Checks = "all" followed by "-NAME" for every non-default check *)
Definition default_checks : list string := "all" :: map (fun n => "-" ++ n)%string gen_non_default.

(* ---- helpers ---- *)
Definition opt_bool_eqb (a b : option bool) : bool :=
  match a, b with Some x, Some y => Bool.eqb x y | None, None => true | _, _ => false end.
Fixpoint list_eqb {A} (eqb : A -> A -> bool) (l1 l2 : list A) : bool :=
  match l1, l2 with
  | [], [] => true
  | x :: r1, y :: r2 => eqb x y && list_eqb eqb r1 r2
  | _, _ => false
  end.
Definition opt_list_eqb (a b : option (list string)) : bool :=
  match a, b with Some x, Some y => list_eqb String.eqb x y | None, None => true | _, _ => false end.
Fixpoint remove1 {A} (eqb : A -> A -> bool) (x : A) (l : list A) : option (list A) :=
  match l with
  | [] => None
  | y :: r => if eqb x y then Some r else match remove1 eqb x r with Some r' => Some (y :: r') | None => None end
  end.
Fixpoint mset_eqb {A} (eqb : A -> A -> bool) (l1 l2 : list A) : bool :=
  match l1 with
  | [] => match l2 with [] => true | _ => false end
  | x :: r => match remove1 eqb x l2 with Some l2' => mset_eqb eqb r l2' | None => false end
  end.
Definition rendered_eqb (a b : rendered) : bool :=
  match a, b with
  | (f1, l1, c1, k1, m1), (f2, l2, c2, k2, m2) =>
      String.eqb f1 f2 && Z.eqb l1 l2 && Z.eqb c1 c2 && String.eqb k1 k2 && String.eqb m1 m2
  end.

(* ---- cases ---- *)
Inductive c11case :=
  (* filterAnalyzerNames(all, selection) (both already case-folded by the hook) -> the whole map *)
| CFilter (all sel : list string) (obs : list (string * bool))
  (* list.Set *)
| CParse (s : string) (obs : option (list string))
  (* Config{default}.Merge(c1)...Merge(cn) and then .Merge(cli): observed Checks *)
| CMerge (default : list string) (chain : list (option (list string))) (cli : option (list string)) (obs : list string)
  (* config.Load on a directory tree with these staticcheck.conf files (outermost first), then Merge(cli) *)
| CLoad (all : list string) (default : list string) (chain : list (option (list string))) (cli : option (list string)) (obs : list string)
  (* printDiagnostics: formatter, analyzers, -fail, -show-ignored, -debug.no-compile-errors, problems -> exit, output *)
| CExit (f : format) (all fail : list string) (si nc : bool) (ps : list problem) (obs_exit : Z) (obs_out : list rendered)
  (* one run of the staticcheck binary: analyzers, -checks, -fail (as given on the command line, None = flag absent),
     format, -show-ignored, per package: configuration chain and the problems found with every check enabled
     (-checks "*" -show-ignored) -> exit, output *)
| CCli (f : format) (all : list string) (checks fail : option string) (si : bool)
       (pkgs : list (list (option (list string)) * list problem)) (obs_exit : Z) (obs_out : list rendered)
  (* config.Load on a directory chain in which a file may be undecodable -> did Load return an error? *)
| CLoadBad (chain : list conf_file) (obs_err : bool)
  (* one run of the binary with patterns naming only some packages: per package of the import cone its kind
     (named / failed dependency / dependency that loaded), configuration chain and the problems the `./...` run
     with every check enabled reports for it -> exit, output *)
| CCone (f : format) (all : list string) (checks fail : option string) (si : bool)
        (pkgs : list (pkind * list (option (list string)) * list problem)) (obs_exit : Z) (obs_out : list rendered).

Inductive diffkind := DMap | DParse | DList | DAllowed | DExit | DOutput | DLoadErr.

Definition keys_of (all sel : list string) (obs : list (string * bool)) : list string :=
  all ++ map pattern_of sel ++ map fst obs.

(* flag value -> list: absent flag = the default of the flag *)
Definition flag_list (dflt : option (list string)) (v : option string) : option (list string) :=
  match v with None => dflt | Some s => parse_list s end.
Definition cli_checks (v : option string) := flag_list (Some ["inherit"]) v.
Definition cli_fail (v : option string) : list string :=
  match flag_list (Some ["all"]) v with Some l => l | None => [] end.
(* categories that are not checks: problems of these categories are not subject to -checks *)
Definition not_a_check (cat : string) : bool := mem (lower cat) ["staticcheck"; "compile"; "config"].

(* problems a run prints, from the problems of every package with all checks enabled *)
Definition cli_selected (merge : list string -> list (option (list string)) -> option (list string) -> list string)
           (all : list string) (checks : option string) (pkgs : list (list (option (list string)) * list problem)) : list problem :=
  flat_map (fun pk => let eff := merge default_checks (fst pk) (cli_checks checks) in
                      filter (fun p => not_a_check (p_cat p) || allowed all eff (p_cat p)) (snd pk)) pkgs.

Definition cone_selected (merge : list string -> list (option (list string)) -> option (list string) -> list string)
           (all : list string) (checks : option string) (pkgs : list (pkind * list (option (list string)) * list problem)) : list problem :=
  flat_map (fun pk => lint_package all (merge default_checks (snd (fst pk)) (cli_checks checks)) (fst (fst pk)) (snd pk)) pkgs.

(* --- the specification evaluated on the observed behaviour --- *)
Definition spec_effective (default : list string) (chain : list (option (list string))) (cli : option (list string)) : list string :=
  merge_opt (splice default (rev chain)) cli.
Definition spec_exit (f : format) (all fail : list string) (si nc : bool) (ps : list problem) : Z :=
  match f with
  | FSarif => 0%Z
  | _ => if existsb (fun p => shown si nc p && should_exit all fail (p_cat p)) ps then 1%Z else 0%Z
  end.
Definition spec_output (f : format) (si nc : bool) (ps : list problem) : list rendered :=
  match f with FNull => [] | _ => map render (filter (shown si nc) ps) end.

Definition case_violation (c : c11case) : list diffkind :=
  match c with
  | CFilter all sel obs =>
      if forallb (fun k => opt_bool_eqb (last_match all sel k) (lookup obs k)) (keys_of all sel obs) then [] else [DMap]
  | CParse s obs => if opt_list_eqb (parse_list s) obs then [] else [DParse]
  | CMerge default chain cli obs =>
      if list_eqb String.eqb (spec_effective default chain cli) obs then [] else [DList]
  | CLoad all default chain cli obs =>
      (* the lists may differ by adjacent duplicates; the selection they denote may not *)
      let spec := spec_effective default chain cli in
      if forallb (fun a => Bool.eqb (allowed all spec a) (allowed all obs a)) (all ++ map pattern_of spec ++ map pattern_of obs) then [] else [DAllowed]
  | CExit f all fail si nc ps oe oo =>
      (if Z.eqb (spec_exit f all fail si nc ps) oe then [] else [DExit]) ++
      (if mset_eqb rendered_eqb (spec_output f si nc ps) oo then [] else [DOutput])
  | CCli f all checks fail si pkgs oe oo =>
      let sel := cli_selected spec_effective all checks pkgs in
      (if Z.eqb (spec_exit f all (cli_fail fail) si false sel) oe then [] else [DExit]) ++
      (if mset_eqb rendered_eqb (spec_output f si false sel) oo then [] else [DOutput])
  | CLoadBad chain oe => if Bool.eqb (load_fails chain) oe then [] else [DLoadErr]
  | CCone f all checks fail si pkgs oe oo =>
      let sel := cone_selected spec_effective all checks pkgs in
      (if Z.eqb (spec_exit f all (cli_fail fail) si false sel) oe then [] else [DExit]) ++
      (if mset_eqb rendered_eqb (spec_output f si false sel) oo then [] else [DOutput])
  end.

(* --- the transcription of the code --- *)
Definition case_mismatch (c : c11case) : list diffkind :=
  match c with
  | CFilter all sel obs =>
      let m := filter_names all sel in
      if forallb (fun k => opt_bool_eqb (lookup m k) (lookup obs k)) (keys_of all sel obs) then [] else [DMap]
  | CParse s obs => if opt_list_eqb (parse_list s) obs then [] else [DParse]
  | CMerge default chain cli obs =>
      if list_eqb String.eqb (merge_opt (merge_configs default chain) cli) obs then [] else [DList]
  | CLoad all default chain cli obs =>
      (* compared on the selection the list denotes (the property's observable), not on its spelling *)
      let eff := effective_checks default chain cli in
      if forallb (fun a => Bool.eqb (allowed all eff a) (allowed all obs a)) (all ++ map pattern_of eff ++ map pattern_of obs) then [] else [DAllowed]
  | CExit f all fail si nc ps oe oo =>
      (if Z.eqb (exit_status f all fail si nc ps) oe then [] else [DExit]) ++
      (if mset_eqb rendered_eqb (format_output f (to_print all fail si nc ps)) oo then [] else [DOutput])
  | CCli f all checks fail si pkgs oe oo =>
      let sel := cli_selected effective_checks all checks pkgs in
      (if Z.eqb (exit_status f all (cli_fail fail) si false sel) oe then [] else [DExit]) ++
      (if mset_eqb rendered_eqb (format_output f (to_print all (cli_fail fail) si false sel)) oo then [] else [DOutput])
  | CLoadBad chain oe => if Bool.eqb (load_fails chain) oe then [] else [DLoadErr]
  | CCone f all checks fail si pkgs oe oo =>
      let sel := cone_selected effective_checks all checks pkgs in
      (if Z.eqb (exit_status f all (cli_fail fail) si false sel) oe then [] else [DExit]) ++
      (if mset_eqb rendered_eqb (format_output f (to_print all (cli_fail fail) si false sel)) oo then [] else [DOutput])
  end.

Definition numbered {A} (f : c11case -> list A) (cases : list c11case) : list (nat * list A) :=
  filter (fun x => match snd x with [] => false | _ => true end)
         (combine (seq 0 (List.length cases)) (map f cases)).
Definition mismatches cases := numbered case_mismatch cases.
Definition violations cases := numbered case_violation cases.

(* ---- search: selection lists up to length 3 over a small alphabet against filter_last_match ---- *)
Definition small_all : list string := ["s1000"; "s1001"; "sa1000"; "sa1001"; "st1000"; "u1000"].
Definition small_tokens : list string := ["all"; "-s*"; "sa*"; "-sa1*"; "s1000"; "-sa1000"; "-"; "-*"; "inherit"; "st1*"].
Definition small_selections : list (list string) :=
  [[]] ++ map (fun a => [a]) small_tokens ++
  flat_map (fun a => map (fun b => [a; b]) small_tokens) small_tokens ++
  flat_map (fun a => flat_map (fun b => map (fun c => [a; b; c]) small_tokens) small_tokens) small_tokens.
Definition find_cex : list (list string * string) :=
  flat_map (fun sel => flat_map (fun a =>
    if opt_bool_eqb (lookup (filter_names small_all sel) a) (last_match small_all sel a) then [] else [(sel, a)])
    ("unknown" :: small_all)) small_selections.
