(* C13 — executable comparison of the solver/lattice models with what the Go implementation returned.
   Used by coq/cases/C13/*.v (vm_compute). *)
From Coq Require Import List Arith Bool NArith.
Import ListNotations.
Require Import Verif.Model.C13 Verif.Gen.C13_NilnessTable Verif.Model.C13_Nilness.

(* ------------------------------------------------------------------ generic dense case *)
Section DenseCase.
  Context {F : Type} {L : Semilattice F}.
  Context {D : Type}.                               (* per-edge transfer descriptor *)
  Variable apply : D -> F -> F.
  Variable dflt : D.

  Record dcase := mkD {
    d_succs : list (list nat);
    d_entry : list (nat * F);
    d_tr : list (list D);           (* per node, per out index; equal (from,to) pairs carry equal descriptors *)
    d_in : list F;                  (* implementation: In(node) *)
    d_out : list (list F);          (* implementation: Edge(node, succ_i) *)
    d_diverged : bool               (* implementation exceeded the transfer-call budget *)
  }.

  Fixpoint index_of (x : nat) (l : list nat) (k : nat) : nat :=
    match l with [] => k | y :: t => if Nat.eqb x y then k else index_of x t (S k) end.

  Definition c_transfer (c : dcase) (from to : nat) (x : F) : F :=
    apply (nth (index_of to (nth from (d_succs c) []) 0) (nth from (d_tr c) []) dflt) x.
  Fixpoint c_entry_find (l : list (nat * F)) (b : nat) : option F :=
    match l with [] => None | (k, f) :: t => if Nat.eqb k b then Some f else c_entry_find t b end.
  Definition c_entry (c : dcase) (b : nat) : option F := c_entry_find (d_entry c) b.

  Definition c_fuel (c : dcase) : nat := 4000.

  Definition model_result (pick : list nat -> nat) (c : dcase) : option (list F * list (list F)) :=
    match run (d_succs c) (c_transfer c) pick (c_fuel c) (init (d_succs c) (c_entry c)) with
    | Some s => Some (result_in (d_succs c) s, result_out (d_succs c) s)
    | None => None
    end.

  Definition shape_ok (c : dcase) : bool :=
    Nat.eqb (length (d_in c)) (length (d_succs c)) &&
    Nat.eqb (length (d_out c)) (length (d_succs c)) &&
    forallb (fun b => Nat.eqb (length (nth b (d_out c) [])) (length (nth b (d_succs c) [])))
            (seq 0 (length (d_succs c))).

  (* model (FIFO, LIFO and the reverse-postorder priority schedules) vs implementation, up to Equals *)
  Definition dense_mismatch (c : dcase) : bool :=
    d_diverged c || negb (shape_ok c) ||
    match model_result (fun w => hd 0 w) c, model_result (fun w => last w 0) c, model_result (pick_heap (d_succs c)) c with
    | Some m1, Some m2, Some m3 =>
        negb (tables_eqv (d_succs c) m1 (d_in c, d_out c)) || negb (tables_eqv (d_succs c) m2 (d_in c, d_out c)) ||
        negb (tables_eqv (d_succs c) m3 (d_in c, d_out c))
    | _, _, _ => true
    end.

  (* the property on the implementation's own output: a solution of the equations, and equal to the
     limit of naive Kleene iteration from Ident (the least solution) *)
  Definition dense_violation (c : dcase) : bool :=
    d_diverged c || negb (shape_ok c) ||
    negb (is_fixpoint_b (d_succs c) (c_transfer c) (c_entry c) (tin (d_in c)) (tout (d_out c))) ||
    match kleene (d_succs c) (c_transfer c) (c_entry c) 400 (kleene_init (d_succs c)) with
    | Some k => negb (tables_eqv (d_succs c) k (d_in c, d_out c))
    | None => true
    end.
End DenseCase.

Arguments mkD {F D}.

Definition numbered_true {A} (f : A -> bool) (l : list A) : list nat :=
  map fst (filter (fun x => f (snd x)) (combine (seq 0 (length l)) l)).

(* ------------------------------------------------------------------ family A: gen/kill bitsets *)
Definition applyA (d : N * N) (x : N) : N := N.lor (N.ldiff x (snd d)) (fst d).
Definition caseA := @dcase N (N * N).
Definition mismatchesA (l : list caseA) := numbered_true (@dense_mismatch N BitsSemilattice _ applyA (0, 0)%N) l.
Definition violationsA (l : list caseA) := numbered_true (@dense_violation N BitsSemilattice _ applyA (0, 0)%N) l.

(* ------------------------------------------------------------------ family B: constant propagation, MapLattice over a flat lattice *)
Definition flat_top : N := 255.
Definition flat_merge (a b : N) : N :=
  if N.eqb a 0 then b else if N.eqb b 0 then a else if N.eqb a b then a else flat_top.
Definition FlatSemilattice : Semilattice N := {| ident := 0%N; merge := flat_merge; eqv := N.eqb |}.

Inductive opB := BConst (c : N) | BCopy (src : nat) | BInc (src : nat).
Definition flat_inc (x : N) : N :=
  if N.eqb x 0 then 0%N else if N.eqb x flat_top then flat_top else (N.modulo x 5 + 1)%N.

Fixpoint aremove {E} (m : list (nat * E)) (k : nat) : list (nat * E) :=
  match m with [] => [] | (k', v) :: t => if Nat.eqb k' k then aremove t k else (k', v) :: aremove t k end.
Definition aset (m : list (nat * N)) (k : nat) (v : N) : list (nat * N) :=
  if N.eqb v 0 then aremove m k else (k, v) :: aremove m k.
Definition aget (m : list (nat * N)) (k : nat) : N := @map_get N FlatSemilattice m k.

Definition applyB1 (m : list (nat * N)) (o : nat * opB) : list (nat * N) :=
  match snd o with
  | BConst c => aset m (fst o) c
  | BCopy s => aset m (fst o) (aget m s)
  | BInc s => aset m (fst o) (flat_inc (aget m s))
  end.
Definition applyB (d : list (nat * opB)) (m : list (nat * N)) : list (nat * N) := fold_left applyB1 d m.
Definition MapFlatSemilattice : Semilattice (list (nat * N)) := @MapSemilattice N FlatSemilattice.
Definition caseB := @dcase (list (nat * N)) (list (nat * opB)).
Definition mismatchesB (l : list caseB) := numbered_true (@dense_mismatch _ MapFlatSemilattice _ applyB []) l.
Definition violationsB (l : list caseB) := numbered_true (@dense_violation _ MapFlatSemilattice _ applyB []) l.

(* ------------------------------------------------------------------ family C: nilness table, DenseMapLattice *)
Inductive opC := CSet (i o : N) | CSetOuter (o : N) | CSetInner (i : N) | CCopy (src : nat).
Definition vn_of (p : N * N) : vn := (nil_of_N (fst p), nil_of_N (snd p)).
Definition dget (m : list vn) (k : nat) : vn := nth k m (NoNil, NoNil).
Definition dset (m : list vn) (k : nat) (v : vn) : list vn :=
  upd (m ++ repeat (NoNil, NoNil) (S k - length m)) k v.
Definition applyC1 (m : list vn) (o : nat * opC) : list vn :=
  match snd o with
  | CSet i o' => dset m (fst o) (nil_of_N i, nil_of_N o')
  | CSetOuter o' => dset m (fst o) (fst (dget m (fst o)), nil_of_N o')
  | CSetInner i => dset m (fst o) (nil_of_N i, snd (dget m (fst o)))
  | CCopy s => dset m (fst o) (dget m s)
  end.
Definition applyC (d : list (nat * opC)) (m : list vn) : list vn := fold_left applyC1 d m.
Definition caseC := @dcase (list vn) (list (nat * opC)).
Definition mismatchesC (l : list caseC) := numbered_true (@dense_mismatch _ NilStateSemilattice _ applyC []) l.
Definition violationsC (l : list caseC) := numbered_true (@dense_violation _ NilStateSemilattice _ applyC []) l.
Definition vns (l : list (N * N)) : list vn := map vn_of l.

(* ------------------------------------------------------------------ lattice law cases (direct Merge / Equals calls) *)
Section LawCase.
  Context {F : Type} {L : Semilattice F}.
  Record lcase := mkL {
    l_a : F; l_b : F; l_c : F;
    l_ab : F; l_ba : F; l_a_bc : F; l_ab_c : F; l_aa : F; l_aid : F; l_ida : F;   (* implementation's Merge results *)
    l_eq_ab : bool; l_eq_comm : bool; l_eq_assoc : bool; l_eq_idem : bool; l_eq_ident : bool; l_eq_identl : bool;
    l_eq_ac : bool; l_eq_bc : bool  (* implementation's Equals verdicts; ac/bc for transitivity *)
  }.
  (* model Merge/Equals vs implementation *)
  Definition law_mismatch (c : lcase) : bool :=
    negb (eqv (merge (l_a c) (l_b c)) (l_ab c)) || negb (eqv (merge (l_b c) (l_a c)) (l_ba c)) ||
    negb (eqv (merge (l_a c) (merge (l_b c) (l_c c))) (l_a_bc c)) ||
    negb (eqv (merge (merge (l_a c) (l_b c)) (l_c c)) (l_ab_c c)) ||
    negb (eqv (merge (l_a c) (l_a c)) (l_aa c)) || negb (eqv (merge (l_a c) ident) (l_aid c)) ||
    negb (eqv (merge ident (l_a c)) (l_ida c)) ||
    negb (Bool.eqb (eqv (l_a c) (l_b c)) (l_eq_ab c)) || negb (Bool.eqb (eqv (l_a c) (l_c c)) (l_eq_ac c)) ||
    negb (Bool.eqb (eqv (l_b c) (l_c c)) (l_eq_bc c)) ||
    negb (Bool.eqb (eqv (l_ab c) (l_ba c)) (l_eq_comm c)) || negb (Bool.eqb (eqv (l_a_bc c) (l_ab_c c)) (l_eq_assoc c)) ||
    negb (Bool.eqb (eqv (l_aa c) (l_a c)) (l_eq_idem c)) || negb (Bool.eqb (eqv (l_aid c) (l_a c)) (l_eq_ident c)) ||
    negb (Bool.eqb (eqv (l_ida c) (l_a c)) (l_eq_identl c)).
  (* the laws on the implementation's own verdicts: Merge laws hold up to its Equals; Equals is transitive
     and symmetric on the sampled elements *)
  Definition law_violation (c : lcase) : bool :=
    negb (l_eq_comm c) || negb (l_eq_assoc c) || negb (l_eq_idem c) || negb (l_eq_ident c) || negb (l_eq_identl c) ||
    (l_eq_ab c && l_eq_bc c && negb (l_eq_ac c)) || (l_eq_ab c && l_eq_ac c && negb (l_eq_bc c)) ||
    (l_eq_ac c && l_eq_bc c && negb (l_eq_ab c)).
End LawCase.
Arguments mkL {F}.

Definition lmismatchesMap (l : list (@lcase (list (nat * N)))) := numbered_true (@law_mismatch _ MapFlatSemilattice) l.
Definition lviolationsMap (l : list (@lcase (list (nat * N)))) := numbered_true (@law_violation _) l.
Definition lmismatchesDense (l : list (@lcase (list vn))) := numbered_true (@law_mismatch _ NilStateSemilattice) l.
Definition lviolationsDense (l : list (@lcase (list vn))) := numbered_true (@law_violation _) l.

(* the regenerated table against the real lattice.Merge on all pairs (observed through the harness) *)
Definition table_vs_impl (obs : list (N * N * N)) : list (N * N * N) :=
  filter (fun x => let '(a, b, r) := x in negb (N.eqb (table_merge gen_nilness_table a b) r)) obs.

(* ------------------------------------------------------------------ sparse cases *)
Inductive sdesc := TNone | TGen (gen kill : N) | TCopyFirst
  | TLazy (gen kill : N).   (* no mapping at all while every operand is Ident, then like TGen *)
Record scase := mkSC {
  sc_instrs : list (list nat * bool);
  sc_desc : list sdesc;
  sc_ext : list (nat * N);           (* initial states set for non-instruction values (Instance.Set) *)
  sc_impl : list (nat * N);          (* implementation: final Mapping, value id -> state (absent = Ident) *)
  sc_diverged : bool
}.
Definition sc_tself (c : scase) (i : nat) (m : nat -> N) : option N :=
  match nth i (sc_desc c) TNone with
  | TNone => None
  | TGen g k => Some (N.lor g (N.ldiff (fold_left (fun acc v => N.lor acc (m v)) (ops_of (sc_instrs c) i) 0%N) k))
  | TCopyFirst => match ops_of (sc_instrs c) i with [] => None | v :: _ => Some (m v) end
  | TLazy g k => let u := fold_left (fun acc v => N.lor acc (m v)) (ops_of (sc_instrs c) i) 0%N in
                 if N.eqb u 0 then None else Some (N.lor g (N.ldiff u k))
  end.
Definition sc_transfer (c : scase) (i : nat) (m : nat -> N) : list (nat * N) :=
  match sc_tself c i m with Some x => [(i, x)] | None => [] end.

Definition sc_value (c : scase) (tbl : list (nat * N)) (v : nat) : N := @lookup N BitsSemilattice tbl v.

(* fixpoint equations of the sparse problem on a mapping *)
Definition sparse_fix_b (c : scase) (m : nat -> N) : bool :=
  forallb (fun i =>
    if is_phi (sc_instrs c) i
    then N.eqb (m i) (fold_left (fun d e => N.lor d (m e)) (ops_of (sc_instrs c) i) 0%N)
    else match sc_tself c i m with Some x => N.eqb (m i) x | None => N.eqb (m i) (sc_value c (sc_ext c) i) end)
    (seq 0 (length (sc_instrs c))).

(* Kleene iteration on the value table *)
Definition sparse_kstep (c : scase) (tbl : list N) : list N :=
  let m := fun v => if Nat.ltb v (length (sc_instrs c)) then nth v tbl 0%N else sc_value c (sc_ext c) v in
  map (fun i =>
    if is_phi (sc_instrs c) i
    then fold_left (fun d e => N.lor d (m e)) (ops_of (sc_instrs c) i) 0%N
    else match sc_tself c i m with Some x => x | None => nth i tbl 0%N end)
    (seq 0 (length (sc_instrs c))).
Fixpoint sparse_kleene (c : scase) (fuel : nat) (tbl : list N) : option (list N) :=
  match fuel with
  | 0 => None
  | S f => let t' := sparse_kstep c tbl in
           if forallb (fun i => N.eqb (nth i tbl 0%N) (nth i t' 0%N)) (seq 0 (length tbl)) then Some tbl
           else sparse_kleene c f t'
  end.

Definition sparse_model (c : scase) (pick : list nat -> nat) : option (list N) :=
  match @srun N BitsSemilattice (sc_instrs c) (sc_transfer c) pick 20000
              (@sinit N (sc_instrs c) (sc_ext c)) with
  | Some s => Some (map (@value N BitsSemilattice s) (seq 0 (length (sc_instrs c))))
  | None => None
  end.
Definition tbl_eq (n : nat) (a b : list N) : bool :=
  forallb (fun i => N.eqb (nth i a 0%N) (nth i b 0%N)) (seq 0 n).
Definition sc_impl_tbl (c : scase) : list N := map (sc_value c (sc_impl c)) (seq 0 (length (sc_instrs c))).

Definition sparse_mismatch (c : scase) : bool :=
  sc_diverged c ||
  match sparse_model c (fun w => hd 0 w), sparse_model c (fun w => last w 0) with
  | Some m1, Some m2 => negb (tbl_eq (length (sc_instrs c)) m1 (sc_impl_tbl c)) ||
                        negb (tbl_eq (length (sc_instrs c)) m2 (sc_impl_tbl c))
  | _, _ => true
  end.
Definition sparse_violation (c : scase) : bool :=
  sc_diverged c ||
  negb (sparse_fix_b c (fun v => if Nat.ltb v (length (sc_instrs c)) then sc_value c (sc_impl c) v
                                 else sc_value c (sc_ext c) v)) ||
  match sparse_kleene c 2000 (map (fun _ => 0%N) (sc_instrs c)) with
  | Some k => negb (tbl_eq (length (sc_instrs c)) k (sc_impl_tbl c))
  | None => true
  end.
Definition smismatches (l : list scase) := numbered_true sparse_mismatch l.
Definition sviolations (l : list scase) := numbered_true sparse_violation l.
