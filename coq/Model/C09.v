(* C09: executable model of pattern/match.go.
     am       : match of two Go values (recall of a bound name: stored value on the left) -- state free
     mi       : match of a pattern against a Go value, transcribing the Matcher's mutable State and its
                setBindings frame stack with 1<<idx masks  (match_impl)
     ms       : the reference semantics: purely functional backtracking over the State alone (match_spec)
   Recursion is by fuel through open-recursive step functions (rec = the function at fuel-1), so that the
   proofs in Proofs/C09.v are about the step functions. Definitions only. *)
From Coq Require Import List String ZArith NArith Bool.
Import ListNotations.
Require Import Verif.Model.C09_Types.
Open Scope string_scope.

(* ------------------------------------------------------------------ association lists *)
Fixpoint assoc {A} (k : string) (l : list (string * A)) : option A :=
  match l with
  | [] => None
  | (k', v) :: r => if String.eqb k' k then Some v else assoc k r
  end.
Definition lookup (k : string) (s : state) : option val := assoc k s.
(* Go: m.State[name] = v *)
Fixpoint set_st (n : string) (v : val) (s : state) : state :=
  match s with
  | [] => [(n, v)]
  | (k, w) :: r => if String.eqb k n then (k, v) :: r else (k, w) :: set_st n v r
  end.
(* Go: delete(m.State, name) *)
Definition del_st (n : string) (s : state) : state :=
  filter (fun kv => negb (String.eqb (fst kv) n)) s.
Definition keys (s : state) : list string := map fst s.
Fixpoint mem (x : string) (l : list string) : bool :=
  match l with [] => false | y :: r => String.eqb y x || mem x r end.

(* ------------------------------------------------------------------ wrapper unwrapping (tables from match.go) *)
Inductive unwrap_res := UNo | UPanic | UTo (v : val).
Fixpoint find_row (ty : string) (tbl : list (string * string * bool)) : option (string * bool) :=
  match tbl with
  | [] => None
  | (t, f, c) :: r => if String.eqb t ty then Some (f, c) else find_row ty r
  end.
Definition unwrap (tbl : list (string * string * bool)) (v : val) : unwrap_res :=
  match v with
  | VNode ty fs =>
      match find_row ty tbl with
      | None => UNo
      | Some (f, _) => if String.eqb f "" then UNo
                       else match assoc f fs with Some x => UTo x | None => UPanic end
      end
  | VNilPtr ty =>
      match find_row ty tbl with
      | None => UNo
      | Some (_, true) => UTo VNil                 (* `if x == nil { return match(.., nil ..) }` *)
      | Some (f, false) => if String.eqb f "" then UNo else UPanic   (* x.F on a nil pointer *)
      end
  | _ => UNo
  end.

Definition is_vnil (v : val) : bool := match v with VNil => true | _ => false end.
Definition node_ty (v : val) : option string :=
  match v with VNode ty _ | VNilPtr ty => Some ty | _ => None end.
Definition is_astnode (v : val) : bool := match node_ty v with Some _ => true | None => false end.
Definition lkind_eqb (a b : lkind) : bool :=
  match a, b with LExpr, LExpr | LStmt, LStmt | LField, LField | LOther, LOther => true | _, _ => false end.
Definition is_list_of (k : lkind) (v : val) : bool :=
  match v with VList k' _ _ => lkind_eqb k k' | _ => false end.
Definition elems (v : val) : list val := match v with VList _ _ l => l | _ => [] end.

(* ------------------------------------------------------------------ Go value against Go value *)
Inductive ares := AFuel | APanic | ADone (ok : bool) (v : val).

Section AstMatch.
Variable cfg : matcher_cfg.
Variable orc : oracle.

(* x.(ast.Expr) / x.(ast.Stmt) / x.( *ast.Field) *)
Definition castable (k : lkind) (v : val) : bool :=
  match node_ty v with
  | None => false
  | Some ty => match k with
               | LExpr => mem ty (cfg_expr_types cfg)
               | LStmt => mem ty (cfg_stmt_types cfg)
               | LField => String.eqb ty "Field"
               | LOther => false
               end
  end.

Fixpoint am_elems (rec : val -> val -> ares) (la lb : list val) : ares :=
  match la, lb with
  | [], [] => ADone true VNil
  | a :: la', b :: lb' =>
      match rec a b with
      | ADone true _ => am_elems rec la' lb'
      | ADone false _ => ADone false VNil
      | e => e
      end
  | _, _ => ADone false VNil
  end.

(* matchAST, field loop (both nodes have the same type, hence the same fields) *)
Fixpoint am_fields (rec : val -> val -> ares) (fa fb : list (string * val)) : ares :=
  match fa, fb with
  | [], _ => ADone true VNil
  | (_, va) :: fa', (_, vb) :: fb' =>
      let r := match va, vb with
               | VList _ _ la, VList _ _ lb =>
                   if Nat.eqb (List.length la) (List.length lb) then am_elems rec la lb else ADone false VNil
               | VStr a, VStr b => ADone (String.eqb a b) VNil
               | VTok a, VTok b => ADone (Z.eqb a b) VNil
               | VInt a, VInt b => ADone (Z.eqb a b) VNil
               | VBool a, VBool b => ADone (Bool.eqb a b) VNil
               | _, _ => rec va vb
               end in
      match r with
      | ADone true _ => am_fields rec fa' fb'
      | ADone false _ => ADone false VNil
      | e => e
      end
  | _ :: _, [] => APanic
  end.

Definition am_ast (rec : val -> val -> ares) (l r : val) : ares :=
  match l, r with
  | VNode ta fa, VNode tb fb =>
      if String.eqb ta tb then
        match am_fields rec fa fb with ADone true _ => ADone true r | e => e end
      else ADone false VNil
  | VNilPtr ta, VNilPtr tb => if String.eqb ta tb then ADone true (VOpaque "reflect.Value") else ADone false VNil
  | VNilPtr ta, VNode tb _ | VNode ta _, VNilPtr tb =>
      if String.eqb ta tb then ADone false (VOpaque "reflect.Value") else ADone false VNil
  | _, _ => ADone false VNil
  end.

(* the three slice blocks of match, tried in the order []ast.Expr, []ast.Stmt, []*ast.Field *)
Fixpoint am_slices (rec : val -> val -> ares) (ks : list lkind) (l r : val) : ares :=
  match ks with
  | [] => ADone false VNil
  | k :: ks' =>
      let ok1 := is_list_of k l in
      let ok2 := is_list_of k r in
      if ok1 || ok2 then
        if (negb ok1 && negb (castable k l)) || (negb ok2 && negb (castable k r)) then ADone false VNil
        else
          let ln := if ok1 then elems l else [l] in
          let rn := if ok2 then elems r else [r] in
          if Nat.eqb (List.length ln) (List.length rn) then
            match am_elems rec ln rn with ADone true _ => ADone true r | e => e end
          else ADone false VNil
      else am_slices rec ks' l r
  end.

Definition am_step (rec : val -> val -> ares) (l r : val) : ares :=
  match unwrap (cfg_unwrap_left cfg) l with
  | UPanic => APanic
  | UTo l' => rec l' r
  | UNo =>
      match unwrap (cfg_unwrap_right cfg) r with
      | UPanic => APanic
      | UTo r' => rec l r'
      | UNo =>
          if is_vnil l || is_vnil r then ADone (is_vnil l && is_vnil r) VNil
          else if is_astnode l && is_astnode r then am_ast rec l r
          else match l with
               | VObj id =>
                   match r with
                   | VNode ty fs =>
                       if String.eqb ty "Ident" then
                         ADone (match o_objof orc r with Some i => Z.eqb i id | None => false end) l
                       else if String.eqb ty "SelectorExpr" then
                         match assoc "Sel" fs with
                         | Some s => ADone (match o_objof orc s with Some i => Z.eqb i id | None => false end) l
                         | None => APanic
                         end
                       else ADone false l
                   | _ => ADone false l
                   end
               | _ => am_slices rec [LExpr; LStmt; LField] l r
               end
      end
  end.

Fixpoint am (fuel : nat) (l r : val) : ares :=
  match fuel with
  | O => AFuel
  | S f => am_step (am f) l r
  end.
End AstMatch.

Definition lift_a {M} (a : ares) (m : M) : res M :=
  match a with AFuel => RFuel | APanic => RPanic | ADone ok v => RDone ok v m end.

(* ------------------------------------------------------------------ leaf matchers (state free) *)
(* Nil.Match *)
Definition nil_match (r : val) : bool :=
  match r with VNil => true | VNilPtr _ => true | VList _ isnil _ => isnil | _ => false end.
(* String.Match (and Token.Match through maybeToken) *)
Definition string_match (cfg : matcher_cfg) (s : string) (r : val) : bool * val :=
  match r with
  | VTok t => match assoc s (cfg_tokens cfg) with
              | Some t' => if Z.eqb t' t then (true, r) else (false, VNil)
              | None => (false, VNil)
              end
  | VStr o => if String.eqb s o then (true, r) else (false, VNil)
  | VConst c => if String.eqb s c then (true, r) else (false, VNil)
  | _ => (false, VNil)
  end.
Definition token_match (t : Z) (r : val) : bool * val :=
  match r with VTok o => if Z.eqb t o then (true, r) else (false, VNil) | _ => (false, VNil) end.
(* isNil(b.Node) / isNil(l.Head): nil interface or pattern.Nil *)
Definition is_nilpat (p : pat) : bool := match p with PNone | PNil => true | _ => false end.

(* structural pre-match of the type-aware nodes (Symbol.Match, Builtin.Match, Object.Match, integerLiteralQ) *)
Definition sym_base : list pat :=
  [PNode "Ident" [("Name", PAny)]; PNode "SelectorExpr" [("X", PAny); ("Sel", PAny)]].
Definition ta_pre (k : string) (arg : pat) : option pat :=
  if String.eqb k "Symbol" then
    Some (POr (sym_base ++ [PNode "IndexExpr" [("X", POr sym_base); ("Index", PAny)];
                            PNode "IndexListExpr" [("X", POr sym_base); ("Indices", PAny)]]))
  else if String.eqb k "Builtin" then Some (PNode "Ident" [("Name", arg)])
  else if String.eqb k "Object" then Some (PNode "Ident" [("Name", arg)])
  else if String.eqb k "IntegerLiteral" then
    Some (POr [PNode "BasicLit" [("Kind", PString "INT"); ("Value", PAny)];
               PNode "UnaryExpr" [("Op", POr [PString "+"; PString "-"]); ("X", PTypeAware "IntegerLiteral" PAny)]])
  else None.

(* ------------------------------------------------------------------ the implementation: State + frame stack *)
Definition mstate := (state * list N)%type.
(* 1 << b.idx on a uint64 *)
Definition bit (idx : nat) : N := if Nat.ltb idx 64 then N.shiftl 1 (N.of_nat idx) else 0%N.
(* Matcher.set *)
Definition do_set (n : string) (idx : nat) (v : val) (m : mstate) : option mstate :=
  match snd m with
  | [] => None
  | f :: rest => Some (set_st n v (fst m), N.lor f (bit idx) :: rest)
  end.
(* Matcher.pop: delete bindingsMapping[i] for every bit i of the top frame, i < len(bindingsMapping) *)
Definition pop_state (mapping : list string) (f : N) (s : state) : state :=
  fold_left (fun s i => if N.testbit f (N.of_nat i)
                        then match nth_error mapping i with Some k => del_st k s | None => s end
                        else s)
            (seq 0 (List.length mapping)) s.

Section Impl.
Variable cfg : matcher_cfg.
Variable orc : oracle.
Variable mapping : list string.            (* Pattern.Bindings *)
Variable arec : val -> val -> ares.        (* value-against-value matcher used by recall *)

Definition run_op (op : frameop) (m : mstate) : option mstate :=
  match op with
  | OpPush => Some (fst m, 0%N :: snd m)
  | OpPop => match snd m with
             | [] => None
             | f :: rest => Some (pop_state mapping f (fst m), rest)
             end
  | OpMerge => match snd m with
               | [] => None
               | f :: rest =>
                   if cfg_merge_propagates cfg then
                     match rest with
                     | [] => Some (fst m, [])
                     | g :: rest' => Some (fst m, N.lor g f :: rest')
                     end
                   else Some (fst m, rest)
               end
  end.
Fixpoint run_ops (ops : list frameop) (m : mstate) : option mstate :=
  match ops with
  | [] => Some m
  | op :: ops' => match run_op op m with Some m' => run_ops ops' m' | None => None end
  end.

Definition recfn := pat -> val -> mstate -> res mstate.

(* Or.Match *)
Fixpoint or_loop (rec : recfn) (ps : list pat) (r : val) (m : mstate) : res mstate :=
  match ps with
  | [] => RDone false VNil m
  | p :: ps' =>
      match run_ops (cfg_or_pre cfg) m with
      | None => RPanic
      | Some m0 =>
          match rec p r m0 with
          | RDone true v m1 =>
              match run_ops (cfg_or_ok cfg) m1 with Some m2 => RDone true v m2 | None => RPanic end
          | RDone false _ m1 =>
              match run_ops (cfg_or_fail cfg) m1 with Some m2 => or_loop rec ps' r m2 | None => RPanic end
          | e => e
          end
      end
  end.

(* matchNodeAST, field loop *)
Fixpoint fields_loop (rec : recfn) (fs : list (string * pat)) (fsb : list (string * val)) (b : val) (m : mstate)
  : res mstate :=
  match fs with
  | [] => RDone true b m
  | (n, pf) :: fs' =>
      match assoc n fsb with
      | None => RPanic                                   (* "could not find field" *)
      | Some bf =>
          match pf with
          | PNone => if is_vnil bf then RDone true b m else RDone false VNil m   (* ai == nil: return b, bi == nil *)
          | _ => match rec pf bf m with
                 | RDone true _ m1 => fields_loop rec fs' fsb b m1
                 | RDone false _ m1 => RDone false VNil m1
                 | e => e
                 end
          end
      end
  end.

Definition node_match (rec : recfn) (ty : string) (fs : list (string * pat)) (r : val) (m : mstate) : res mstate :=
  match r with
  | VList LOther _ _ => RPanic                            (* default: "unhandled type" *)
  | VList _ _ [x] => rec (PNode ty fs) x m
  | VList _ _ _ => RDone false VNil m
  | VNode tyb fsb => if String.eqb ty tyb then fields_loop rec fs fsb r m else RDone false VNil m
  | VNilPtr _ => RPanic                                   (* reflect.ValueOf(b).Elem().Type() on a nil pointer *)
  | VNil | VStr _ | VTok _ => RDone false VNil m
  | _ => RPanic
  end.

Definition binding_match (rec : recfn) (name : string) (idx : nat) (sub : pat) (r : val) (m : mstate) : res mstate :=
  let store (sub' : pat) :=
    match lookup name (fst m) with
    | Some _ => RPanic                                    (* "binding already created" *)
    | None =>
        match rec sub' r m with
        | RDone true v m1 => match do_set name idx v m1 with Some m2 => RDone true v m2 | None => RPanic end
        | e => e
        end
    end in
  if is_nilpat sub then
    match lookup name (fst m) with
    | Some v => lift_a (arec v r) m                       (* recall: stored value on the left *)
    | None => store PAny
    end
  else store sub.

Definition list_match (rec : recfn) (hd tl : pat) (r : val) (m : mstate) : res mstate :=
  match r with
  | VList k _ l =>
      if is_nilpat hd then (if Nat.eqb (List.length l) 0 then RDone true r m else RDone false VNil m)
      else match l with
           | [] => RDone false VNil m
           | x :: xs =>
               match rec hd x m with
               | RDone ok1 _ m1 =>
                   (* the tail is matched even if the head failed *)
                   match rec tl (VList k false xs) m1 with
                   | RDone ok2 _ m2 => if ok1 && ok2 then RDone true r m2 else RDone false VNil m2
                   | e => e
                   end
               | e => e
               end
           end
  | _ => RDone false VNil m
  end.

Definition not_match (rec : recfn) (p : pat) (r : val) (m : mstate) : res mstate :=
  match run_ops (cfg_not_pre cfg) m with
  | None => RPanic
  | Some m0 =>
      match rec p r m0 with
      | RDone ok _ m1 =>
          match run_ops (cfg_not_post cfg) m1 with
          | Some m2 => if ok then RDone false VNil m2 else RDone true r m2
          | None => RPanic
          end
      | e => e
      end
  end.

Definition ta_match (rec : recfn) (k : string) (arg : pat) (r : val) (m : mstate) : res mstate :=
  let after (rv : val) (m1 : mstate) :=
    match o_ta orc k rv with
    | None => RDone false VNil m1
    | Some (resv, None) => RDone true resv m1
    | Some (resv, Some sv) =>
        match rec arg sv m1 with
        | RDone true _ m2 => RDone true resv m2
        | RDone false _ m2 => RDone false VNil m2
        | e => e
        end
    end in
  match ta_pre k arg with
  | None => after r m
  | Some q => match rec q r m with
              | RDone true rv m1 => after rv m1
              | RDone false _ m1 => RDone false VNil m1
              | e => e
              end
  end.

(* match(m, l, r) with l a pattern node *)
Definition mi_step (rec : recfn) (p : pat) (r : val) (m : mstate) : res mstate :=
  match unwrap (cfg_unwrap_right cfg) r with
  | UPanic => RPanic
  | UTo r' => rec p r' m
  | UNo =>
      match p with
      | PNone => if is_vnil r then RDone true VNil m else RDone false VNil m
      | PAny => RDone true r m
      | PNil => if nil_match r then RDone true VNil m else RDone false VNil m
      | PString s => let '(ok, v) := string_match cfg s r in RDone ok v m
      | PToken t => let '(ok, v) := token_match t r in RDone ok v m
      | PBinding name idx sub => binding_match rec name idx sub r m
      | PList hd tl => list_match rec hd tl r m
      | POr ps => or_loop rec ps r m
      | PNot q => not_match rec q r m
      | PNode ty fs => node_match rec ty fs r m
      | PTypeAware k arg => ta_match rec k arg r m
      end
  end.
End Impl.

Fixpoint mi (cfg : matcher_cfg) (orc : oracle) (mapping : list string) (af fuel : nat) (p : pat) (r : val) (m : mstate)
  : res mstate :=
  match fuel with
  | O => RFuel
  | S f => mi_step cfg orc mapping (am cfg orc af) (mi cfg orc mapping af f) p r m
  end.

(* Matcher.Match: State = {}, push, match, merge, the stack must be empty *)
Definition run_impl (cfg : matcher_cfg) (orc : oracle) (mapping : list string) (af fuel : nat) (p : pat) (t : val)
  : res state :=
  match mi cfg orc mapping af fuel p t ([], [0%N]) with
  | RDone ok v (s, [_]) => RDone ok v s
  | RDone _ _ _ => RPanic
  | RFuel => RFuel
  | RPanic => RPanic
  end.

(* ------------------------------------------------------------------ the reference semantics *)
Section Spec.
Variable cfg : matcher_cfg.
Variable orc : oracle.
Variable arec : val -> val -> ares.

Definition srecfn := pat -> val -> state -> res state.

(* Or: the environment of the first alternative that succeeds; every alternative starts from s *)
Fixpoint s_or (rec : srecfn) (ps : list pat) (r : val) (s : state) : res state :=
  match ps with
  | [] => RDone false VNil s
  | p :: ps' =>
      match rec p r s with
      | RDone true v s1 => RDone true v s1
      | RDone false _ _ => s_or rec ps' r s
      | e => e
      end
  end.

Fixpoint s_fields (rec : srecfn) (fs : list (string * pat)) (fsb : list (string * val)) (b : val) (s : state)
  : res state :=
  match fs with
  | [] => RDone true b s
  | (n, pf) :: fs' =>
      match assoc n fsb with
      | None => RPanic
      | Some bf =>
          match pf with
          | PNone => if is_vnil bf then RDone true b s else RDone false VNil s
          | _ => match rec pf bf s with
                 | RDone true _ s1 => s_fields rec fs' fsb b s1
                 | RDone false _ _ => RDone false VNil s
                 | e => e
                 end
          end
      end
  end.

Definition s_node (rec : srecfn) (ty : string) (fs : list (string * pat)) (r : val) (s : state) : res state :=
  match r with
  | VList LOther _ _ => RPanic
  | VList _ _ [x] => rec (PNode ty fs) x s
  | VList _ _ _ => RDone false VNil s
  | VNode tyb fsb => if String.eqb ty tyb then s_fields rec fs fsb r s else RDone false VNil s
  | VNilPtr _ => RPanic
  | VNil | VStr _ | VTok _ => RDone false VNil s
  | _ => RPanic
  end.

(* a bare name recalls (the stored subtree against the candidate) or binds; a name with a sub-pattern
   extends the environment; binding a bound name again is an error *)
Definition s_binding (rec : srecfn) (name : string) (sub : pat) (r : val) (s : state) : res state :=
  let store (sub' : pat) :=
    match lookup name s with
    | Some _ => RPanic
    | None =>
        match rec sub' r s with
        | RDone true v s1 => RDone true v (set_st name v s1)
        | RDone false _ _ => RDone false VNil s
        | e => e
        end
    end in
  if is_nilpat sub then
    match lookup name s with
    | Some v => lift_a (arec v r) s
    | None => store PAny
    end
  else store sub.

Definition s_list (rec : srecfn) (hd tl : pat) (r : val) (s : state) : res state :=
  match r with
  | VList k _ l =>
      if is_nilpat hd then (if Nat.eqb (List.length l) 0 then RDone true r s else RDone false VNil s)
      else match l with
           | [] => RDone false VNil s
           | x :: xs =>
               match rec hd x s with
               | RDone true _ s1 =>
                   match rec tl (VList k false xs) s1 with
                   | RDone true _ s2 => RDone true r s2
                   | RDone false _ _ => RDone false VNil s
                   | e => e
                   end
               | RDone false _ _ => RDone false VNil s
               | e => e
               end
           end
  | _ => RDone false VNil s
  end.

(* Not p succeeds, with the unchanged environment, iff p fails *)
Definition s_not (rec : srecfn) (p : pat) (r : val) (s : state) : res state :=
  match rec p r s with
  | RDone true _ _ => RDone false VNil s
  | RDone false _ _ => RDone true r s
  | e => e
  end.

Definition s_ta (rec : srecfn) (k : string) (arg : pat) (r : val) (s : state) : res state :=
  let after (rv : val) (s1 : state) :=
    match o_ta orc k rv with
    | None => RDone false VNil s
    | Some (resv, None) => RDone true resv s1
    | Some (resv, Some sv) =>
        match rec arg sv s1 with
        | RDone true _ s2 => RDone true resv s2
        | RDone false _ _ => RDone false VNil s
        | e => e
        end
    end in
  match ta_pre k arg with
  | None => after r s
  | Some q => match rec q r s with
              | RDone true rv s1 => after rv s1
              | RDone false _ _ => RDone false VNil s
              | e => e
              end
  end.

Definition ms_step (rec : srecfn) (p : pat) (r : val) (s : state) : res state :=
  match unwrap (cfg_unwrap_right cfg) r with
  | UPanic => RPanic
  | UTo r' => rec p r' s
  | UNo =>
      match p with
      | PNone => if is_vnil r then RDone true VNil s else RDone false VNil s
      | PAny => RDone true r s
      | PNil => if nil_match r then RDone true VNil s else RDone false VNil s
      | PString str => let '(ok, v) := string_match cfg str r in RDone ok v s
      | PToken t => let '(ok, v) := token_match t r in RDone ok v s
      | PBinding name _ sub => s_binding rec name sub r s
      | PList hd tl => s_list rec hd tl r s
      | POr ps => s_or rec ps r s
      | PNot q => s_not rec q r s
      | PNode ty fs => s_node rec ty fs r s
      | PTypeAware k arg => s_ta rec k arg r s
      end
  end.
End Spec.

Fixpoint ms (cfg : matcher_cfg) (orc : oracle) (af fuel : nat) (p : pat) (r : val) (s : state) : res state :=
  match fuel with
  | O => RFuel
  | S f => ms_step cfg orc (am cfg orc af) (ms cfg orc af f) p r s
  end.
Definition run_spec (cfg : matcher_cfg) (orc : oracle) (af fuel : nat) (p : pat) (t : val) : res state :=
  ms cfg orc af fuel p t [].

(* ------------------------------------------------------------------ the two spellings *)
(* `name` parses to Binding{Name, Node: nil}, `(Binding "name" nil)` to Binding{Name, Node: Nil{}}; the
   matcher treats both through isNil. norm_pat maps the second form to the first. *)
Fixpoint norm_pat (p : pat) : pat :=
  match p with
  | PBinding n i sub => PBinding n i (match sub with PNil => PNone | _ => norm_pat sub end)
  | PList h t => PList (norm_pat h) (norm_pat t)
  | POr ps => POr (map norm_pat ps)
  | PNot q => PNot (norm_pat q)
  | PNode ty fs => PNode ty (map (fun nf => (fst nf, norm_pat (snd nf))) fs)
  | PTypeAware k a => PTypeAware k (norm_pat a)
  | _ => p
  end.

(* ------------------------------------------------------------------ premises of the theorems, executable *)
(* idx_inj: every Binding carries the position of its name in Pattern.Bindings, which has no duplicates
   and at most 64 entries *)
Fixpoint nodup_b (l : list string) : bool :=
  match l with [] => true | x :: r => negb (mem x r) && nodup_b r end.
Fixpoint wf_pat_b (mapping : list string) (p : pat) : bool :=
  match p with
  | PBinding name idx sub =>
      match nth_error mapping idx with Some n => String.eqb n name | None => false end && wf_pat_b mapping sub
  | PList hd tl => wf_pat_b mapping hd && wf_pat_b mapping tl
  | POr ps => (fix go (l : list pat) : bool := match l with [] => true | q :: l' => wf_pat_b mapping q && go l' end) ps
  | PNot q => wf_pat_b mapping q
  | PNode _ fs => (fix go (l : list (string * pat)) : bool :=
                     match l with [] => true | (_, q) :: l' => wf_pat_b mapping q && go l' end) fs
  | PTypeAware _ arg => wf_pat_b mapping arg
  | _ => true
  end.
Definition idx_inj_b (mapping : list string) (p : pat) : bool :=
  nodup_b mapping && Nat.leb (List.length mapping) 64 && wf_pat_b mapping p.

Definition ops_eqb (a b : list frameop) : bool :=
  (fix go (a b : list frameop) : bool :=
     match a, b with
     | [], [] => true
     | x :: a', y :: b' => match x, y with OpPush, OpPush | OpPop, OpPop | OpMerge, OpMerge => go a' b' | _, _ => false end
     | _, _ => false
     end) a b.
(* not_framed and the Or discipline: what the transcribed code shape must be for the theorems *)
Definition cfg_ok (cfg : matcher_cfg) : bool :=
  ops_eqb (cfg_or_pre cfg) [OpPush] && ops_eqb (cfg_or_ok cfg) [OpMerge] && ops_eqb (cfg_or_fail cfg) [OpPop] &&
  ops_eqb (cfg_not_pre cfg) [OpPush] && ops_eqb (cfg_not_post cfg) [OpPop] && cfg_merge_propagates cfg.
