(* C12: executable model of lintcmd/cmd.go: runFromLintResult, mergeRuns and the sort + de-duplication
   part of printDiagnostics, parameterised by the tables of Gen/C12_SortKey.v (sort key, conjuncts of
   diagnostic.equal, fields of diagnostic.descriptor).  Definitions only. *)
From Coq Require Import List ZArith Bool String Ascii.
Import ListNotations.
Require Import Verif.Lib.CmpOrder Verif.Model.C12_Types.
Open Scope Z_scope.

(* lintcmd.diagnostic without fixes/related information (they play no role in merging) *)
Record diag := mkD {
  d_file : string; d_off : Z; d_line : Z; d_col : Z;          (* Position *)
  d_efile : string; d_eoff : Z; d_eline : Z; d_ecol : Z;      (* End *)
  d_cat : string; d_msg : string;
  d_sev : Z; d_mergeif : Z; d_build : string }.

(* lintResult: CheckedFiles, Diagnostics *)
Record run := mkRun { r_checked : list string; r_diags : list diag }.

(* lint(): CheckedFiles of a run = the GoFiles of the packages that were actually analysed:
   named by the patterns (initial), loaded and type-checked (not failed), not skipped as too large *)
Record pkgres := mkPk { pk_initial : bool; pk_failed : bool; pk_skipped : bool; pk_files : list string }.
Definition analysed (p : pkgres) : bool := pk_initial p && negb (pk_failed p) && negb (pk_skipped p).
Definition checked_of (ps : list pkgres) : list string :=
  flat_map (fun p => if analysed p then pk_files p else []) ps.

(* ---- the identity of a problem: (position, end, category, message) ---- *)
Definition pos := (string * Z * Z * Z)%type.
Definition descr := (pos * pos * string * string)%type.
Definition d_pos (d : diag) : pos := (d_file d, d_off d, d_line d, d_col d).
Definition d_end (d : diag) : pos := (d_efile d, d_eoff d, d_eline d, d_ecol d).
Definition descr_of (d : diag) : descr := (d_pos d, d_end d, d_cat d, d_msg d).
Definition descr_file (k : descr) : string := fst (fst (fst (fst (fst (fst k))))).

Definition pos_eqb (a b : pos) : bool :=
  match a, b with (f1, o1, l1, c1), (f2, o2, l2, c2) => String.eqb f1 f2 && (o1 =? o2) && (l1 =? l2) && (c1 =? c2) end.
Definition descr_eqb (a b : descr) : bool :=
  match a, b with (p1, e1, c1, m1), (p2, e2, c2, m2) => pos_eqb p1 p2 && pos_eqb e1 e2 && String.eqb c1 c2 && String.eqb m1 m2 end.

(* strings.ToLower on ASCII *)
Definition lower_ascii (a : ascii) : ascii :=
  let n := nat_of_ascii a in
  if (Nat.leb 65 n && Nat.leb n 90)%bool then ascii_of_nat (n + 32) else a.
Fixpoint lower (s : string) : string :=
  match s with EmptyString => EmptyString | String a r => String (lower_ascii a) (lower r) end.

(* ---- transcription of diagnostic.descriptor / diagnostic.equal from the generated field lists ---- *)
Definition dfield_eqb (f : dfield) (a b : diag) : bool :=
  match f with
  | DPos => pos_eqb (d_pos a) (d_pos b)
  | DEnd => pos_eqb (d_end a) (d_end b)
  | DCat => String.eqb (d_cat a) (d_cat b)
  | DMsg => String.eqb (d_msg a) (d_msg b)
  end.
Definition same_descr (df : list dfield) (a b : diag) : bool := forallb (fun f => dfield_eqb f a b) df.

Definition efield_eqb (f : efield) (a b : diag) : bool :=
  match f with
  | EPos => pos_eqb (d_pos a) (d_pos b)
  | EEnd => pos_eqb (d_end a) (d_end b)
  | EMsg => String.eqb (d_msg a) (d_msg b)
  | ECat => String.eqb (d_cat a) (d_cat b)
  | ECatFolded => String.eqb (lower (d_cat a)) (lower (d_cat b))
  | ESev => d_sev a =? d_sev b
  | EMergeIf => d_mergeif a =? d_mergeif b
  | EBuild => String.eqb (d_build a) (d_build b)
  end.
Definition equal_b (ef : list efield) (a b : diag) : bool := forallb (fun f => efield_eqb f a b) ef.

(* ---- runFromLintResult: map keyed by descriptor, a later entry overwrites an earlier one ---- *)
Definition has_descr (df : list dfield) (d : diag) (l : list diag) : bool := existsb (fun x => same_descr df x d) l.
Fixpoint keep_last (df : list dfield) (l : list diag) : list diag :=
  match l with
  | [] => []
  | d :: r => if has_descr df d r then keep_last df r else d :: keep_last df r
  end.
Definition run_map (df : list dfield) (r : run) : list diag := keep_last df (r_diags r).

(* ---- mergeRuns ---- *)
Definition strategy_of (vany vall : Z) (m : Z) : strategy :=
  if m =? vany then MAny else if m =? vall then MAll else MOther.
Definition mem_string (s : string) (l : list string) : bool := existsb (String.eqb s) l.

Section Merge.
  Variable df : list dfield.
  Variables vany vall : Z.
  (* the body of the loop over r.diagnostics: is [d] appended to relevantDiagnostics? *)
  Definition keep (rs : list run) (d : diag) : bool :=
    match strategy_of vany vall (d_mergeif d) with
    | MAny => true
    | MAll => forallb (fun r' => implb (mem_string (d_file d) (r_checked r')) (has_descr df d (run_map df r'))) rs
    | MOther => false
    end.
  (* map iteration order is unspecified in Go; the list is meaningful as a multiset only *)
  Definition merge_runs (rs : list run) : list diag :=
    flat_map (fun r => filter (keep rs) (run_map df r)) rs.
End Merge.

(* ---- printDiagnostics: sort ---- *)
Definition kcmp (k : kfield) (a b : diag) : comparison :=
  match k with
  | KFile => String.compare (d_file a) (d_file b)
  | KOff => Z.compare (d_off a) (d_off b)
  | KLine => Z.compare (d_line a) (d_line b)
  | KCol => Z.compare (d_col a) (d_col b)
  | KEFile => String.compare (d_efile a) (d_efile b)
  | KEOff => Z.compare (d_eoff a) (d_eoff b)
  | KELine => Z.compare (d_eline a) (d_eline b)
  | KECol => Z.compare (d_ecol a) (d_ecol b)
  | KMsg => String.compare (d_msg a) (d_msg b)
  | KCat => String.compare (d_cat a) (d_cat b)
  | KBuild => String.compare (d_build a) (d_build b)
  | KSev => Z.compare (d_sev a) (d_sev b)
  | KMergeIf => Z.compare (d_mergeif a) (d_mergeif b)
  end.
(* `if X != Y { return X < Y }` ... : lexicographic comparison, most significant field first *)
Definition key_cmp (ks : list kfield) : diag -> diag -> comparison := lexl (map kcmp ks).
(* the closure passed to sort.Slice *)
Definition less (ks : list kfield) (a b : diag) : bool := match key_cmp ks a b with Lt => true | _ => false end.
(* what sort.Slice guarantees for a strict weak order: a permutation in which no element is
   followed by a smaller one.  The executable model uses insertion sort. *)
Definition sorted_by (ks : list kfield) (l : list diag) : Prop :=
  Sorted.StronglySorted (cle (key_cmp ks)) l.
Definition sort_diags (ks : list kfield) (l : list diag) : list diag := isort (key_cmp ks) l.

(* ---- printDiagnostics: the adjacent de-duplication loop ----
   state: `filtered` and `builds`, most recent entry first *)
Definition entry := (diag * list string)%type.
Definition dd_step (ef : list efield) (df : list dfield) (st : list entry) (d : diag) : list entry :=
  match st with
  | [] => [(d, [d_build d])]
  | (e, bs) :: rest =>
      if equal_b ef e d then st
      else if same_descr df e d then (e, d_build d :: bs) :: rest
      else (d, [d_build d]) :: st
  end.
Definition dedupe (ef : list efield) (df : list dfield) (l : list diag) : list entry :=
  rev (fold_left (dd_step ef df) l []).
(* names of builds[i]: keys of a map, sorted with sort.Strings *)
Definition names_of (bs : list string) : list string := isort String.compare (nodup string_dec bs).
Definition finish (e : entry) : entry := (fst e, names_of (snd e)).
Definition print_entries (ks : list kfield) (ef : list efield) (df : list dfield) (l : list diag) : list entry :=
  map finish (dedupe ef df (sort_diags ks l)).

(* strings.Join(names, ",") *)
Fixpoint join (sep : string) (l : list string) : string :=
  match l with
  | [] => EmptyString
  | [x] => x
  | x :: r => (x ++ sep ++ join sep r)%string
  end.

(* ---- obligations on the generated tables (decidable) ---- *)
Definition kfield_eqb (a b : kfield) : bool :=
  match a, b with
  | KFile, KFile | KOff, KOff | KLine, KLine | KCol, KCol | KEFile, KEFile | KEOff, KEOff | KELine, KELine
  | KECol, KECol | KMsg, KMsg | KCat, KCat | KBuild, KBuild | KSev, KSev | KMergeIf, KMergeIf => true
  | _, _ => false
  end.
Definition is_descr_kfield (k : kfield) : bool :=
  match k with KBuild | KSev | KMergeIf => false | _ => true end.
Definition descr_kfields : list kfield := [KFile; KOff; KLine; KCol; KEFile; KEOff; KELine; KECol; KCat; KMsg].
Fixpoint take_while {A} (p : A -> bool) (l : list A) : list A :=
  match l with [] => [] | x :: r => if p x then x :: take_while p r else [] end.
Fixpoint drop_while {A} (p : A -> bool) (l : list A) : list A :=
  match l with [] => [] | x :: r => if p x then drop_while p r else l end.
(* every field of the descriptor is compared before the first field that is not part of it *)
Definition key_ok (ks : list kfield) : bool :=
  forallb (fun f => existsb (kfield_eqb f) (take_while is_descr_kfield ks)) descr_kfields.

Definition efield_eqb_name (a b : efield) : bool :=
  match a, b with
  | EPos, EPos | EEnd, EEnd | EMsg, EMsg | ECat, ECat | ECatFolded, ECatFolded | ESev, ESev
  | EMergeIf, EMergeIf | EBuild, EBuild => true
  | _, _ => false
  end.
Definition emem (f : efield) (l : list efield) := existsb (efield_eqb_name f) l.
(* diagnostic.equal implies same position, end, message, category up to case, and build name *)
Definition equal_ok (ef : list efield) : bool :=
  emem EPos ef && emem EEnd ef && emem EMsg ef && (emem ECat ef || emem ECatFolded ef) && emem EBuild ef.

Definition dfield_eqb_name (a b : dfield) : bool :=
  match a, b with DPos, DPos | DEnd, DEnd | DCat, DCat | DMsg, DMsg => true | _, _ => false end.
Definition dmem (f : dfield) (l : list dfield) := existsb (dfield_eqb_name f) l.
Definition descr_ok (df : list dfield) : bool := dmem DPos df && dmem DEnd df && dmem DCat df && dmem DMsg df.
Definition all_dfields : list dfield := [DPos; DEnd; DCat; DMsg].
Definition strategies_ok (vany vall : Z) : bool := negb (vany =? vall).

(* ---- the specification, free of generated tables ---- *)
(* fixed strategies: 0 = any, 1 = all is NOT assumed; the caller passes the values *)
Definition spec_merge := merge_runs all_dfields.
(* one entry per distinct descriptor (first representative), with the sorted set of build names *)
Fixpoint group_fuel (n : nat) (l : list diag) : list entry :=
  match n, l with
  | S n', d :: r =>
      let same := filter (fun x => descr_eqb (descr_of x) (descr_of d)) r in
      let rest := filter (fun x => negb (descr_eqb (descr_of x) (descr_of d))) r in
      (d, names_of (d_build d :: map d_build same)) :: group_fuel n' rest
  | _, _ => []
  end.
Definition spec_group (l : list diag) : list entry := group_fuel (List.length l) l.

(* the property "each problem is printed exactly once, annotated with exactly the build names under
   which it occurred", for the problems [ds] handed to printDiagnostics and the entries [out] it prints *)
Definition exact_output (ds : list diag) (out : list entry) : Prop :=
  NoDup (map (fun e => descr_of (fst e)) out) /\
  (forall d, In d ds -> exists e, In e out /\ descr_of (fst e) = descr_of d) /\
  (forall e, In e out ->
     In (fst e) ds /\
     Sorted.StronglySorted (clt String.compare) (snd e) /\
     forall b, In b (snd e) <-> exists d, In d ds /\ descr_of d = descr_of (fst e) /\ d_build d = b).

(* category names that differ only in case do not occur together (analyzers are registered under
   their case-folded name, so two such names cannot both be registered) *)
Definition cat_canon (ds : list diag) : Prop :=
  forall a b, In a ds -> In b ds -> lower (d_cat a) = lower (d_cat b) -> d_cat a = d_cat b.
