(* C10: executable model of ignore-directive handling.
     analysis/lint/lint.go:parseDirective        -> parse_directive
     lintcmd/directives.go:parseDirectives       -> parse_directives
     lintcmd/lint.go:lineIgnore.match/fileIgnore.match, filterIgnored (incl. couldHaveMatched) -> filter_ignored
     path/filepath.Match on the restricted class [simple_glob] -> glob_match
     unused/unused.go: graph.entry, the ignores map -> u1000_keys
   Definitions only; proofs are in Proofs/C10.v. *)
From Coq Require Import List ZArith Bool String Ascii.
Import ListNotations.
Open Scope string_scope.

(* ------------------------------------------------------------------ strings *)
Definition lower_ascii (c : ascii) : ascii :=
  let n := N_of_ascii c in
  if (N.leb 65 n && N.leb n 90)%bool then ascii_of_N (n + 32) else c.
(* strings.ToLower on ASCII strings (caseFoldedString) *)
Fixpoint lower (s : string) : string :=
  match s with EmptyString => EmptyString | String c r => String (lower_ascii c) (lower r) end.

(* strings.Split(s, sep) for a one-byte separator: always at least one field *)
Fixpoint split (sep : ascii) (s : string) : list string :=
  match s with
  | EmptyString => [EmptyString]
  | String c r =>
      if Ascii.eqb c sep then EmptyString :: split sep r
      else match split sep r with
           | [] => [String c EmptyString]
           | h :: t => String c h :: t
           end
  end.
Fixpoint join (sep : ascii) (l : list string) : string :=
  match l with
  | [] => EmptyString
  | [x] => x
  | x :: r => x ++ String sep (join sep r)
  end.
Fixpoint has_char (c : ascii) (s : string) : bool :=
  match s with EmptyString => false | String d r => Ascii.eqb c d || has_char c r end.
Fixpoint drop (n : nat) (s : string) : string :=
  match n, s with O, _ => s | S k, String _ r => drop k r | S _, EmptyString => EmptyString end.
Fixpoint concat_all (l : list string) : string :=
  match l with [] => EmptyString | x :: r => x ++ concat_all r end.

Definition space : ascii := " "%char.
Definition comma : ascii := ","%char.
Definition lint_prefix : string := "//lint:".

(* analysis/lint/lint.go:parseDirective.  None = not a directive (no "//lint:" prefix). *)
Definition parse_directive (s : string) : option (string * list string) :=
  if prefix lint_prefix s then
    match split space (drop 7 s) with
    | h :: t => Some (h, t)
    | [] => None
    end
  else None.

(* ------------------------------------------------------------------ globs *)
(* filepath.Match restricted to patterns over letters, digits, '*' and '?' and subjects over letters and digits
   (no '[', '\\', no path separator): '*' any sequence, '?' any single character, anything else itself. *)
Definition is_alnum (c : ascii) : bool :=
  let n := N_of_ascii c in
  ((N.leb 48 n && N.leb n 57) || (N.leb 65 n && N.leb n 90) || (N.leb 97 n && N.leb n 122))%bool.
Definition star : ascii := "*"%char.
Definition qmark : ascii := "?"%char.
Fixpoint all_chars (p : ascii -> bool) (s : string) : bool :=
  match s with EmptyString => true | String c r => p c && all_chars p r end.
(* THE restricted class: the harness generates only such names in its main stream and every case
   evaluation re-checks it; the theorems that speak about the real matcher carry it as a premise. *)
Definition simple_glob (p : string) : bool := all_chars (fun c => is_alnum c || Ascii.eqb c star || Ascii.eqb c qmark) p.
Definition simple_subject (s : string) : bool := all_chars is_alnum s.

Fixpoint glob_match (p : string) : string -> bool :=
  match p with
  | EmptyString => fun s => match s with EmptyString => true | _ => false end
  | String c p' =>
      if Ascii.eqb c star then
        (fix star_loop (s : string) : bool :=
           glob_match p' s || match s with EmptyString => false | String _ s' => star_loop s' end)
      else fun s =>
        match s with
        | EmptyString => false
        | String d s' => (Ascii.eqb c qmark || Ascii.eqb c d) && glob_match p' s'
        end
  end.

(* ------------------------------------------------------------------ data *)
Record pos := mkPos { p_file : string; p_line : Z; p_col : Z }.
Definition pos_eqb (a b : pos) : bool :=
  String.eqb (p_file a) (p_file b) && Z.eqb (p_line a) (p_line b) && Z.eqb (p_col a) (p_col b).

Inductive sev := SevError | SevWarning | SevIgnored.   (* severityError = 0 is the zero value *)
Definition sev_eqb (a b : sev) : bool :=
  match a, b with SevError, SevError | SevWarning, SevWarning | SevIgnored, SevIgnored => true | _, _ => false end.

(* d_rest stands for every other field (End, SuggestedFixes, Related, MergeIf, BuildName): the harness
   stores a fingerprint of them, 0 for all-zero values. *)
Record diag := mkDiag { d_pos : pos; d_cat : string; d_msg : string; d_sev : sev; d_rest : Z }.
Definition diag_eqb (a b : diag) : bool :=
  pos_eqb (d_pos a) (d_pos b) && String.eqb (d_cat a) (d_cat b) && String.eqb (d_msg a) (d_msg b) &&
  sev_eqb (d_sev a) (d_sev b) && Z.eqb (d_rest a) (d_rest b).
Definition set_sev (s : sev) (d : diag) : diag := mkDiag (d_pos d) (d_cat d) (d_msg d) s (d_rest d).

(* runner.SerializedDirective *)
Record sdir := mkDir { sd_cmd : string; sd_args : list string; sd_dpos : pos; sd_npos : pos }.

Inductive ignore :=
| LineIg (file : string) (line : Z) (checks : list string) (dpos : pos)
| FileIg (file : string) (checks : list string).

Definition msg_malformed := "malformed linter directive; missing the required reason field?".
Definition msg_unmatched := "this linter directive didn't match anything; should it be removed?".

(* ------------------------------------------------------------------ parseDirectives *)
Definition is_ignore_cmd (c : string) : bool := String.eqb c "ignore" || String.eqb c "file-ignore".
(* a directive has a reason: at least two arguments and the fields after the first are not all empty *)
Definition has_reason (args : list string) : bool :=
  match args with
  | _ :: r => negb (String.eqb (concat_all r) EmptyString)
  | [] => false
  end.
Definition malformed_diag (d : sdir) : diag := mkDiag (sd_npos d) "compile" msg_malformed SevError 0.
Definition names_of (args : list string) : list string :=
  match args with a :: _ => map lower (split comma a) | [] => [] end.
Definition ignore_of (d : sdir) : ignore :=
  if String.eqb (sd_cmd d) "ignore"
  then LineIg (p_file (sd_npos d)) (p_line (sd_npos d)) (names_of (sd_args d)) (sd_dpos d)
  else FileIg (p_file (sd_npos d)) (names_of (sd_args d)).

Fixpoint parse_directives (dirs : list sdir) : list ignore * list diag :=
  match dirs with
  | [] => ([], [])
  | d :: r =>
      let '(igs, ds) := parse_directives r in
      if is_ignore_cmd (sd_cmd d) then
        if has_reason (sd_args d) then (ignore_of d :: igs, ds) else (igs, malformed_diag d :: ds)
      else (igs, ds)
  end.

(* ------------------------------------------------------------------ filterIgnored *)
Definition names_match (cs : list string) (cat : string) : bool :=
  existsb (fun c => glob_match c (lower cat)) cs.
Definition ig_match (ig : ignore) (d : diag) : bool :=
  match ig with
  | LineIg f l cs _ => String.eqb (p_file (d_pos d)) f && Z.eqb (p_line (d_pos d)) l && names_match cs (d_cat d)
  | FileIg f cs => String.eqb (p_file (d_pos d)) f && names_match cs (d_cat d)
  end.

(* allowedAnalyzers: map from case-folded name to bool, as an association list with distinct keys *)
Definition allowed_t := list (string * bool).
Definition names_u1000 (c : string) : bool := glob_match c "u1000".
Definition enabled_name (allowed : allowed_t) (c : string) : bool :=
  existsb (fun kv => snd kv && glob_match c (fst kv)) allowed.
(* couldHaveMatched: returns at the first decisive name *)
Fixpoint could_have_matched (allowed : allowed_t) (cs : list string) : bool :=
  match cs with
  | [] => false
  | c :: r => if names_u1000 c then false
              else if enabled_name allowed c then true
              else could_have_matched allowed r
  end.

Definition unmatched_diag (p : pos) : diag := mkDiag p "staticcheck" msg_unmatched SevError 0.

Definition apply_ignore (ig : ignore) (ds : list diag) : list diag :=
  map (fun d => if ig_match ig d then set_sev SevIgnored d else d) ds.
Definition unmatched_of (allowed : allowed_t) (ig : ignore) (ds : list diag) : list diag :=
  match ig with
  | LineIg _ _ cs p => if negb (existsb (ig_match ig) ds) && could_have_matched allowed cs then [unmatched_diag p] else []
  | FileIg _ _ => []
  end.
(* the loop `for _, ig := range ignores`: state = (diagnostics, moreDiagnostics) *)
Fixpoint run_ignores (allowed : allowed_t) (igs : list ignore) (ds more : list diag) : list diag * list diag :=
  match igs with
  | [] => (ds, more)
  | ig :: r => run_ignores allowed r (apply_ignore ig ds) (more ++ unmatched_of allowed ig ds)
  end.
Definition filter_ignored (ds : list diag) (dirs : list sdir) (allowed : allowed_t) : list diag :=
  let '(igs, more) := parse_directives dirs in
  let '(ds', more') := run_ignores allowed igs ds more in
  ds' ++ more'.

(* ------------------------------------------------------------------ U1000 (unused.go: ignores map) *)
(* keys: (file, Some line) for //lint:ignore, (file, None) for //lint:file-ignore *)
Definition u1000_named (args : list string) : bool := existsb names_u1000 (names_of args).
Definition u1000_key (d : sdir) : list (string * option Z) :=
  if is_ignore_cmd (sd_cmd d) && has_reason (sd_args d) && u1000_named (sd_args d) then
    [(p_file (sd_npos d), if String.eqb (sd_cmd d) "ignore" then Some (p_line (sd_npos d)) else None)]
  else [].
Definition u1000_keys (dirs : list sdir) : list (string * option Z) := flat_map u1000_key dirs.
Definition key_covers (k : string * option Z) (p : pos) : bool :=
  String.eqb (fst k) (p_file p) && match snd k with None => true | Some l => Z.eqb l (p_line p) end.
(* an object declared at p is a root (counts as used) *)
Definition u1000_ignored (dirs : list sdir) (p : pos) : bool := existsb (fun k => key_covers k p) (u1000_keys dirs).
