(* C12: executable comparison of the model / the specification with what the implementation did.
   Used by cases/C12/*.v written by the harness (vm_compute). *)
From Coq Require Import List ZArith Bool String Ascii.
Import ListNotations.
Require Import Verif.Lib.CmpOrder Verif.Model.C12_Types Verif.Gen.C12_SortKey Verif.Model.C12.
Open Scope Z_scope.

(* what the formatters show of a printed problem: file, line, column, end (json only), category,
   message, joined build names (text only).  Offsets are never printed. *)
Definition view := (string * Z * Z * (string * Z * Z) * string * string * string)%type.
Definition view_of_entry (e : entry) : view :=
  let d := fst e in
  (d_file d, d_line d, d_col d, (d_efile d, d_eline d, d_ecol d), d_cat d, d_msg d, join "," (snd e)).
Definition view_eqb (a b : view) : bool :=
  match a, b with
  | (f1, l1, c1, (ef1, el1, ec1), k1, m1, b1), (f2, l2, c2, (ef2, el2, ec2), k2, m2, b2) =>
      String.eqb f1 f2 && (l1 =? l2) && (c1 =? c2) && String.eqb ef1 ef2 && (el1 =? el2) && (ec1 =? ec2)
      && String.eqb k1 k2 && String.eqb m1 m2 && String.eqb b1 b2
  end.
Inductive obs := OFull | OText | OJson.
Definition proj (o : obs) (v : view) : view :=
  match o, v with
  | OFull, _ => v
  | OText, (f, l, c, _, k, m, b) => (f, l, c, (EmptyString, 0, 0), k, m, b)
  | OJson, (f, l, c, e, k, m, _) => (f, l, c, e, k, m, EmptyString)
  end.

Fixpoint remove1 {A} (eqb : A -> A -> bool) (x : A) (l : list A) : option (list A) :=
  match l with
  | [] => None
  | y :: r => if eqb x y then Some r else match remove1 eqb x r with Some r' => Some (y :: r') | None => None end
  end.
Fixpoint mset_eqb {A} (eqb : A -> A -> bool) (l1 l2 : list A) : bool :=
  match l1 with
  | [] => match l2 with [] => true | _ => false end
  | x :: r => match remove1 eqb x l2 with Some l2' => mset_eqb eqb r l2' | None => false end
  end.

(* what the property says about a merged problem: its identity and the build it comes from
   (severity is not compared: which of several entries of one run with the same descriptor survives
   is not part of the property) *)
Definition diag_eqb (a b : diag) : bool :=
  pos_eqb (d_pos a) (d_pos b) && pos_eqb (d_end a) (d_end b) && String.eqb (d_cat a) (d_cat b)
  && String.eqb (d_msg a) (d_msg b) && String.eqb (d_build a) (d_build b).

Record case := mkCase {
  c_runs : list run;
  c_merged : option (list diag);        (* what mergeRuns returned (in-process cases) *)
  c_obs : list (obs * list view);       (* what printDiagnostics printed, per kind of observation *)
  c_obs_checked : option (list (list string))  (* CheckedFiles of the real lintResult of every run (runs of the real linter);
                                                  the runs in c_runs then carry the EXPECTED checked files, checked_of *)
}.

Inductive diffkind := DMerged | DPrinted (o : obs) | DChecked.

(* the PROPERTY evaluated on the implementation's observable behaviour (no generated table involved
   except the numeric values of the two strategies) *)
Definition spec_problems (c : case) : list diag := spec_merge gen_merge_any gen_merge_all (c_runs c).
Definition spec_views (c : case) : list view := map view_of_entry (spec_group (spec_problems c)).
Definition set_eqb (a b : list string) : bool :=
  forallb (fun x => mem_string x b) a && forallb (fun x => mem_string x a) b.
Fixpoint all2 {A B} (f : A -> B -> bool) (l1 : list A) (l2 : list B) : bool :=
  match l1, l2 with [], [] => true | x :: r1, y :: r2 => f x y && all2 f r1 r2 | _, _ => false end.
Definition checked_diff (c : case) : list diffkind :=
  match c_obs_checked c with
  | Some o => if all2 set_eqb (map r_checked (c_runs c)) o then [] else [DChecked]
  | None => []
  end.
Definition case_violation (c : case) : list diffkind :=
  checked_diff c ++
  (match c_merged c with
   | Some m => if mset_eqb diag_eqb m (spec_problems c) then [] else [DMerged]
   | None => []
   end) ++
  flat_map (fun ov => if mset_eqb view_eqb (snd ov) (map (proj (fst ov)) (spec_views c)) then [] else [DPrinted (fst ov)])
           (c_obs c).

(* the transcription of the code (generated sort key / equal / descriptor) vs the implementation *)
Definition model_problems (c : case) : list diag := merge_runs gen_descr_fields gen_merge_any gen_merge_all (c_runs c).
Definition case_mismatch (c : case) : list diffkind :=
  let printed_from := match c_merged c with Some m => m | None => model_problems c end in
  let mv := map view_of_entry (print_entries gen_sort_key gen_equal_fields gen_descr_fields printed_from) in
  (match c_merged c with
   | Some m => if mset_eqb diag_eqb m (model_problems c) then [] else [DMerged]
   | None => []
   end) ++
  flat_map (fun ov => if mset_eqb view_eqb (snd ov) (map (proj (fst ov)) mv) then [] else [DPrinted (fst ov)])
           (c_obs c).

Definition numbered {A} (f : case -> list A) (cases : list case) : list (nat * list A) :=
  filter (fun x => match snd x with [] => false | _ => true end)
         (combine (seq 0 (List.length cases)) (map f cases)).
Definition mismatches cases := numbered case_mismatch cases.
Definition violations cases := numbered case_violation cases.

(* ---- search for a counterexample of build_names_exact over small inputs ----
   pool: one position and file, 2 messages x 2 categories x 2 ends x 2 build names; inputs are the
   subsets of the pool with at most three elements (as handed to printDiagnostics) *)
Definition pool_diag (i : nat) : diag :=
  let b0 := Nat.odd i in let b1 := Nat.odd (Nat.div2 i) in
  let b2 := Nat.odd (Nat.div2 (Nat.div2 i)) in let b3 := Nat.odd (Nat.div2 (Nat.div2 (Nat.div2 i))) in
  mkD "p.go" 0 3 1 "p.go" 0 3 (if b2 then 5 else 9)
      (if b1 then "SA1000" else "SA4006") (if b3 then "m1" else "m0") 0 gen_merge_any (if b0 then "linux" else "darwin").
Definition small_inputs : list (list nat) :=
  let ix := seq 0 16 in
  map (fun i => [i]) ix ++
  flat_map (fun i => map (fun j => [i; j]) (filter (Nat.ltb i) ix)) ix ++
  flat_map (fun i => flat_map (fun j => map (fun k => [i; j; k]) (filter (Nat.ltb j) ix)) (filter (Nat.ltb i) ix)) ix.
Definition entry_views_ok (out spec : list entry) : bool :=
  mset_eqb view_eqb (map view_of_entry out) (map view_of_entry spec).
Definition find_cex (ks : list kfield) (ef : list efield) (df : list dfield) : list (list nat) :=
  filter (fun ixs => let ds := map pool_diag ixs in
                     negb (entry_views_ok (print_entries ks ef df ds) (spec_group ds))
                     || negb (entry_views_ok (print_entries ks ef df (rev ds)) (spec_group ds)))
         small_inputs.
