(* C17 — executable comparison of the model with what the implementation did (cases/C17/*.v, vm_compute).
   Definitions only. *)
From Coq Require Import List NArith Bool.
Import ListNotations.
Require Import Verif.Model.C17_Graph Verif.Model.C17_Merge.
Open Scope N_scope.

(* a node map given as a list: node i of the first graph |-> nth i pi in the second *)
Definition pif (pi : list N) (x : N) : N := nth (N.to_nat x) pi 0.

Definition sub_edges_b (c1 c2 : cgraph) (pi : list N) : bool :=
  forallb (fun i =>
     forallb (fun y => memN (pif pi y) (cuses c2 (pif pi i))) (cuses c1 i) &&
     forallb (fun y => memN (pif pi y) (cowns c2 (pif pi i))) (cowns c1 i))
    (all_nodes (N.of_nat (length c1))).

(* pi is a graph homomorphism c1 -> c2 fixing the root (every use/own edge of c1 is an edge of c2) *)
Definition hom_b (c1 c2 : cgraph) (pi : list N) : bool :=
  Nat.eqb (length pi) (length c1) && forallb (fun y => y <? N.of_nat (length c2)) pi &&
  (pif pi 0 =? 0) && cgraph_wf c1 && cgraph_wf c2 && sub_edges_b c1 c2 pi.

Definition inverse_b (n : nat) (pi pinv : list N) : bool :=
  forallb (fun i => pif pinv (pif pi i) =? i) (all_nodes (N.of_nat n)).

(* pi / pinv is an isomorphism of the two graphs as labelled edge SETS *)
Definition iso_b (c1 c2 : cgraph) (pi pinv : list N) : bool :=
  hom_b c1 c2 pi && hom_b c2 c1 pinv && inverse_b (length c1) pi pinv && inverse_b (length c2) pinv pi.

Definition verdicts_agree_b (c1 c2 : cgraph) (pi : list N) : bool :=
  let v1 := verdicts (of_cgraph c1) in let v2 := verdicts (of_cgraph c2) in
  forallb (fun i => verdict_eqb (nth (N.to_nat i) v1 Unused) (nth (N.to_nat (pif pi i)) v2 Unused))
          (all_nodes (N.of_nat (length c1))).
Definition used_preserved_b (c1 c2 : cgraph) (pi : list N) : bool :=
  let v1 := verdicts (of_cgraph c1) in let v2 := verdicts (of_cgraph c2) in
  forallb (fun i => negb (verdict_eqb (nth (N.to_nat i) v1 Unused) Used) ||
                    verdict_eqb (nth (N.to_nat (pif pi i)) v2 Unused) Used)
          (all_nodes (N.of_nat (length c1))).

(* label sets (position-independent object identities interned by the harness) *)
Definition subset_b (a b : list N) : bool := forallb (fun x => memN x b) a.
Definition seteq_b (a b : list N) : bool := subset_b a b && subset_b b a.

Definition list_eqb (a b : list N) : bool :=
  Nat.eqb (length a) (length b) && forallb (fun p => fst p =? snd p) (combine a b).

(* ---- case kinds ---- *)
(* A: one exported graph and unused.Result as three label lists: model = implementation? *)
Record caseA := mkA { a_graph : labelled; a_used : list N; a_unused : list N; a_quiet : list N }.
Definition caseA_ok (c : caseA) : bool :=
  cgraph_wf (strip (a_graph c)) &&
  match results (a_graph c) with (u, un, q) =>
    list_eqb u (a_used c) && list_eqb un (a_unused c) && list_eqb q (a_quiet c) end.

(* P: a package and a permutation of it (or a repeated analysis): graphs, node correspondence, and the observed
      Unused/Used sets as position-independent labels *)
Record caseP := mkP { p_g1 : cgraph; p_g2 : cgraph; p_pi : list N; p_pinv : list N;
                      p_unused1 : list N; p_unused2 : list N; p_used1 : list N; p_used2 : list N }.
Inductive pdiff := PGraphsDiffer | PModelVerdictsDiffer | PObservedUnusedDiffer | PObservedUsedDiffer.
Definition caseP_mismatch (c : caseP) : list pdiff :=
  (if iso_b (p_g1 c) (p_g2 c) (p_pi c) (p_pinv c) then [] else [PGraphsDiffer]) ++
  (if verdicts_agree_b (p_g1 c) (p_g2 c) (p_pi c) then [] else [PModelVerdictsDiffer]).
Definition caseP_violation (c : caseP) : list pdiff :=
  (if seteq_b (p_unused1 c) (p_unused2 c) then [] else [PObservedUnusedDiffer]) ++
  (if seteq_b (p_used1 c) (p_used2 c) then [] else [PObservedUsedDiffer]).

(* M: a package and the same package with one reference added inside used code *)
Record caseM := mkM { m_g1 : cgraph; m_g2 : cgraph; m_pi : list N; m_used1 : list N; m_used2 : list N }.
Inductive mdiff := MEdgesLost | MModelUsedLost | MObservedUsedLost.
Definition caseM_mismatch (c : caseM) : list mdiff :=
  (if hom_b (m_g1 c) (m_g2 c) (m_pi c) then [] else [MEdgesLost]) ++
  (if used_preserved_b (m_g1 c) (m_g2 c) (m_pi c) then [] else [MModelUsedLost]).
Definition caseM_violation (c : caseM) : list mdiff :=
  if subset_b (m_used1 c) (m_used2 c) then [] else [MObservedUsedLost].

(* V: per-variant results of the runner and the U1000 problems printed by the CLI for the same packages *)
Record caseV := mkV { v_results : list vresult; v_cli : list problem }.
Definition caseV_missing (c : caseV) : list problem := set_diff (predicted (v_results c)) (v_cli c).
Definition caseV_extra (c : caseV) : list problem := set_diff (v_cli c) (predicted (v_results c)).
(* the property itself, on the observed output: every printed problem belongs to an object that some enabled variant
   lists unused and no variant lists used; and every such object is printed *)
Definition caseV_violation (c : caseV) : list problem :=
  set_diff (v_cli c) (map problem_of (merge_spec (v_results c))) ++
  set_diff (map problem_of (merge_spec (v_results c))) (v_cli c).

(* ---- one package = one bundle: every exported graph once, cases refer to graphs by index ---- *)
Record gcase := mkG {
  g_graph : labelled;
  g_res1 : list N * list N * list N;     (* (Used, Unused, Quiet) returned by the analyzer's Run *)
  g_res2 : list N * list N * list N      (* Results() over the exported nodes (second construction of the graph) *)
}.
Record permref := mkPR { pr_i : nat; pr_j : nat; pr_pi : list N; pr_pinv : list N;
                         pr_un1 : list N; pr_un2 : list N; pr_us1 : list N; pr_us2 : list N }.
Record monoref := mkMR { mr_i : nat; mr_j : nat; mr_pi : list N; mr_us1 : list N; mr_us2 : list N }.
Record bundle := mkB { b_graphs : list gcase; b_perms : list permref; b_monos : list monoref }.

Definition res_eqb (a b : list N * list N * list N) : bool :=
  match a, b with (u1, n1, q1), (u2, n2, q2) => list_eqb u1 u2 && list_eqb n1 n2 && list_eqb q1 q2 end.
Definition gcase_ok (c : gcase) : bool :=
  cgraph_wf (strip (g_graph c)) &&
  let r := results (g_graph c) in res_eqb r (g_res1 c) && res_eqb r (g_res2 c).
Definition graph_at (b : bundle) (i : nat) : cgraph := strip (g_graph (nth i (b_graphs b) (mkG [] ([],[],[]) ([],[],[])))).
Definition perm_case (b : bundle) (r : permref) : caseP :=
  mkP (graph_at b (pr_i r)) (graph_at b (pr_j r)) (pr_pi r) (pr_pinv r) (pr_un1 r) (pr_un2 r) (pr_us1 r) (pr_us2 r).
Definition mono_case (b : bundle) (r : monoref) : caseM :=
  mkM (graph_at b (mr_i r)) (graph_at b (mr_j r)) (mr_pi r) (mr_us1 r) (mr_us2 r).

Inductive diag := DGraph (i : nat) | DPerm (k : nat) (d : pdiff) | DMono (k : nat) (d : mdiff).
Definition indexed {A} (l : list A) : list (nat * A) := combine (seq 0 (length l)) l.
Definition bundle_mismatch (b : bundle) : list diag :=
  flat_map (fun ic => if gcase_ok (snd ic) then [] else [DGraph (fst ic)]) (indexed (b_graphs b)) ++
  flat_map (fun kr => map (DPerm (fst kr)) (caseP_mismatch (perm_case b (snd kr)))) (indexed (b_perms b)) ++
  flat_map (fun kr => map (DMono (fst kr)) (caseM_mismatch (mono_case b (snd kr)))) (indexed (b_monos b)).
Definition bundle_violation (b : bundle) : list diag :=
  flat_map (fun kr => map (DPerm (fst kr)) (caseP_violation (perm_case b (snd kr)))) (indexed (b_perms b)) ++
  flat_map (fun kr => map (DMono (fst kr)) (caseM_violation (mono_case b (snd kr)))) (indexed (b_monos b)).

Definition numbered {A B} (f : A -> list B) (cs : list A) : list (nat * list B) :=
  filter (fun x => match snd x with [] => false | _ => true end) (combine (seq 0 (length cs)) (map f cs)).
Definition failingA (cs : list caseA) : list nat :=
  map fst (filter (fun x => negb (caseA_ok (snd x))) (combine (seq 0 (length cs)) cs)).
