(* C18: abstract lock/table operations extracted from go/ir by genmodel (Gen/C18_LockTraces.v). *)
From Coq Require Import String List.

(* [b] is the printed base expression the field is selected from (prog, gen, c, mset ...),
   [m] a mutex field, [f] a guarded table field. *)
Inductive op :=
| Lock (b m : string)
| Unlock (b m : string)
| DeferUnlock (b m : string)     (* defer b.m.Unlock(): the lock stays held to the end of the unit *)
| Read (b f : string)
| Write (b f : string).
