(* C17 — the source shape the models in C17_Graph.v / C17_Merge.v were transcribed from.
   genmodel/c17.go re-extracts the same items from /repo on every run (coq/Gen/C17_LintShape.v); Props/C17.v compares.
   Definitions only. *)
From Coq Require Import String List Bool.
Import ListNotations.
Local Open Scope string_scope.

Fixpoint lseqb (a b : list string) : bool :=
  match a, b with
  | [], [] => true
  | x :: a', y :: b' => String.eqb x y && lseqb a' b'
  | _, _ => false
  end.

(* key_of in C17_Merge.v: (pkgPath, basename file, line, name) *)
Definition model_key_fields : list string :=
  ["pkgPath string";
   "base string";
   "line int";
   "name string"].
Definition model_key_literals : list string :=
  ["in lint: pkgPath := res.Package.PkgPath; base := filepath.Base(obj.Position.Filename); line := obj.Position.Line; name := obj.Name";
   "in lint: pkgPath := res.Package.PkgPath; base := filepath.Base(obj.Position.Filename); line := obj.Position.Line; name := obj.Name"].
(* step_used / step_unused / merge_impl in C17_Merge.v *)
Definition model_merge_shape : list string :=
  ["range resd.Unused.Used";
   "set used[key] = true";
   "if allowedAnalyzers[makeCaseFoldedString(""U1000"")]";
   "range resd.Unused.Unused";
   "append unuseds = append(unuseds, unusedPair{key, obj})";
   "if _, ok := used[key]; !ok";
   "set used[key] = false";
   "range unuseds";
   "if used[uo.key] continue"].
(* dfs / quiet_set / results in C17_Graph.v *)
Definition model_color_shape : list string :=
  ["func color";
   "assign root := g.nodes[rootID]";
   "if states[rootID].seen()";
   "return";
   "assign states[rootID] |= nodeStateSeen";
   "range root.uses";
   "call g.color(n, states)";
   "func colorAndQuieten";
   "assign states := make([]nodeState, len(g.nodes)+1)";
   "call g.color(0, states)";
   "assign quieten = func(id NodeID) { states[id] |= nodeStateQuiet for _, owned := range g.nodes[id].owns { quieten(owned) } }";
   "assign states[id] |= nodeStateQuiet";
   "range g.nodes[id].owns";
   "call quieten(owned)";
   "range g.nodes";
   "if states[n.id].seen()";
   "continue";
   "range n.owns";
   "call quieten(owned)";
   "return states";
   "func Results";
   "assign states := g.colorAndQuieten()";
   "range g.nodes[1:]";
   "assign state := states[n.id]";
   "if state.seen() else";
   "assign res.Used = append(res.Used, n.obj)";
   "if state.quiet() else";
   "assign res.Quiet = append(res.Quiet, n.obj)";
   "assign res.Unused = append(res.Unused, n.obj)";
   "return res"].

(* the package component of the key is the package path *)
Definition ends_with (suffix s : string) : bool :=
  let n := String.length s in let k := String.length suffix in
  Nat.leb k n && String.eqb (substring (n - k) k s) suffix.
Definition key_pkg_is_path (components : list string) : bool :=
  match components with [] => false | _ => forallb (ends_with ".PkgPath") components end.

Definition shape_ok (key_fields key_literals merge_shape color_shape : list string) : bool :=
  lseqb key_fields model_key_fields && lseqb key_literals model_key_literals &&
  lseqb merge_shape model_merge_shape && lseqb color_shape model_color_shape.
