(* C02 — built IR is well-formed, strictly dominated, consistently typed SSA.
   Definitions only: the serialised form of a function built by go/ir (see harness/hx/irser.go) and
   the executable validator [wf_ssa].  The builder, the lifter and the block optimiser are NOT modelled;
   their output is validated.  Nothing here is derived from go/ir/sanity.go. *)
From Coq Require Import List NArith Bool.
Import ListNotations.
Require Import Verif.Lib.Graphs.
Local Open Scope N_scope.

(* ------------------------------------------------------------------ serialised IR *)
Inductive kind :=
| KAlloc | KPhi | KCall | KBinOp | KUnOp | KLoad | KChangeType | KConvert | KMultiConvert
| KChangeInterface | KSliceToArrayPointer | KSliceToArray | KMakeInterface | KMakeClosure | KMakeMap
| KMakeChan | KMakeSlice | KSlice | KFieldAddr | KField | KIndexAddr | KIndex | KMapLookup
| KStringLookup | KSelect | KRange | KNext | KTypeAssert | KExtract | KCompositeValue | KTypeSwitch
| KJump | KUnreachable | KIf | KConstantSwitch | KReturn | KPanic
| KRunDefers | KGo | KDefer | KSend | KRecv | KStore | KBlankStore | KMapUpdate | KDebugRef
| KOther        (* an instruction kind this model does not know: no typing rule, not a terminator *)
| KBad.         (* nil instruction slot, or Instruction.Block() does not point to the containing block *)

(* reference to a value used as an operand *)
Inductive vref :=
| VI (seq : N)   (* value defined by the instruction with this sequence number, same function *)
| VP (i : N)     (* i-th Parameter of this function *)
| VF (i : N)     (* i-th FreeVar of this function *)
| VA (i : N)     (* i-th anonymous function nested directly in this function *)
| VC | VG | VFn | VB   (* Const/AggregateConst, Global, named Function, Builtin: no position, no referrer list *)
| VN             (* nil operand (absent optional operand, default branch of a ConstantSwitch) *)
| VX.            (* instruction, parameter, free variable or closure belonging to ANOTHER function *)

Record instr := mkI {
  i_seq : N;                 (* position in block order *)
  i_id : N;                  (* Instruction.ID() *)
  i_kind : kind;
  i_ops : list (vref * N);   (* Operands(): value and the type id of the value *)
  i_refs : option (list N);  (* Referrers() as sequence numbers (>= total = not in the function); None = nil *)
  i_ty : N;                  (* type id of the defined value (0 = not a value) *)
  i_aux : list N             (* kind specific, see irser.go *)
}.
Record block := mkB { b_index : N; b_preds : list N; b_succs : list N; b_instrs : list instr }.
Record local := mkL { l_ty : N; l_refs : list N }.
Record func := mkF {
  f_blocks : list block;
  f_rec : option N;
  f_params : list local;
  f_free : list local;
  f_anons : list local;
  f_results : list N          (* result types of the function's signature *)
}.

Inductive tkind := TBasic | TNamed | TTParam | TPointer | TSlice | TArray | TMap | TChan | TStruct | TTuple
                 | TSig | TIface | TUnion | TOpaque | TOther.
Record tyinfo := mkT {
  t_kind : tkind; t_under : N; t_core : N; t_elem : N; t_key : N;
  t_fields : list N; t_params : list N; t_results : list N; t_variadic : bool; t_flags : N
}.
Definition tytable := list tyinfo.     (* id k (1-based) is the k-th entry; id 0 = no type *)

(* ------------------------------------------------------------------ small helpers *)
Definition kind_eqb (a b : kind) : bool :=
  match a, b with
  | KAlloc, KAlloc | KPhi, KPhi | KCall, KCall | KBinOp, KBinOp | KUnOp, KUnOp | KLoad, KLoad
  | KChangeType, KChangeType | KConvert, KConvert | KMultiConvert, KMultiConvert
  | KChangeInterface, KChangeInterface | KSliceToArrayPointer, KSliceToArrayPointer | KSliceToArray, KSliceToArray
  | KMakeInterface, KMakeInterface | KMakeClosure, KMakeClosure | KMakeMap, KMakeMap | KMakeChan, KMakeChan
  | KMakeSlice, KMakeSlice | KSlice, KSlice | KFieldAddr, KFieldAddr | KField, KField | KIndexAddr, KIndexAddr
  | KIndex, KIndex | KMapLookup, KMapLookup | KStringLookup, KStringLookup | KSelect, KSelect | KRange, KRange
  | KNext, KNext | KTypeAssert, KTypeAssert | KExtract, KExtract | KCompositeValue, KCompositeValue
  | KTypeSwitch, KTypeSwitch | KJump, KJump | KUnreachable, KUnreachable | KIf, KIf
  | KConstantSwitch, KConstantSwitch | KReturn, KReturn | KPanic, KPanic | KRunDefers, KRunDefers | KGo, KGo
  | KDefer, KDefer | KSend, KSend | KRecv, KRecv | KStore, KStore | KBlankStore, KBlankStore
  | KMapUpdate, KMapUpdate | KDebugRef, KDebugRef | KOther, KOther | KBad, KBad => true
  | _, _ => false
  end.

Definition is_terminator (k : kind) : bool :=
  match k with KJump | KUnreachable | KIf | KConstantSwitch | KReturn | KPanic => true | _ => false end.

Definition vref_eqb (a b : vref) : bool :=
  match a, b with
  | VI x, VI y | VP x, VP y | VF x, VF y | VA x, VA y => x =? y
  | _, _ => false          (* values without a referrer list are never compared *)
  end.

Fixpoint count (x : N) (l : list N) : N :=
  match l with [] => 0 | y :: t => if x =? y then N.succ (count x t) else count x t end.

Definition nth_N {A} (k : N) (l : list A) (d : A) : A := nth (N.to_nat k) l d.
Definition len_N {A} (l : list A) : N := N.of_nat (length l).

Definition all_instrs (f : func) : list instr := flat_map b_instrs (f_blocks f).
Definition cfg_of (f : func) : graph := map b_succs (f_blocks f).

(* ------------------------------------------------------------------ failing clauses *)
Inductive clause :=
| CNumbering                  (* sequence numbers are not the positions / Instruction.ID() not unique *)
| CBlockIndex (b : N)         (* BasicBlock.Index differs from the position in Blocks *)
| CBadInstr (s : N)           (* nil slot or Block() mismatch *)
| CTerminator (b : N)         (* block empty, last instruction not a terminator, terminator inside, or arity mismatch *)
| CPhiShape (b : N)           (* phi after a non-phi, or number of edges differs from number of predecessors *)
| CPredSucc (b : N)           (* Preds/Succs are not mutual inverses as multisets *)
| CGraph                      (* edge out of range, unreachable block, recover block reachable from entry *)
| CScope (s : N)              (* operand is not a value of this function *)
| CReferrers (s : N)          (* operands/referrers of the value defined at s are not mutual inverses *)
| CLocalReferrers (k i : N)   (* ... of parameter (k=0) / free variable (1) / anonymous function (2) number i *)
| CDominance (s : N)          (* a definition does not dominate the use at s *)
| CType (s : N).              (* typing rule of the instruction at s violated *)

(* ------------------------------------------------------------------ structure *)
Definition nodes_of (f : func) : list N := node_list (cfg_of f).
Definition is_value (i : instr) : bool := match i_refs i with Some _ => true | None => false end.

Definition numbering_ok (f : func) : bool :=
  let ins := all_instrs f in
  (fix go (k : N) (l : list instr) : bool :=
     match l with [] => true | i :: t => (i_seq i =? k) && go (N.succ k) t end) 0 ins.

Fixpoint nodupN (l : list N) : bool :=
  match l with [] => true | y :: t => (count y t =? 0) && nodupN t end.

Definition arity_ok (i : instr) (nsucc : N) : bool :=
  match i_kind i with
  | KJump => nsucc =? 1
  | KIf => nsucc =? 2
  | KReturn | KPanic | KUnreachable => nsucc =? 0
  | KConstantSwitch => N.succ nsucc =? len_N (i_ops i)     (* operands = Tag :: Conds *)
  | _ => false
  end.

Fixpoint terminator_ok (l : list instr) (nsucc : N) : bool :=
  match l with
  | [] => false
  | [i] => is_terminator (i_kind i) && arity_ok i nsucc
  | i :: t => negb (is_terminator (i_kind i)) && terminator_ok t nsucc
  end.

(* phis lead the block and have one edge per predecessor *)
Fixpoint phi_shape_ok (l : list instr) (npred : N) (seen_nonphi : bool) : bool :=
  match l with
  | [] => true
  | i :: t =>
    if kind_eqb (i_kind i) KPhi
    then negb seen_nonphi && (len_N (i_ops i) =? npred) && phi_shape_ok t npred false
    else phi_shape_ok t npred true
  end.

Definition predsucc_ok (f : func) (b : N) (bl : block) : bool :=
  let blocks := f_blocks f in
  let n := len_N blocks in
  forallb (fun c => (c <? n) && (count c (b_succs bl) =? count b (b_preds (nth_N c blocks (mkB 0 [] [] []))))) (b_succs bl) &&
  forallb (fun a => (a <? n) && (count a (b_preds bl) =? count b (b_succs (nth_N a blocks (mkB 0 [] [] []))))) (b_preds bl).

(* ------------------------------------------------------------------ def/use *)

(* location table: sequence number -> ((block, index in block), defines a value) *)
Fixpoint number_from {A} (k : N) (l : list A) : list (N * A) :=
  match l with [] => [] | a :: t => (k, a) :: number_from (N.succ k) t end.
(* every instruction with its program point *)
Definition ipoints (f : func) : list (N * N * instr) :=
  flat_map (fun nb => map (fun ki => (fst nb, fst ki, snd ki)) (number_from 0 (b_instrs (snd nb))))
           (number_from 0 (f_blocks f)).
Definition locs (f : func) : list (N * N * bool) :=
  map (fun p => (fst (fst p), snd (fst p), is_value (snd p))) (ipoints f).
Definition loc_of (lc : list (N * N * bool)) (s : N) : N * N := fst (nth_N s lc (0, 0, false)).

Definition scope_ok (f : func) (lc : list (N * N * bool)) (total : N) (i : instr) : bool :=
  forallb (fun op =>
    match fst op with
    | VI s => (s <? total) && snd (nth_N s lc (0, 0, false))
    | VP k => k <? len_N (f_params f)
    | VF k => k <? len_N (f_free f)
    | VA k => k <? len_N (f_anons f)
    | VX => false
    | _ => true
    end) (i_ops i).

(* all (value, user) pairs of the function *)
Definition use_pairs (f : func) : list (vref * N) :=
  flat_map (fun i => map (fun op => (fst op, i_seq i)) (i_ops i)) (all_instrs f).

Definition users_of (v : vref) (pairs : list (vref * N)) : list N :=
  map snd (filter (fun p => vref_eqb v (fst p)) pairs).

Definition same_multiset (a b : list N) : bool :=
  forallb (fun x => count x a =? count x b) (a ++ b).

Definition refs_ok (total : N) (pairs : list (vref * N)) (v : vref) (refs : list N) : bool :=
  forallb (fun r => r <? total) refs && same_multiset refs (users_of v pairs).

(* def dominates use.
   Control reaches the Recover block only through a recovered panic, i.e. after a Defer (or a Call, which
   may run a range-over-func body that defers onto this function's stack) has been executed.  So a
   definition in the entry region may be used in the recover region iff it is executed before every
   such instruction of the entry region ([dpts]); everything else is plain dominance with respect to the
   root of the use's region (rows = reference matrix of Lib/Graphs.v, E = blocks reachable from entry). *)
Definition defer_like (k : kind) : bool := match k with KDefer | KCall => true | _ => false end.
Definition defer_points (f : func) (E : N) : list (N * N) :=
  flat_map (fun p => if defer_like (i_kind (snd p)) && N.testbit E (fst (fst p)) then [fst p] else []) (ipoints f).

(* is the definition at point (D,k) available at the END of... / strictly before index j of block B *)
Definition avail (rows : list N) (E : N) (dpts : list (N * N)) (D k B : N) : bool :=
  N.testbit (row rows D) B ||
  (negb (N.testbit E B) && N.testbit E D &&
   forallb (fun q => if D =? fst q then k <? snd q else N.testbit (row rows D) (fst q)) dpts).

Definition dom_use_ok (rows : list N) (E : N) (dpts : list (N * N)) (lc : list (N * N * bool))
                      (b j : N) (bl : block) (i : instr) : bool :=
  if kind_eqb (i_kind i) KPhi then
    forallb (fun op_p =>
      match fst (fst op_p) with
      | VI d => let '(D, k) := loc_of lc d in (D =? snd op_p) || avail rows E dpts D k (snd op_p)
      | _ => true
      end) (combine (i_ops i) (b_preds bl))
  else
    forallb (fun op =>
      match fst op with
      | VI d => let '(D, k) := loc_of lc d in
                if D =? b then k <? j else avail rows E dpts D k b
      | _ => true
      end) (i_ops i).

(* ------------------------------------------------------------------ typing *)
Definition no_type : tyinfo := mkT TOther 0 0 0 0 [] [] [] false 0.
Definition tget (T : tytable) (id : N) : tyinfo :=
  match id with 0 => no_type | _ => nth_N (N.pred id) T no_type end.
Definition tkind_eqb (a b : tkind) : bool :=
  match a, b with
  | TBasic, TBasic | TNamed, TNamed | TTParam, TTParam | TPointer, TPointer | TSlice, TSlice | TArray, TArray
  | TMap, TMap | TChan, TChan | TStruct, TStruct | TTuple, TTuple | TSig, TSig | TIface, TIface | TUnion, TUnion
  | TOpaque, TOpaque | TOther, TOther => true
  | _, _ => false
  end.
Definition core (T : tytable) (id : N) : N := t_core (tget T id).
Definition ckind (T : tytable) (id : N) : tkind := t_kind (tget T (core T id)).   (* kind of the core type *)
Definition celem (T : tytable) (id : N) : N := t_elem (tget T (core T id)).
Definition ckey (T : tytable) (id : N) : N := t_key (tget T (core T id)).
Definition cfields (T : tytable) (id : N) : list N := t_fields (tget T (core T id)).
Definition has_core (T : tytable) (id : N) : bool := negb (core T id =? 0).
Definition is_kind (T : tytable) (id : N) (k : tkind) : bool := tkind_eqb (ckind T id) k.
Definition flag (T : tytable) (id : N) (bit : N) : bool :=
  is_kind T id TBasic && N.testbit (t_flags (tget T (core T id))) bit.
Definition is_bool T id := flag T id 0.
Definition is_integer T id := flag T id 1.
Definition is_string T id := flag T id 5.
Definition is_iface (T : tytable) (id : N) : bool := tkind_eqb (t_kind (tget T (t_under (tget T id)))) TIface.
Definition is_tparam (T : tytable) (id : N) : bool := tkind_eqb (t_kind (tget T id)) TTParam.
(* a type literal (not a defined type, predeclared type or type parameter): assignable to/from any type with the same underlying type *)
Definition is_unnamed (T : tytable) (id : N) : bool :=
  match t_kind (tget T id) with TNamed | TBasic | TTParam | TOther | TOpaque => false | _ => true end.
Definition is_tuple_of (T : tytable) (id : N) (comps : list N) : bool :=
  tkind_eqb (t_kind (tget T id)) TTuple &&
  (fix eq (a b : list N) : bool :=
     match a, b with [] , [] => true | x :: a', y :: b' => (x =? y) && eq a' b' | _, _ => false end)
    (t_fields (tget T id)) comps.
(* (v, ok) result: a 2-tuple whose first component is v and whose second is boolean *)
Definition is_commaok (T : tytable) (id v : N) : bool :=
  tkind_eqb (t_kind (tget T id)) TTuple &&
  match t_fields (tget T id) with [a; b] => (a =? v) && is_bool T b | _ => false end.

Fixpoint eq_list (a b : list N) : bool :=
  match a, b with [], [] => true | x :: a', y :: b' => (x =? y) && eq_list a' b' | _, _ => false end.

Definition opty (ops : list (vref * N)) (k : nat) : N := snd (nth k ops (VN, 0)).
Definition present (ops : list (vref * N)) (k : nat) : bool :=
  match fst (nth k ops (VN, 0)) with VN => false | _ => true end.

(* argument vs parameter type: identical, or same core type with one side a type literal (assignability),
   or a type parameter without core type on either side *)
Definition compat (T : tytable) (a p : N) : bool :=
  (a =? p) || negb (has_core T a) || negb (has_core T p) ||
  ((core T a =? core T p) && (is_unnamed T a || is_unnamed T p)).
Fixpoint args_ok (T : tytable) (args params : list N) : bool :=
  match args, params with
  | [], [] => true
  | a :: args', p :: params' => compat T a p && args_ok T args' params'
  | _, _ => false
  end.

(* BinOp class: aux = [class] with 0 arithmetic/bitwise (non-shift), 1 shift, 2 comparison *)
Definition type_ok (T : tytable) (f : func) (i : instr) : bool :=
  let ops := i_ops i in
  let ty := i_ty i in
  match i_kind i with
  | KStore =>     (* *Addr = Val : Val has the element type of Addr *)
    Nat.eqb (length ops) 2%nat && (negb (has_core T (opty ops 0)) || (is_kind T (opty ops 0) TPointer && (celem T (opty ops 0) =? opty ops 1)))
  | KLoad =>
    Nat.eqb (length ops) 1%nat && (negb (has_core T (opty ops 0)) || (is_kind T (opty ops 0) TPointer && (celem T (opty ops 0) =? ty)))
  | KPhi => forallb (fun op => snd op =? ty) ops
  | KIf => Nat.eqb (length ops) 1%nat && is_bool T (opty ops 0)
  | KBinOp =>
    Nat.eqb (length ops) 2%nat &&
    match i_aux i with
    | [0] => (opty ops 0 =? ty) && (opty ops 1 =? ty)
    | [1] => opty ops 0 =? ty
    | [2] => is_bool T ty &&
             ((opty ops 0 =? opty ops 1) || negb (has_core T (opty ops 0)) || negb (has_core T (opty ops 1)) ||
              (is_kind T (opty ops 0) TChan && is_kind T (opty ops 1) TChan) ||
              ((core T (opty ops 0) =? core T (opty ops 1)) && (is_unnamed T (opty ops 0) || is_unnamed T (opty ops 1))))
    | _ => false
    end
  | KUnOp =>      (* aux = [0] for logical negation: operand and result have the same type *)
    match i_aux i with
    | [0] => Nat.eqb (length ops) 1%nat && (opty ops 0 =? ty)
    | _ => true
    end
  | KFieldAddr =>
    Nat.eqb (length ops) 1%nat &&
    (negb (has_core T (opty ops 0)) ||
     (is_kind T (opty ops 0) TPointer && is_kind T (celem T (opty ops 0)) TStruct && is_kind T ty TPointer &&
      match i_aux i with
      | [k] => match nth_error (cfields T (celem T (opty ops 0))) (N.to_nat k) with Some ft => celem T ty =? ft | None => false end
      | _ => false
      end))
  | KField =>
    Nat.eqb (length ops) 1%nat &&
    (negb (has_core T (opty ops 0)) ||
     (is_kind T (opty ops 0) TStruct &&
      match i_aux i with
      | [k] => match nth_error (cfields T (opty ops 0)) (N.to_nat k) with Some ft => ty =? ft | None => false end
      | _ => false
      end))
  | KIndexAddr =>
    Nat.eqb (length ops) 2%nat &&
    (negb (has_core T (opty ops 0)) ||
     (is_kind T ty TPointer &&
      match ckind T (opty ops 0) with
      | TSlice | TArray => celem T ty =? celem T (opty ops 0)
      | TPointer => is_kind T (celem T (opty ops 0)) TArray && (celem T ty =? celem T (celem T (opty ops 0)))
      | _ => false
      end))
  | KIndex =>
    Nat.eqb (length ops) 2%nat &&
    match ckind T (opty ops 0) with
    | TArray => ty =? celem T (opty ops 0)
    | _ => true
    end
  | KMapLookup =>
    Nat.eqb (length ops) 2%nat &&
    (negb (has_core T (opty ops 0)) ||
     (is_kind T (opty ops 0) TMap && (opty ops 1 =? ckey T (opty ops 0)) &&
      match i_aux i with
      | [0] => ty =? celem T (opty ops 0)
      | [_] => is_commaok T ty (celem T (opty ops 0))
      | _ => false
      end))
  | KExtract =>
    Nat.eqb (length ops) 1%nat && tkind_eqb (t_kind (tget T (opty ops 0))) TTuple &&
    match i_aux i with
    | [k] => match nth_error (t_fields (tget T (opty ops 0))) (N.to_nat k) with Some ft => ty =? ft | None => false end
    | _ => false
    end
  | KReturn => eq_list (map snd ops) (f_results f)
  | KMakeInterface => Nat.eqb (length ops) 1%nat && is_iface T ty && (is_tparam T (opty ops 0) || negb (is_iface T (opty ops 0)))
  | KChangeInterface => Nat.eqb (length ops) 1%nat && is_iface T ty && is_iface T (opty ops 0)
  | KMakeClosure =>
    match ops with
    | (VFn, _) :: binds | (VA _, _) :: binds => eq_list (map snd binds) (i_aux i)
    | _ => false
    end
  | KMakeMap => negb (has_core T ty) || is_kind T ty TMap
  | KMakeChan => negb (has_core T ty) || is_kind T ty TChan
  | KMakeSlice => Nat.eqb (length ops) 2%nat && (negb (has_core T ty) || is_kind T ty TSlice)
  | KAlloc => is_kind T ty TPointer
  | KSlice =>
    Nat.eqb (length ops) 4%nat &&
    (negb (has_core T (opty ops 0)) ||
     match ckind T (opty ops 0) with
     | TBasic => is_string T (opty ops 0) && is_string T ty
     | TSlice => is_kind T ty TSlice && (celem T ty =? celem T (opty ops 0))
     | TPointer => is_kind T (celem T (opty ops 0)) TArray && is_kind T ty TSlice && (celem T ty =? celem T (celem T (opty ops 0)))
     | _ => false
     end)
  | KTypeAssert =>
    Nat.eqb (length ops) 1%nat && is_iface T (opty ops 0) &&
    match i_aux i with
    | [0; at_] => ty =? at_
    | [_; at_] => is_commaok T ty at_
    | _ => false
    end
  | KSend =>
    Nat.eqb (length ops) 2%nat && (negb (has_core T (opty ops 0)) || (is_kind T (opty ops 0) TChan && (opty ops 1 =? celem T (opty ops 0))))
  | KRecv =>
    Nat.eqb (length ops) 1%nat &&
    (negb (has_core T (opty ops 0)) ||
     (is_kind T (opty ops 0) TChan &&
      match i_aux i with
      | [0] => ty =? celem T (opty ops 0)
      | [_] => is_commaok T ty (celem T (opty ops 0))
      | _ => false
      end))
  | KMapUpdate =>
    Nat.eqb (length ops) 3%nat &&
    (negb (has_core T (opty ops 0)) ||
     (is_kind T (opty ops 0) TMap && (opty ops 1 =? ckey T (opty ops 0)) && (opty ops 2 =? celem T (opty ops 0))))
  | KPanic => Nat.eqb (length ops) 1%nat && is_iface T (opty ops 0)
  | KNext =>
    Nat.eqb (length ops) 1%nat && tkind_eqb (t_kind (tget T ty)) TTuple &&
    match t_fields (tget T ty) with [a; _; _] => is_bool T a | _ => false end
  | KRange => Nat.eqb (length ops) 1%nat && (negb (has_core T (opty ops 0)) || is_string T (opty ops 0) || is_kind T (opty ops 0) TMap)
  | KStringLookup => Nat.eqb (length ops) 2%nat && (negb (has_core T (opty ops 0)) || is_string T (opty ops 0))
  | KSliceToArrayPointer =>
    Nat.eqb (length ops) 1%nat &&
    (negb (has_core T (opty ops 0)) || negb (has_core T ty) ||
     (is_kind T (opty ops 0) TSlice && is_kind T ty TPointer && is_kind T (celem T ty) TArray &&
      (celem T (celem T ty) =? celem T (opty ops 0))))
  | KSelect =>
    tkind_eqb (t_kind (tget T ty)) TTuple &&
    match t_fields (tget T ty) with a :: b :: _ => is_integer T a && is_bool T b | _ => false end
  | KTypeSwitch => Nat.eqb (length ops) 1%nat && is_iface T (opty ops 0)
  | KCall | KGo | KDefer =>
    (* ops = Value :: Args (Defer: ++ [DeferStack]); aux = [mode; receiver type; method signature] *)
    let args := match i_kind i with KDefer => removelast (tl ops) | _ => tl ops end in
    match i_aux i with
    | [0; recv; _] =>
      let fty := opty ops 0 in
      negb (has_core T fty) ||
      (is_kind T fty TSig &&
       let s := tget T (core T fty) in
       Nat.eqb (length args) (length (t_params s) + (if N.eqb recv 0 then O else 1%nat)) &&
       args_ok T (map snd args) ((if N.eqb recv 0 then [] else [recv]) ++ t_params s) &&
       match i_kind i with
       | KCall => match t_results s with
                  | [r] => ty =? r
                  | rs => is_tuple_of T ty rs
                  end
       | _ => true
       end)
    | [1; _; msig] =>
      (is_iface T (opty ops 0)) && tkind_eqb (t_kind (tget T msig)) TSig &&
      Nat.eqb (length args) (length (t_params (tget T msig))) &&
      args_ok T (map snd args) (t_params (tget T msig)) &&
      match i_kind i with
      | KCall => match t_results (tget T msig) with
                 | [r] => ty =? r
                 | rs => is_tuple_of T ty rs
                 end
      | _ => true
      end
    | [2; _; _] => true          (* builtin: effective signature is per call *)
    | _ => false
    end
  | _ => true
  end.

(* ------------------------------------------------------------------ the validator *)
Definition idx_blocks (f : func) : list (N * block) := number_from 0 (f_blocks f).

Definition dflt_block : block := mkB 0 [] [] [].

Definition structural_diag (f : func) : list clause :=
  let ins := all_instrs f in
  let ib := idx_blocks f in
  (if numbering_ok f && nodupN (map i_id ins) then [] else [CNumbering]) ++
  flat_map (fun nb => if b_index (snd nb) =? fst nb then [] else [CBlockIndex (fst nb)]) ib ++
  flat_map (fun i => if kind_eqb (i_kind i) KBad then [CBadInstr (i_seq i)] else []) ins ++
  flat_map (fun nb => if terminator_ok (b_instrs (snd nb)) (len_N (b_succs (snd nb))) then [] else [CTerminator (fst nb)]) ib ++
  flat_map (fun nb => if phi_shape_ok (b_instrs (snd nb)) (len_N (b_preds (snd nb))) false then [] else [CPhiShape (fst nb)]) ib ++
  flat_map (fun nb => if predsucc_ok f (fst nb) (snd nb) then [] else [CPredSucc (fst nb)]) ib.

Definition scope_diag (f : func) : list clause :=
  flat_map (fun i => if scope_ok f (locs f) (len_N (all_instrs f)) i then [] else [CScope (i_seq i)]) (all_instrs f).

Definition local_refs_diag (total : N) (pairs : list (vref * N)) (k : N) (ctor : N -> vref) (ls : list local) : list clause :=
  flat_map (fun nl => if refs_ok total pairs (ctor (fst nl)) (l_refs (snd nl)) then [] else [CLocalReferrers k (fst nl)])
           (number_from 0 ls).

Definition instr_refs_ok (total : N) (pairs : list (vref * N)) (i : instr) : bool :=
  match i_refs i with
  | Some r => refs_ok total pairs (VI (i_seq i)) r && negb (i_ty i =? 0)
  | None => i_ty i =? 0
  end.

Definition refs_diag (f : func) : list clause :=
  let total := len_N (all_instrs f) in
  let pairs := use_pairs f in
  flat_map (fun i => if instr_refs_ok total pairs i then [] else [CReferrers (i_seq i)]) (all_instrs f) ++
  local_refs_diag total pairs 0 VP (f_params f) ++ local_refs_diag total pairs 1 VF (f_free f) ++
  local_refs_diag total pairs 2 VA (f_anons f).

Definition domuse_diag (f : func) (d : cfg_dom) : list clause :=
  let lc := locs f in
  let dpts := defer_points f (cd_E d) in
  flat_map (fun p => if dom_use_ok (cd_rows d) (cd_E d) dpts lc (fst (fst p)) (snd (fst p))
                                   (nth_N (fst (fst p)) (f_blocks f) dflt_block) (snd p)
                     then [] else [CDominance (i_seq (snd p))])
           (ipoints f).

Definition type_diag (T : tytable) (f : func) : list clause :=
  flat_map (fun i => if type_ok T f i then [] else [CType (i_seq i)]) (all_instrs f).

Definition wf_diag (T : tytable) (f : func) : list clause :=
  match structural_diag f with
  | (_ :: _) as s => s
  | [] =>
    match cfg_dominance (cfg_of f) (f_rec f) with
    | None => [CGraph]
    | Some d =>
      if negb (N.land (cd_E d) (cd_R d) =? 0) then [CGraph] else
      match scope_diag f with
      | (_ :: _) as s => s
      | [] => refs_diag f ++ domuse_diag f d ++ type_diag T f
      end
    end
  end.

Definition wf_ssa (T : tytable) (f : func) : bool := match wf_diag T f with [] => true | _ => false end.

(* one group of cases: the functions of one corpus item built in one mode share a type table *)
Record fcase := mkC { c_id : N; c_f : func }.
Definition violations (T : tytable) (cs : list fcase) : list (N * list clause) :=
  flat_map (fun c => match wf_diag T (c_f c) with [] => [] | d => [(c_id c, firstn 3 d)] end) cs.
Definition accepted (T : tytable) (cs : list fcase) : N :=
  len_N (filter (fun c => match wf_diag T (c_f c) with [] => true | _ => false end) cs).
