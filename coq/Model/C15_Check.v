(* C15 — executable comparison of the model analysis with the real nilness facts, and of the facts with the
   nil-ness observed when the compiled functions were run.  Used by coq/cases/C15/*.v (vm_compute). *)
From Coq Require Import List Arith Bool NArith.
Import ListNotations.
Require Import Verif.Model.C13 Verif.Model.C13_Nilness Verif.Model.C15 Verif.Gen.C15_SA4023.

Record ncase := mkN {
  n_f : func;
  n_facts : list vn;              (* implementation: Result.Nilness(fn, i) *)
  n_obs : list (list shape);      (* execution oracle: nil-shapes observed for result i (empty if never returned) *)
  n_flagged : list nat            (* results whose comparison with nil SA4023 called impossible *)
}.

Definition vn_list_eqb (a b : list vn) : bool :=
  Nat.eqb (length a) (length b) && forallb (fun p => vn_eqb (fst p) (snd p)) (combine a b).

(* model vs implementation: same fact vector. The schedule is the implementation's (reverse-postorder priority
   heap): the nilness transfer function is not monotone on the identity state (state.get falls back to
   per-kind defaults there), so other schedules need not terminate or agree -- soundness does not depend on it. *)
Definition nil_mismatch (c : ncase) : bool :=
  match analyse (n_f c) (pick_heap (fsuccs (n_f c))) 6000 with
  | Some m1 => negb (vn_list_eqb m1 (n_facts c))
  | None => true
  end.

(* the property on the implementation's own facts: every observed shape is allowed by the exported fact, and a
   flagged comparison never saw a nil interface *)
Definition sa4023_flags (x : vn) : bool := nil_eqb (snd x) gen_sa4023_outer.
Definition nil_violation (c : ncase) : bool :=
  existsb (fun k => existsb (fun sh => negb (gamma (nth k (n_facts c) MM) sh)) (nth k (n_obs c) []))
          (seq 0 (length (n_facts c))) ||
  existsb (fun k => existsb outer_nil (nth k (n_obs c) [])) (n_flagged c).
(* SA4023 flagged although the fact does not say NeverNil (tie of the sa4023 guard) *)
Definition flag_mismatch (c : ncase) : bool :=
  existsb (fun k => negb (sa4023_flags (nth k (n_facts c) MM))) (n_flagged c).

Definition numbered_true15 {A} (f : A -> bool) (l : list A) : list nat :=
  map fst (filter (fun x => f (snd x)) (combine (seq 0 (length l)) l)).
Definition nmismatches (l : list ncase) := numbered_true15 (fun c => nil_mismatch c || flag_mismatch c) l.
Definition nviolations (l : list ncase) := numbered_true15 nil_violation l.
Definition nwf (l : list ncase) := numbered_true15 (fun c => negb (wf_func_b (n_f c))) l.
