(* C04: types shared by the generated cache-key transcription (Gen/C04_CacheKey.v) and the model. *)
From Coq Require Import List String.
Import ListNotations.

(* One `fmt.Fprintf(h, format, args...)` written into a cache hash, with the control context it sits in
   (rendered `if <cond>` / `else if <cond>` / `for range <x>` of the enclosing statements, outermost first). *)
Record comp := mkComp { c_fmt : string; c_args : list string; c_ctx : list string }.

(* One mention of an environment-reading function: file (relative to the repository), enclosing function,
   rendered call. *)
Record envread := mkRead { r_file : string; r_func : string; r_call : string }.

(* Input dimensions of the analysis of ONE package (variant).  `Files`, `GoMod`, `Tags`, `GOOS`, `GOARCH`,
   `Tests` are what `go list` turns into the set of compiled files, the language version and the target
   platform of the package variant; `DepTypes` is the export data of the dependencies, `DepFacts` the vector
   of the dependencies' fact outputs (computed by the run itself, see Model/C04.v). *)
Inductive dim :=
| PkgPath | Files | GoMod | Tags | GOOS | GOARCH | Tests | DepTypes | DepFacts
| FlagGo | FlagChecks
| Cfg (field : string)          (* one field of the merged staticcheck.conf; Cfg "Checks" is the check selection *)
| Analyzers | Binary | Godebug
| OtherEnv (name : string).     (* any other environment variable *)
