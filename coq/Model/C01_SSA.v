(* C01: a small self-contained "definitions before uses" checker for serialised IR functions.
   It is dominance-free: a certificate IN[b] (registers assigned on EVERY path to the entry of block b)
   is computed by a fixpoint iteration (not trusted) and then VALIDATED by local checks:
     - every operand read by a non-phi instruction is in IN[b] + phis of b + earlier definitions of b;
     - along every edge b -> s:  the phi operands selected by that edge are available at the end of b,
       and IN[s] is included in what is available at the end of b.
   Proofs/C01_SSA.v shows that validated functions never read an unassigned register. *)
From Coq Require Import List ZArith NArith PArith Bool.
Import ListNotations.
Require Import Verif.Model.C01_IRSem.

Definition regset := list positive.
Definition mem (r : positive) (s : regset) : bool := existsb (Pos.eqb r) s.
Definition subset (a b : regset) : bool := forallb (fun r => mem r b) a.
Definition inter (a b : regset) : regset := filter (fun r => mem r b) a.

Definition operand_ok (s : regset) (o : operand) : bool :=
  match o with OReg r => mem r s | _ => true end.

Definition opt_list {A} (o : option A) : list A := match o with Some x => [x] | None => [] end.

(* operands read when the instruction executes (phis read along edges, not here) *)
Definition instr_uses (i : instr) : list operand :=
  match i with
  | IOp _ _ args => args
  | IPhi _ _ => []
  | ICall _ _ args => args
  | IDefer _ ds args => opt_list ds ++ args
  | IRunDefers | IJump | IUnreachable => []
  | IIf c => [c]
  | ISwitch tag conds => tag :: flat_map opt_list conds
  | IReturn rs => rs
  | IPanic x => [x]
  end.

Definition instr_def (i : instr) : list positive :=
  match i with
  | IOp d _ _ => opt_list d
  | IPhi d _ => [d]
  | ICall d _ _ => opt_list d
  | _ => []
  end.

Definition is_phi (i : instr) : bool := match i with IPhi _ _ => true | _ => false end.

Definition is_term (i : instr) : bool :=
  match i with
  | IJump | IIf _ | ISwitch _ _ | IReturn _ | IPanic _ | IUnreachable => true
  | _ => false
  end.

(* walk the non-phi part of a block; None = some operand not available, a phi after a non-phi,
   or an instruction after a terminator *)
Fixpoint check_code (avail : regset) (code : list instr) : option regset :=
  match code with
  | [] => Some avail
  | i :: r =>
    if is_phi i then None
    else if is_term i && negb (match r with [] => true | _ => false end) then None
    else if forallb (operand_ok avail) (instr_uses i) then check_code (instr_def i ++ avail) r else None
  end.

Definition block_in (ins : list regset) (b : N) : regset :=
  match nthN ins b with Some s => s | None => [] end.

Definition check_edge (fn : func) (ins : list regset) (bi : N) (out : regset) (succ : N) : bool :=
  match get_block fn succ with
  | None => false
  | Some tb =>
    match index_of bi (b_preds tb) 0 with
    | None => false
    | Some k =>
      let '(phis, _) := split_phis (b_code tb) in
      forallb (fun ph => match nthN (snd ph) k with Some o => operand_ok out o | None => false end) phis
      && subset (block_in ins succ) out
    end
  end.

Definition check_block (fn : func) (ins : list regset) (bi : N) (b : block) : bool :=
  let '(phis, rest) := split_phis (b_code b) in
  match check_code (map fst phis ++ block_in ins bi) rest with
  | None => false
  | Some out => forallb (check_edge fn ins bi out) (b_succs b)
  end.

Fixpoint check_blocks (fn : func) (ins : list regset) (bs : list block) (i : N) : bool :=
  match bs with
  | [] => true
  | b :: r => check_block fn ins i b && check_blocks fn ins r (N.succ i)
  end.

Definition entry_set (fn : func) : regset := fn_params fn ++ fn_freevars fn.

(* registers assigned by the entry block before its first call / defer / rundefers: a frame can only reach
   its Recover block after a deferred call has run, hence after that prefix has been executed *)
Fixpoint safe_prefix_defs (code : list instr) : regset :=
  match code with
  | IOp d _ _ :: r => opt_list d ++ safe_prefix_defs r
  | _ => []
  end.

Definition no_phis (b : block) : bool :=
  match b_code b with IPhi _ _ :: _ => false | _ => true end.

Definition recover_ok (fn : func) (ins : list regset) : bool :=
  match fn_recover fn with
  | None => true
  | Some rb =>
    match get_block fn 0, get_block fn rb with
    | Some b0, Some br => no_phis br && subset (block_in ins rb) (safe_prefix_defs (b_code b0) ++ entry_set fn)
    | _, _ => false
    end
  end.

Definition entry_ok (fn : func) (ins : list regset) : bool :=
  match get_block fn 0 with
  | Some b0 => no_phis b0 && subset (block_in ins 0) (entry_set fn)
  | None => false
  end.

Definition validate (fn : func) (ins : list regset) : bool :=
  entry_ok fn ins && recover_ok fn ins && check_blocks fn ins (fn_blocks fn) 0.

(* ---- certificate computation (untrusted) ---- *)

Definition block_defs (b : block) : regset := flat_map instr_def (b_code b).
Definition all_regs (fn : func) : regset := entry_set fn ++ flat_map block_defs (fn_blocks fn).

Definition out_set (fn : func) (ins : list regset) (bi : N) : regset :=
  match get_block fn bi with Some b => block_defs b ++ block_in ins bi | None => [] end.

Definition recover_set (fn : func) : regset :=
  match get_block fn 0 with Some b0 => safe_prefix_defs (b_code b0) ++ entry_set fn | None => [] end.

Definition new_in (fn : func) (ins : list regset) (top : regset) (bi : N) (b : block) : regset :=
  if N.eqb bi 0 then entry_set fn
  else match fn_recover fn with
       | Some rb => if N.eqb rb bi then recover_set fn
                    else fold_left (fun acc p => inter acc (out_set fn ins p)) (b_preds b) top
       | None => fold_left (fun acc p => inter acc (out_set fn ins p)) (b_preds b) top
       end.

Fixpoint sweep (fn : func) (ins : list regset) (top : regset) (bs : list block) (i : N) : list regset :=
  match bs with
  | [] => ins
  | b :: r =>
    let s := new_in fn ins top i b in
    let ins' := match updN ins i s with Some l => l | None => ins end in
    sweep fn ins' top r (N.succ i)
  end.

Definition total_size (ins : list regset) : nat := fold_left (fun n s => (n + length s)%nat) ins O.

(* the sets only shrink, so a sweep that keeps the total size has reached the fixpoint *)
Fixpoint iterate (n : nat) (fn : func) (ins : list regset) (top : regset) : list regset :=
  match n with
  | O => ins
  | S k => let ins' := sweep fn ins top (fn_blocks fn) 0 in
           if Nat.eqb (total_size ins') (total_size ins) then ins' else iterate k fn ins' top
  end.

Definition compute_in (fn : func) : list regset :=
  let top := all_regs fn in
  iterate (length (fn_blocks fn) + 2) fn (map (fun _ => top) (fn_blocks fn)) top.

Definition ssa_ok_func (fn : func) : bool :=
  match fn_blocks fn with
  | [] => true                                  (* external *)
  | _ => validate fn (compute_in fn)
  end.

Definition ssa_ok_prog (p : program) : bool := forallb ssa_ok_func (p_funcs p).

Fixpoint bad_from (fs : list func) (i : N) : list N :=
  match fs with
  | [] => []
  | f :: r => if ssa_ok_func f then bad_from r (N.succ i) else i :: bad_from r (N.succ i)
  end.
Definition ssa_bad_funcs (p : program) : list N := bad_from (p_funcs p) 0.
