(* C03: the registered panicking switches, the universe each must cover, and the explicit, justified exclusions.
   HAND-WRITTEN (not generated).  Everything else (case lists, universes, filters, builtin names, constructed IR
   types) comes from Gen/C03_Switches.v, regenerated from /repo and GOROOT on every run.  Definitions only. *)
From Coq Require Import List String Bool.
Import ListNotations.
Require Import Verif.Model.C03_Types Verif.Gen.C03_Switches Verif.Model.C03.
Open Scope string_scope.

(* ---------- how a universe is named ---------- *)
Inductive uspec :=
| UIface (name : string)      (* implementors of an interface / a token class: key of gen_universes *)
| UFilter (fnkey : string)    (* the node types the function hands to its AST inspector: key of gen_filters *)
| UBuiltinPtr.                (* names of *ir.Builtin callees whose call result can be pointer-like *)

(* an exclusion group: members of the universe that cannot reach the switch, with the reason.
   NotConstructed exclusions are CHECKED: they hold only while go/ir never constructs the type. *)
Inductive excheck := Unchecked | NotConstructed.
Record excl := mkEx { ex_members : list string; ex_check : excheck; ex_why : string }.
Definition ex (l : list string) (why : string) := mkEx l Unchecked why.

Record reg := mkReg { r_id : string; r_univ : uspec; r_excl : list excl }.

(* ---------- builtins: classification of every builtin name go/ir can give to an *ir.Builtin ---------- *)
Inductive bclass :=
| BPtrLike     (* the call stays an *ir.Call and its result type can be pointer-like *)
| BNotPtr      (* result is never pointer-like (numeric, string, bool) or constant-folded *)
| BNoResult    (* statement builtin without result *)
| BLowered     (* go/ir's builder lowers every such call to instructions; it is never an *ir.Call *)
| BTestOnly.   (* defined only by go/types' DefPredeclaredTestFuncs *)
Definition builtin_class : list (string * (bclass * string)) :=
  [ ("append", (BPtrLike, "slice"));
    ("cap", (BNotPtr, "int")); ("len", (BNotPtr, "int")); ("copy", (BNotPtr, "int"));
    ("clear", (BNoResult, "")); ("close", (BNoResult, "")); ("delete", (BNoResult, ""));
    ("print", (BNoResult, "")); ("println", (BNoResult, ""));
    ("complex", (BNotPtr, "complex")); ("imag", (BNotPtr, "float")); ("real", (BNotPtr, "float"));
    ("max", (BNotPtr, "ordered: integer, float or string")); ("min", (BNotPtr, "ordered: integer, float or string"));
    ("make", (BLowered, "MakeSlice / Slice of Alloc / MakeMap / MakeChan (builder.builtin)"));
    ("new", (BLowered, "Alloc (+ Store) (builder.builtin)"));
    ("panic", (BLowered, "Panic instruction (builder.builtin)"));
    ("recover", (BPtrLike, "interface{}"));
    ("UnsafeAdd", (BPtrLike, "unsafe.Pointer")); ("UnsafeSlice", (BPtrLike, "slice"));
    ("UnsafeSliceData", (BPtrLike, "pointer")); ("UnsafeStringData", (BPtrLike, "*byte"));
    ("UnsafeString", (BNotPtr, "string"));
    ("UnsafeAlignof", (BNotPtr, "uintptr constant")); ("UnsafeOffsetof", (BNotPtr, "uintptr constant"));
    ("UnsafeSizeof", (BNotPtr, "uintptr constant"));
    ("assert", (BTestOnly, "")); ("trace", (BTestOnly, ""));
    ("ssa:wrapnilchk", (BPtrLike, "returns its pointer-like receiver argument"));
    ("ssa:deferstack", (BPtrLike, "synthetic defer stack; treated as pointer-like conservatively")) ].

Definition builtin_name (b : string * string * string) : string := fst (fst b).
Definition class_of (n : string) : option bclass := option_map fst (lookup n builtin_class).
(* a builtin name the table does not know is conservatively part of the universe *)
Definition builtin_in_universe (n : string) : bool :=
  match class_of n with Some BPtrLike => true | None => true | Some _ => false end.
Definition builtin_universe : list string := filter builtin_in_universe (map builtin_name gen_builtins).
Definition unclassified_builtins : list string :=
  filter (fun n => match class_of n with None => true | Some _ => false end) (map builtin_name gen_builtins).
(* names classified BLowered must really be cases of builder.builtin's switch *)
Definition lowered_not_in_builder : list string :=
  filter (fun n => match class_of n with Some BLowered => negb (mem n gen_builder_builtin_cases) | _ => false end)
         (map builtin_name gen_builtins).

(* ---------- shared exclusion groups ---------- *)
Definition bad_expr := ex ["*ast.BadExpr"] "go/parser produces BadExpr only for a syntax error; go build rejects the package".
Definition bad_stmt := ex ["*ast.BadStmt"] "go/parser produces BadStmt only for a syntax error; go build rejects the package".
Definition bad_decl := ex ["*ast.BadDecl"] "go/parser produces BadDecl only for a syntax error; go build rejects the package".
Definition clause_stmts := ex ["*ast.CaseClause"; "*ast.CommClause"]
  "only elements of a switch / select body: iterated by the SwitchStmt, TypeSwitchStmt and SelectStmt cases, never dispatched as a statement".
Definition underlying_never := ex ["*types.Alias"; "*types.Named"; "*types.TypeParam"]
  "types.Type.Underlying and typeutil.CoreType never return an alias, a defined type or a type parameter (go/types contract)".
Definition synthetic_types := ex ["*typeutil.DeferStack"; "*typeutil.Iterator"]
  "types of go/ir's synthetic defer-stack and range-iterator values; never the type of a source operand or declared object".
Definition type_exprs := ex ["*ast.ArrayType"; "*ast.ChanType"; "*ast.FuncType"; "*ast.InterfaceType"; "*ast.MapType"; "*ast.StructType"]
  "type expressions denote types, not values or locations".
Definition not_assignable := ex
  ["*ast.BasicLit"; "*ast.BinaryExpr"; "*ast.CallExpr"; "*ast.Ellipsis"; "*ast.FuncLit"; "*ast.IndexListExpr";
   "*ast.KeyValueExpr"; "*ast.SliceExpr"; "*ast.TypeAssertExpr"; "*ast.UnaryExpr"]
  "spec, Assignment statements / Address operators: the operand must be addressable, a map index expression or the blank identifier; after parentheses that is an identifier, selector, index expression or pointer indirection".
Definition not_rangeable := ex ["*types.Interface"; "*types.Struct"; "*types.Tuple"; "*types.Union"]
  "spec, For statements with range clause: the core type of the range operand is an array, pointer to array, slice, string, map, channel, integer or function".

(* ---------- the registry ---------- *)
Definition nilness := "analysis/facts/nilness/nilness.go:impl:".
Definition unused := "unused/unused.go:graph.".
Definition builder := "go/ir/builder.go:builder.".

Definition registry : list reg :=
  [ (* --- analysis/facts/nilness --- *)
    mkReg (nilness ++ "instr.(type)") (UIface "ir.Instruction")
      [mkEx ["*ir.StringLookup"] NotConstructed
         "declared in go/ir/ssa.go but never constructed by go/ir (indexing a string is lowered to *ir.Index); checked against gen_ir_constructed"];
    mkReg (nilness ++ "callee.Name()") UBuiltinPtr [];
    mkReg (nilness ++ "op") (UIface "token.compare") [];
    mkReg (nilness ++ "op#1") (UIface "token.compare") [];
    (* --- unused --- *)
    mkReg (unused ++ "read:node.(type)") (UIface "ast.Expr") [bad_expr];
    mkReg (unused ++ "write:node.(type)") (UIface "ast.Expr") [bad_expr; type_exprs; not_assignable;
      ex ["*ast.CompositeLit"] "a composite literal is addressable only as the operand of &, never assignable"];
    mkReg (unused ++ "decl:decl.(type)") (UIface "ast.Decl") [bad_decl];
    mkReg (unused ++ "decl:decl.Tok") (UIface "token.gendecl") [];
    mkReg (unused ++ "stmt:stmt.(type)") (UIface "ast.Stmt") [bad_stmt; clause_stmts;
      ex ["*ast.LabeledStmt"] "unwrapped by the loop directly above the switch"];
    mkReg (unused ++ "stmt:clause.Comm.(type)") (UIface "ast.Stmt")
      [ex ["*ast.BadStmt"; "*ast.BlockStmt"; "*ast.BranchStmt"; "*ast.CaseClause"; "*ast.CommClause"; "*ast.DeclStmt";
           "*ast.DeferStmt"; "*ast.EmptyStmt"; "*ast.ForStmt"; "*ast.GoStmt"; "*ast.IfStmt"; "*ast.IncDecStmt";
           "*ast.LabeledStmt"; "*ast.RangeStmt"; "*ast.ReturnStmt"; "*ast.SelectStmt"; "*ast.SwitchStmt"; "*ast.TypeSwitchStmt"]
          "go/parser.parseCommClause: Comm is a SendStmt, a receive ExprStmt or a receive AssignStmt (nil for default)"];
    mkReg (unused ++ "embeddedField:node.(type)") (UIface "ast.Expr")
      [bad_expr; type_exprs;
       ex ["*ast.BasicLit"; "*ast.BinaryExpr"; "*ast.CallExpr"; "*ast.CompositeLit"; "*ast.Ellipsis"; "*ast.FuncLit";
           "*ast.KeyValueExpr"; "*ast.ParenExpr"; "*ast.SliceExpr"; "*ast.TypeAssertExpr"; "*ast.UnaryExpr"]
          "spec: EmbeddedField = [ ""*"" ] TypeName [ TypeArgs ]; go/parser reports 'cannot parenthesize embedded type'"];
    mkReg (unused ++ "embeddedField:typeutil.Dereference(g.info.TypeOf(node_)).(type)") (UIface "types.Type")
      [synthetic_types;
       ex ["*types.Alias"] "embedded aliases are handled by the branch before the switch";
       ex ["*types.Array"; "*types.Chan"; "*types.Interface"; "*types.Map"; "*types.Pointer"; "*types.Signature";
           "*types.Slice"; "*types.Struct"; "*types.Tuple"; "*types.TypeParam"; "*types.Union"]
          "spec, Struct types: an embedded field is a type name T or *T, T not a type parameter or pointer: a non-alias type name denotes a defined (*types.Named) or predeclared basic type"];
    (* --- go/ir builder (runs inside buildir for every package) --- *)
    mkReg (builder ++ "stmt:_s.(type)") (UIface "ast.Stmt") [bad_stmt; clause_stmts];
    mkReg (builder ++ "expr0:e.(type)") (UIface "ast.Expr") [bad_expr; type_exprs;
      ex ["*ast.ParenExpr"] "builder.expr strips parentheses (unparen) before calling expr0";
      ex ["*ast.KeyValueExpr"] "only an element of a composite literal, consumed by builder.compLit";
      ex ["*ast.Ellipsis"] "only in parameter lists and [...]T array types, never an operand"];
    mkReg (builder ++ "addr:e.(type)") (UIface "ast.Expr") [bad_expr; type_exprs; not_assignable];
    mkReg (builder ++ "exprN:e.(type)") (UIface "ast.Expr") [bad_expr; type_exprs;
      ex ["*ast.BasicLit"; "*ast.BinaryExpr"; "*ast.CompositeLit"; "*ast.Ellipsis"; "*ast.FuncLit"; "*ast.Ident";
          "*ast.IndexListExpr"; "*ast.KeyValueExpr"; "*ast.SelectorExpr"; "*ast.SliceExpr"; "*ast.StarExpr"]
         "spec: only calls, map index expressions, type assertions and receive operations (possibly parenthesised) have a tuple type"];
    mkReg (builder ++ "builtin:typeutil.CoreType(typ).(type)") (UIface "types.Type") [underlying_never; synthetic_types;
      ex ["*types.Array"; "*types.Basic"; "*types.Interface"; "*types.Pointer"; "*types.Signature"; "*types.Struct"; "*types.Tuple"; "*types.Union"]
         "spec, Making slices, maps and channels: the core type of make's type argument is a slice, map or channel"];
    mkReg (builder ++ "compLit:typeutil.CoreType(typ).(type)") (UIface "types.Type") [underlying_never; synthetic_types;
      ex ["*types.Basic"; "*types.Chan"; "*types.Interface"; "*types.Pointer"; "*types.Signature"; "*types.Tuple"; "*types.Union"]
         "spec, Composite literals: the core type is a struct, array, slice or map (the pointer of an elided &T is dereferenced first)"];
    mkReg (builder ++ "rangeStmt:typeutil.CoreType(x.Type()).(type)") (UIface "types.Type") [underlying_never; synthetic_types; not_rangeable];
    mkReg (builder ++ "rangeIndexed:typeutil.CoreType(x.Type()).(type)") (UIface "types.Type") [underlying_never; synthetic_types; not_rangeable;
      ex ["*types.Basic"; "*types.Chan"; "*types.Map"; "*types.Signature"] "rangeStmt calls rangeIndexed from its Slice / Array / Pointer clause only"];
    mkReg (builder ++ "typeSwitchStmt:s.Assign.(type)") (UIface "ast.Stmt")
      [ex ["*ast.BadStmt"; "*ast.BlockStmt"; "*ast.BranchStmt"; "*ast.CaseClause"; "*ast.CommClause"; "*ast.DeclStmt";
           "*ast.DeferStmt"; "*ast.EmptyStmt"; "*ast.ForStmt"; "*ast.GoStmt"; "*ast.IfStmt"; "*ast.IncDecStmt";
           "*ast.LabeledStmt"; "*ast.RangeStmt"; "*ast.ReturnStmt"; "*ast.SelectStmt"; "*ast.SendStmt"; "*ast.SwitchStmt"; "*ast.TypeSwitchStmt"]
          "go/ast: TypeSwitchStmt.Assign is `x := y.(type)` (AssignStmt) or `y.(type)` (ExprStmt)"];
    mkReg "go/ir/create.go:memberFromObject:obj.(type)" (UIface "types.Object")
      [ex ["*types.Label"; "*types.Nil"; "*types.PkgName"]
          "members of a package scope: labels are function-scoped, package names file-scoped, nil lives in the universe scope"];
    mkReg "go/ir/subst.go:subster.typ:t.(type)" (UIface "types.Type") [];
    mkReg "go/ir/sanity.go:sanity.checkInstr:instr.(type)" (UIface "ir.Instruction") [];
    (* --- helpers used by many analyzers --- *)
    mkReg "analysis/code/code.go:MayHaveSideEffects:expr.(type)" (UIface "ast.Expr") [];
    mkReg "go/ast/astutil/util.go:CopyExpr:node.(type)" (UIface "ast.Expr") [bad_expr];
    mkReg "go/ast/astutil/util.go:Equal:a.(type)" (UIface "ast.Expr") [bad_expr];
    mkReg "go/types/typeutil/unify.go:Unify:x.(type)" (UIface "types.Type") [synthetic_types;
      ex ["*types.Alias"] "types.Unalias is applied to both operands first";
      ex ["*types.TypeParam"] "type parameters are bound / compared by the branch preceding the switch";
      ex ["*types.Union"] "a union occurs only as an embedded term of a constraint interface; Unify never descends into interfaces"];
    mkReg "go/types/typeutil/unify.go:typeParams:t.(type)" (UIface "types.Type") [synthetic_types;
      ex ["*types.Alias"] "types.Unalias is applied first";
      ex ["*types.Union"] "a union occurs only as an embedded term of a constraint interface; typeParams never descends into interfaces"];
    (* --- analyzers: callbacks of an AST inspector (universe = the node filter passed in the same function) --- *)
    mkReg "staticcheck/sa4011/sa4011.go:run:node.(type)" (UFilter "staticcheck/sa4011/sa4011.go:run") [];
    mkReg "staticcheck/sa3000/sa3000.go:run:node.(type)" (UFilter "staticcheck/sa3000/sa3000.go:run") [];
    mkReg "staticcheck/sa4004/sa4004.go:run:node.(type)" (UFilter "staticcheck/sa4004/sa4004.go:run") [];
    mkReg "simple/s1023/s1023.go:run:node.(type)" (UFilter "simple/s1023/s1023.go:run")
      [ex ["*ast.CaseClause"] "delivered to the other callback (fn1) by its own Preorder call"];
    mkReg "simple/s1032/s1032.go:run:node.(type)" (UFilter "simple/s1032/s1032.go:run") [];
    mkReg "quickfix/qf1007/qf1007.go:run:node.(type)" (UFilter "quickfix/qf1007/qf1007.go:run") [];
    mkReg "stylecheck/st1021/st1021.go:run:node.(type)" (UFilter "stylecheck/st1021/st1021.go:run") [];
    mkReg "stylecheck/st1022/st1022.go:run:node.(type)" (UFilter "stylecheck/st1022/st1022.go:run") [];
    (* --- analyzers: switches over the underlying type of an operand --- *)
    mkReg "staticcheck/sa4004/sa4004.go:run:term.Type().Underlying().(type)" (UIface "types.Type") [underlying_never; synthetic_types; not_rangeable];
    mkReg "simple/s1031/s1031.go:run:term.Type().Underlying().(type)" (UIface "types.Type") [underlying_never; synthetic_types; not_rangeable;
      ex ["*types.Array"; "*types.Basic"] "the operand is compared with nil (pattern `x != nil`): arrays, strings and integers are not nil-comparable"];
    mkReg "simple/s1009/s1009.go:run:term.Type().Underlying().(type)" (UIface "types.Type") [underlying_never; synthetic_types;
      ex ["*types.Array"; "*types.Basic"; "*types.Struct"; "*types.Tuple"; "*types.Union"] "the operand is compared with nil: not nil-comparable";
      ex ["*types.Interface"; "*types.Signature"] "the operand is an argument of len: interfaces and functions have no length"];
    (* --- analyzers: syntactic positions with a fixed grammar --- *)
    mkReg "quickfix/qf1003/qf1003.go:run:item.Else.(type)" (UIface "ast.Stmt")
      [ex ["*ast.AssignStmt"; "*ast.BadStmt"; "*ast.BranchStmt"; "*ast.CaseClause"; "*ast.CommClause"; "*ast.DeclStmt"; "*ast.DeferStmt";
           "*ast.EmptyStmt"; "*ast.ExprStmt"; "*ast.ForStmt"; "*ast.GoStmt"; "*ast.IncDecStmt"; "*ast.LabeledStmt"; "*ast.RangeStmt";
           "*ast.ReturnStmt"; "*ast.SelectStmt"; "*ast.SendStmt"; "*ast.SwitchStmt"; "*ast.TypeSwitchStmt"]
          "spec: IfStmt = ""if"" ... Block [ ""else"" ( IfStmt | Block ) ]; go/parser yields BadStmt only on a syntax error"];
    mkReg "quickfix/qf1003/qf1003.go:run:item.Else.(type)#1" (UIface "ast.Stmt")
      [ex ["*ast.AssignStmt"; "*ast.BadStmt"; "*ast.BranchStmt"; "*ast.CaseClause"; "*ast.CommClause"; "*ast.DeclStmt"; "*ast.DeferStmt";
           "*ast.EmptyStmt"; "*ast.ExprStmt"; "*ast.ForStmt"; "*ast.GoStmt"; "*ast.IncDecStmt"; "*ast.LabeledStmt"; "*ast.RangeStmt";
           "*ast.ReturnStmt"; "*ast.SelectStmt"; "*ast.SendStmt"; "*ast.SwitchStmt"; "*ast.TypeSwitchStmt"]
          "spec: IfStmt = ""if"" ... Block [ ""else"" ( IfStmt | Block ) ]; go/parser yields BadStmt only on a syntax error"];
    mkReg "stylecheck/st1020/st1020.go:run:T.(type)" (UIface "ast.Expr")
      [bad_expr; type_exprs;
       ex ["*ast.StarExpr"] "the pointer star of the receiver type is removed before the switch";
       ex ["*ast.ParenExpr"] "parentheses around the receiver type and around its base type are removed by ast.Unparen before the switch (explored by the directed program odd_parens)";
       ex ["*ast.BasicLit"; "*ast.BinaryExpr"; "*ast.CallExpr"; "*ast.CompositeLit"; "*ast.Ellipsis"; "*ast.FuncLit";
           "*ast.KeyValueExpr"; "*ast.SelectorExpr"; "*ast.SliceExpr"; "*ast.TypeAssertExpr"; "*ast.UnaryExpr"]
          "spec, Method declarations: the receiver base type is a type name of the same package, optionally followed by type parameter names"]
  ].

(* Panicking switches that are NOT given a theorem: their domain is not a type universe but depends on data
   (pattern-language nodes, reflect kinds, enum values computed by the caller, AST sources of IR values).
   They are covered by the exploration half of the check only. *)
Definition explored_only : list (string * string) :=
  [ ("analysis/callcheck/callcheck.go:checkCalls:site.Source().(type)", "AST source attached to a call instruction by go/ir (data)");
    ("analysis/code/code.go:SelectorName:expr.X.(type)", "X is a package qualifier, or the type expression of a keyed struct literal for which SA1019 builds a synthetic selector: Ident, SelectorExpr, IndexExpr, IndexListExpr (data; explored by the group generic_complit)");
    ("analysis/code/visit.go:CouldMatchAny:node.(type)", "pattern index nodes (C08)");
    ("go/ir/builder.go:builder.addr:mode", "indexMode computed by indexType (data)");
    ("go/ir/builder.go:builder.expr0:mode", "indexMode computed by indexType (data)");
    ("go/ir/builder.go:builder.expr0:e.Op", "unary operator tokens (value switch; type checker guarantees the operator set)");
    ("go/ir/builder.go:builder.expr0:e.Op#1", "binary operator tokens (value switch; type checker guarantees the operator set)");
    ("go/ir/builder.go:builder.buildFromSyntax:fn.syntax.(type)", "syntax stored by go/ir itself: FuncDecl, FuncLit or nil (data)");
    ("go/ir/emit.go:emitArith:op", "arithmetic operator tokens passed by the builder (data)");
    ("go/ir/print.go:CompositeValue.String:typeutil.CoreType(v.typ).(type)", "printing only; CompositeValue is built for structs and arrays only (data)");
    ("internal/diff/myers/diff.go:OpKind.String:k", "enum of the diff package");
    ("internal/xtools-internal/astutil/equal.go:equal:x.Kind()", "reflect kinds (vendored x/tools)");
    ("internal/xtools-internal/graph/graphfmt/dot.go:formatAttr:attr.Val.(type)", "DOT attribute values (vendored x/tools, debugging output)");
    ("internal/xtools-internal/typeparams/free.go:Free.Has:typ.(type)", "vendored x/tools");
    ("internal/xtools-internal/typesinternal/element.go:ForEachElement:T.(type)", "vendored x/tools");
    ("internal/xtools-internal/typesinternal/zerovalue.go:ZeroString:t.(type)", "vendored x/tools");
    ("internal/xtools-internal/typesinternal/zerovalue.go:ZeroExpr:t.(type)", "vendored x/tools");
    ("internal/xtools-internal/typesinternal/zerovalue.go:TypeExpr:t.(type)", "vendored x/tools");
    ("pattern/convert.go:NodeToAST:fAST.Interface().(type)", "pattern language (C08/C09), reflective");
    ("pattern/convert.go:NodeToAST:c.Interface().(type)", "pattern language (C08/C09), reflective");
    ("pattern/convert.go:NodeToAST:c.Interface().(type)#1", "pattern language (C08/C09), reflective");
    ("pattern/convert.go:NodeToAST:c.Kind()", "pattern language (C08/C09), reflect kinds");
    ("pattern/match.go:matchNodeAST:b.(type)", "pattern language (C09), dynamic values of AST fields");
    ("pattern/match.go:matchAST:af.Kind()", "pattern language (C09), reflect kinds");
    ("pattern/match.go:Symbol.Match:ast.Unparen(fun).(type)", "pattern language (C09)");
    ("simple/s1004/s1004.go:CheckBytesCompare:tok", "token bound by the analyzer's own pattern (== or !=)");
    ("staticcheck/fakereflect/fakereflect.go:TypeAndCanAddr.Elem:t.Type.Underlying().(type)", "callers ask for Elem of pointer/slice/array/map kinds only (data)");
    ("staticcheck/sa4023/sa4023.go:run:binop.Op", "token filtered by the enclosing condition (== or !=)");
    ("staticcheck/sa4023/sa4023.go:run:binop.Op#1", "token filtered by the enclosing condition (== or !=)");
    ("staticcheck/sa4029/sa4029.go:run:typeName", "names bound by the analyzer's own pattern");
    ("staticcheck/sa9008/sa9008.go:run:m.State[""elseBranch""].(type)", "node bound by the analyzer's own pattern");
    ("unused/unused.go:graph.read:len(meth.Names)", "go/parser: an interface method has exactly one name, an embedded element none")
  ].

(* ---------- evaluation against the generated tables ---------- *)
Definition find_switch (id : string) : option switch :=
  find (fun sw => String.eqb (sw_id sw) id) gen_switches.

Definition universe_of (r : reg) : option (list string) :=
  match r_univ r with
  | UIface n => lookup n gen_universes
  | UFilter k => lookup k gen_filters
  | UBuiltinPtr => Some builtin_universe
  end.

Definition ex_valid (e : excl) : bool :=
  match ex_check e with
  | Unchecked => true
  | NotConstructed => forallb (fun m => negb (mem m gen_ir_constructed)) (ex_members e)
  end.
(* only valid exclusion groups exclude *)
Definition excluded (r : reg) : list string :=
  flat_map (fun e => if ex_valid e then ex_members e else []) (r_excl r).

(* None: the switch or its universe is no longer found (the tie is broken);
   Some l: the universe members on which the modelled dispatch reaches the panic branch *)
Definition reg_witnesses (r : reg) : option (list string) :=
  match find_switch (r_id r), universe_of r with
  | Some sw, Some u => Some (uncovered gen_universes (sw_cases sw) u (excluded r))
  | _, _ => None
  end.
Definition reg_ok (r : reg) : bool :=
  match reg_witnesses r with Some [] => true | _ => false end.

(* coverage test for a named switch against an explicitly given universe and exclusion list *)
Definition chk (id : string) (univ excl : list string) : bool :=
  match find_switch id with Some sw => covers gen_universes (sw_cases sw) univ excl | None => false end.

Definition registry_report : list (string * option (list string)) :=
  filter (fun x => match snd x with Some [] => false | _ => true end)
         (map (fun r => (r_id r, reg_witnesses r)) registry).

(* ---------- every scanned switch is accounted for ---------- *)
Definition is_registered (id : string) : bool := existsb (fun r => String.eqb (r_id r) id) registry.
Definition is_explored_only (id : string) : bool := existsb (fun e => String.eqb (fst e) id) explored_only.

(* an unregistered type switch is accepted when all its cases lie in one known universe and it covers that
   universe up to the Bad* nodes *)
Definition auto_universes : list string :=
  ["ir.Instruction"; "ir.Value"; "ast.Expr"; "ast.Stmt"; "ast.Decl"; "ast.Spec"; "types.Type"; "types.Object"].
Definition auto_excl : list string := ["*ast.BadExpr"; "*ast.BadStmt"; "*ast.BadDecl"].
Definition case_in_universe (u : string) (c : string) : bool :=
  String.eqb c "nil" || mem c (members gen_universes u) ||
  match lookup c gen_universes with
  | Some l => forallb (fun m => mem m (members gen_universes u)) l
  | None => false
  end.
Definition auto_ok (sw : switch) : bool :=
  match sw_kind sw with
  | KValue => false
  | KType =>
      existsb (fun u => forallb (case_in_universe u) (sw_cases sw) &&
                        covers gen_universes (sw_cases sw) (members gen_universes u) auto_excl)
              auto_universes
  end.
Definition accounted (sw : switch) : bool :=
  is_registered (sw_id sw) || is_explored_only (sw_id sw) || auto_ok sw.
Definition unaccounted : list string := map sw_id (filter (fun sw => negb (accounted sw)) gen_switches).
