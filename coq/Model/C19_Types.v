(* C19: types shared by the generated tables (Gen/C19_*.v) and the model. *)
From Coq Require Import ZArith List.
Import ListNotations.

(* go/types basic kinds that can be the underlying type of a struct field *)
Inductive basic :=
| KBool | KInt | KInt8 | KInt16 | KInt32 | KInt64
| KUint | KUint8 | KUint16 | KUint32 | KUint64 | KUintptr
| KFloat32 | KFloat64 | KComplex64 | KComplex128 | KString | KUnsafePointer.

(* Underlying types as go/gcsizes distinguishes them. TPtr stands for everything that falls through to the
   catch-all of Sizeof: pointers, maps, channels, funcs. Field names do not influence the layout; fields are
   identified by their index. *)
Inductive ty :=
| TBasic (k : basic)
| TPtr
| TSlice
| TIface
| TArray (n : Z) (e : ty)
| TStruct (fs : list ty).

(* one line of structlayout's output (structlayout.Field); e_path = field indices from the top-level struct
   ([] for padding), standing for the dotted name *)
Record entry := mkE { e_path : list nat; e_start : Z; e_end : Z; e_size : Z; e_align : Z; e_pad : bool }.

(* cmd/structlayout-optimize: the comparison chain of byAlignAndSize.Less *)
Inductive ofield := OSize | OAlign.
Inductive cmpstep :=
| CZeroFirst (f : ofield)   (* if i.f == 0 && j.f != 0 { return true }; if j.f == 0 && i.f != 0 { return false } *)
| CDesc (f : ofield)        (* if i.f != j.f { return i.f > j.f } *)
| CAsc (f : ofield).        (* if i.f != j.f { return i.f < j.f } *)
