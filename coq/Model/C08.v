(* C08: what the parser computes to restrict the search for a pattern -- entry node kinds, the symbols
   pattern, root call symbols -- on top of the C09 matcher model, driven by the tables regenerated from
   pattern/parser.go. Definitions only. *)
From Coq Require Import List String ZArith NArith Bool Ascii.
Import ListNotations.
Require Import Verif.Model.C09_Types Verif.Model.C09 Verif.Model.C08_Types.
Open Scope string_scope.

(* the Go type of a pattern node, as the type switches of parser.go see it *)
Definition pat_type (p : pat) : string :=
  match p with
  | PNone => "nil" | PAny => "Any" | PNil => "Nil" | PString _ => "String" | PToken _ => "Token"
  | PBinding _ _ _ => "Binding" | PList _ _ => "List" | POr _ => "Or" | PNot _ => "Not"
  | PNode ty _ => ty | PTypeAware k _ => k
  end.

Definition beh_of {A} (tbl : list (string * A)) (dflt : A) (ty : string) : A :=
  match assoc ty tbl with
  | Some b => b
  | None => match assoc "default" tbl with Some b => b | None => dflt end
  end.

(* ------------------------------------------------------------------ collectEntryNodes *)
Fixpoint entry_kinds (T : entry_tables) (p : pat) : list string :=
  match beh_of (t_ebeh T) ETable (pat_type p) with
  | EAll => t_all T
  | ETable => match assoc (pat_type p) (t_rows T) with Some r => r | None => [] end
  | ERec _ => match p with
              | PBinding _ _ sub => entry_kinds T sub
              | PNot q => entry_kinds T q
              | _ => []
              end
  | ERecList _ => match p with
                  | POr ps => (fix go (l : list pat) : list string :=
                                 match l with [] => [] | q :: l' => entry_kinds T q ++ go l' end) ps
                  | _ => []
                  end
  end%list.

Fixpoint incl_b (a b : list string) : bool :=
  match a with [] => true | x :: a' => mem x b && incl_b a' b end.
Definition set_eqb (a b : list string) : bool := incl_b a b && incl_b b a.

Definition row_of (T : entry_tables) (ty : string) : list string :=
  match assoc ty (t_rows T) with Some r => r | None => [] end.
Definition ta_kinds : list string := ["Symbol"; "Builtin"; "Object"; "IntegerLiteral"; "TrulyConstantExpression"].
Definition is_table (T : entry_tables) (ty : string) : bool :=
  match beh_of (t_ebeh T) ETable ty with ETable => true | _ => false end.
Definition is_all (T : entry_tables) (ty : string) : bool :=
  match beh_of (t_ebeh T) ETable ty with EAll => true | _ => false end.
Definition is_rec (T : entry_tables) (ty : string) : bool :=
  match beh_of (t_ebeh T) ETable ty with ERec _ => true | _ => false end.
Definition is_reclist (T : entry_tables) (ty : string) : bool :=
  match beh_of (t_ebeh T) ETable ty with ERecList _ => true | _ => false end.

(* the go/ast kinds at which a structural pre-match pattern (an Or of struct nodes) can succeed *)
Fixpoint head_kinds (p : pat) : list string :=
  match p with
  | PNode ty _ => [ty]
  | POr ps => (fix go (l : list pat) : list string :=
                 match l with [] => [] | q :: l' => head_kinds q ++ go l' end) ps
  | _ => []
  end%list.

(* the finite obligations on the regenerated tables from which entry_sound follows *)
Definition tables_ok (T : entry_tables) : bool :=
  (* allTypes contains every kind that has a struct pattern node of its own (a row that is exactly [itself]) *)
  forallb (fun kr => match snd kr with
                     | [k] => if String.eqb k (fst kr) then mem k (t_all T) else true
                     | _ => true
                     end) (t_rows T) &&
  (* every kind that can start a match has a pattern node whose row contains it *)
  forallb (fun ty => mem ty (row_of T ty) && is_table T ty) (t_all T) &&
  (* Or collects from all alternatives, Binding from its node; a bare name, Nil and -- because it matches
     whatever its operand does not -- Not can start anywhere *)
  is_reclist T "Or" && is_rec T "Binding" && is_all T "Not" && is_all T "Nil" && is_all T "nil" &&
  is_table T "Any" && incl_b (t_all T) (row_of T "Any") &&
  (* type-aware nodes: every kind their structural pre-match accepts is in their row *)
  forallb (fun k => is_table T k &&
                    match ta_pre k PAny with
                    | Some q => incl_b (entry_kinds T q) (row_of T k)
                    | None => incl_b (t_all T) (row_of T k)
                    end) ta_kinds &&
  (* ... including the kinds outside allTypes (Symbol at IndexListExpr) *)
  forallb (fun k => match ta_pre k PAny with
                    | Some q => incl_b (head_kinds q) (row_of T k)
                    | None => true
                    end) ta_kinds.

(* patterns without a start-anywhere alternative at their root (through Or and bindings with a node): struct
   nodes of allTypes and type-aware nodes with a structural pre-match; for them entry_sound holds at EVERY kind *)
Fixpoint tight (T : entry_tables) (p : pat) : bool :=
  match p with
  | PNode ty _ => mem ty (t_all T)
  | PTypeAware k _ => match ta_pre k PAny with Some _ => true | None => false end
  | POr ps => (fix go (l : list pat) : bool := match l with [] => true | q :: l' => tight T q && go l' end) ps
  | PBinding _ _ sub => negb (is_nilpat sub) && tight T sub
  | PString _ | PToken _ | PList _ _ | PNil | PNone => true     (* never match a node *)
  | PAny | PNot _ => false
  end.

(* names of pattern node types that are not go/ast struct nodes (they have cases of their own in the type
   switches of parser.go); a PNode never carries one of them *)
Definition reserved_names : list string :=
  ["Or"; "Not"; "Token"; "nil"; "Nil"; "Symbol"; "String"; "Binding"; "Any"; "List"; "default";
   "Builtin"; "Object"; "IntegerLiteral"; "TrulyConstantExpression"].

(* patterns the parser can produce: type-aware nodes are the five known ones *)
Definition is_pnone (p : pat) : bool := match p with PNone => true | _ => false end.
Fixpoint known_pat_b (p : pat) : bool :=
  match p with
  | PBinding _ _ sub => known_pat_b sub
  | PList h t => (if is_nilpat h then is_nilpat t else true) && known_pat_b h && known_pat_b t
  | POr ps => (fix go (l : list pat) : bool := match l with [] => true | q :: l' => known_pat_b q && go l' end) ps
  | PNot q => known_pat_b q
  | PNode ty fs => negb (mem ty reserved_names) &&
                    (fix go (l : list (string * pat)) : bool :=
                       match l with [] => true | (_, q) :: l' => negb (is_pnone q) && known_pat_b q && go l' end) fs
  | PTypeAware k arg => mem k ta_kinds && negb (is_pnone arg) && known_pat_b arg
  | _ => true
  end.

(* ------------------------------------------------------------------ symbolToIndexSymbol *)
Fixpoint str_index (c : ascii) (s : string) : option nat :=
  match s with
  | EmptyString => None
  | String a r => if Ascii.eqb a c then Some 0 else option_map S (str_index c r)
  end.
Fixpoint str_last_index (c : ascii) (s : string) : option nat :=
  match s with
  | EmptyString => None
  | String a r => match str_last_index c r with
                  | Some i => Some (S i)
                  | None => if Ascii.eqb a c then Some 0 else None
                  end
  end.
Definition str_drop (n : nat) (s : string) : string := substring n (String.length s - n) s.
Definition str_take (n : nat) (s : string) : string := substring 0 n s.
Definition trim_star (s : string) : string :=
  match s with String "*"%char r => r | _ => s end.

Definition sym_of (name : string) : sympat :=
  match name with
  | EmptyString => SSym "" "" ""
  | String "("%char _ =>
      match str_index ")"%char name with
      | None => SSym "" "" ""
      | Some e =>
          if Nat.ltb (String.length name - 2) e then SSym "" "" ""
          else
            let pt := trim_star (substring 1 (e - 1) name) in
            match str_last_index "."%char pt with
            | None => SSym "" "" ""
            | Some d => SSym (str_take d pt) (str_drop (d + 1) pt) (str_drop (e + 2) name)
            end
      end
  | _ =>
      match str_last_index "."%char name with
      | None => SSym "" "" name
      | Some d => SSym (str_take d name) "" (str_drop (d + 1) name)
      end
  end.

(* ------------------------------------------------------------------ collectSymbols *)
Definition is_sany (s : sympat) : bool := match s with SAny => true | _ => false end.
Definition mk_or (cs : list sympat) : sympat :=
  if existsb is_sany cs then SAny
  else match flat_map (fun c => match c with SOr l => l | SNone => [] | _ => [c] end) cs with
       | [] => SNone
       | [x] => x
       | l => SOr l
       end.
Definition mk_and (cs : list sympat) : sympat :=
  match flat_map (fun c => match c with SAnd l => l | SAny => [] | SNone => [] | _ => [c] end) cs with
  | [] => SAny
  | [x] => x
  | l => SAnd l
  end.

Fixpoint collect (T : entry_tables) (p : pat) (insym : bool) : sympat :=
  match beh_of (t_sbeh T) SBAndAll (pat_type p) with
  | SBAny => SAny
  | SBOr => match p with
            | POr ps => mk_or ((fix go (l : list pat) : list sympat :=
                                  match l with [] => [] | q :: l' => collect T q insym :: go l' end) ps)
            | _ => SOther "Or"
            end
  | SBSymbol _ => match p with PTypeAware _ name => collect T name true | _ => SOther "Symbol" end
  | SBString => match p with
                | PString s => if insym then sym_of s else SAny
                | _ => SOther "String"
                end
  | SBRec _ => match p with
               | PBinding _ _ sub => collect T sub insym
               | PNot q => collect T q insym
               | _ => SOther "Rec"
               end
  | SBAnd _ => match p with
               | PList h t => mk_and [collect T h insym; collect T t insym]
               | _ => SOther "And"
               end
  | SBAndAll =>
      match p with
      | PNode _ fs => mk_and ((fix go (l : list (string * pat)) : list sympat :=
                                 match l with [] => [] | (_, q) :: l' => collect T q insym :: go l' end) fs)
      | PTypeAware _ arg => mk_and [collect T arg insym]
      | PBinding _ _ sub => mk_and [collect T sub insym]
      | PNot q => mk_and [collect T q insym]
      | PList h t => mk_and [collect T h insym; collect T t insym]
      | POr _ => SOther "Or"      (* reflect over Or.Nodes: a slice is not a Node -> panic *)
      | _ => SAny                 (* no fields *)
      end
  end.

(* the shape of collectSymbols that symbols_sound is proved for *)
Definition expected_sbeh : list (string * sbeh) :=
  [("Or", SBOr); ("Not", SBAny); ("Token", SBAny); ("nil", SBAny); ("Symbol", SBSymbol "Name"); ("String", SBString);
   ("Binding", SBRec "Node"); ("Any", SBAny); ("List", SBAnd ["Head"; "Tail"]); ("default", SBAndAll)].
Definition sbeh_eqb (a b : sbeh) : bool :=
  match a, b with
  | SBOr, SBOr | SBAny, SBAny | SBString, SBString | SBAndAll, SBAndAll => true
  | SBSymbol f, SBSymbol g | SBRec f, SBRec g => String.eqb f g
  | SBAnd l, SBAnd l' => (fix go (l l' : list string) : bool :=
                            match l, l' with
                            | [], [] => true
                            | x :: r, y :: r' => String.eqb x y && go r r'
                            | _, _ => false
                            end) l l'
  | _, _ => false
  end.
Fixpoint sbeh_tbl_eqb (a b : list (string * sbeh)) : bool :=
  match a, b with
  | [], [] => true
  | (k, x) :: a', (k', y) :: b' => String.eqb k k' && sbeh_eqb x y && sbeh_tbl_eqb a' b'
  | _, _ => false
  end.
Definition sym_tables_ok (T : entry_tables) : bool := sbeh_tbl_eqb (t_sbeh T) expected_sbeh.

(* code.CouldMatchAny on one pattern *)
Fixpoint could (empty_path_any : bool) (has : string -> string -> string -> bool) (s : sympat) : bool :=
  match s with
  | SAny => true
  | SOr l => existsb (could empty_path_any has) l
  | SAnd l => forallb (could empty_path_any has) l
  | SSym path ty ident => (empty_path_any && String.eqb path "") || has path ty ident
  | SNone | SOther _ => false        (* Go panics *)
  end.

(* ------------------------------------------------------------------ collectRootCallSymbols *)
Fixpoint sym_names (p : pat) : option (list string) :=      (* handleSymName *)
  match p with
  | PString s => Some [s]
  | POr ps => (fix go (l : list pat) : option (list string) :=
                 match l with
                 | [] => Some []
                 | PString s :: l' => option_map (cons s) (go l')
                 | _ => None
                 end) ps
  | PBinding _ _ sub => sym_names sub
  | _ => None
  end.
Fixpoint root_fun (p : pat) : option (list string) :=       (* handleRootFun *)
  match p with
  | PBinding _ _ sub => root_fun sub
  | PTypeAware k name => if String.eqb k "Symbol" then sym_names name else None
  | POr ps => (fix go (l : list pat) : option (list string) :=
                 match l with
                 | [] => Some []
                 | PTypeAware k name :: l' =>
                     if String.eqb k "Symbol" then
                       match sym_names name, go l' with Some a, Some b => Some (a ++ b)%list | _, _ => None end
                     else None
                 | _ => None
                 end) ps
  | _ => None
  end.
Definition root_call_names (p : pat) : list string :=
  match p with
  | PNode ty fs =>
      if String.eqb ty "CallExpr" then
        match assoc "Fun" fs with
        | Some f => match root_fun f with Some l => l | None => [] end
        | None => []
        end
      else []
  | _ => []
  end.
Definition root_call_symbols (p : pat) : list sympat := map sym_of (root_call_names p).
