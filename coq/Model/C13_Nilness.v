(* C13/C15 — the 5-point nilness lattice, with Merge read from the regenerated table
   (Gen/C13_NilnessTable.v <- latticeMerge in analysis/facts/nilness/nilness.go). *)
From Coq Require Import List NArith Bool.
Import ListNotations.
Require Import Verif.Model.C13 Verif.Gen.C13_NilnessTable.

Inductive nilness := NoNil | NeverNil | AlwaysNil | MaybeNilGlobal | MaybeNil.

Definition nil_to_N (a : nilness) : N :=
  match a with
  | NoNil => 0%N | NeverNil => gen_NeverNil | AlwaysNil => gen_AlwaysNil
  | MaybeNilGlobal => gen_MaybeNilGlobal | MaybeNil => gen_MaybeNil
  end.

(* numbers that are not a constant of the code map to None *)
Definition nil_of_N_opt (x : N) : option nilness :=
  if N.eqb x 0 then Some NoNil
  else if N.eqb x gen_NeverNil then Some NeverNil
  else if N.eqb x gen_AlwaysNil then Some AlwaysNil
  else if N.eqb x gen_MaybeNilGlobal then Some MaybeNilGlobal
  else if N.eqb x gen_MaybeNil then Some MaybeNil
  else None.
Definition nil_of_N (x : N) : nilness := match nil_of_N_opt x with Some a => a | None => NoNil end.

Definition nil_eqb (a b : nilness) : bool :=
  match a, b with
  | NoNil, NoNil | NeverNil, NeverNil | AlwaysNil, AlwaysNil
  | MaybeNilGlobal, MaybeNilGlobal | MaybeNil, MaybeNil => true
  | _, _ => false
  end.

Definition nil_merge (a b : nilness) : nilness :=
  nil_of_N (table_merge gen_nilness_table (nil_to_N a) (nil_to_N b)).

Definition all_nilness : list nilness := [NoNil; NeverNil; AlwaysNil; MaybeNilGlobal; MaybeNil].

Global Instance NilSemilattice : Semilattice nilness :=
  {| ident := NoNil; merge := nil_merge; eqv := nil_eqb |}.

(* ValueNilness{Inner, Outer} as a pair (inner, outer) *)
Definition vn : Type := (nilness * nilness)%type.
Global Instance VNSemilattice : Semilattice vn := ProdSemilattice NilSemilattice NilSemilattice.

(* dfa.DenseMapLattice[ValueNilness, lattice]: the fact type of the nilness analysis *)
Global Instance NilStateSemilattice : Semilattice (list vn) := @DenseMapSemilattice vn VNSemilattice.

(* the table is well-formed as data: dim x dim, entries below dim, constants distinct and below dim *)
Definition table_shape_ok : bool :=
  N.eqb (N.of_nat (length gen_nilness_table)) gen_nilness_dim &&
  forallb (fun row => N.eqb (N.of_nat (length row)) gen_nilness_dim &&
                      forallb (fun x => match nil_of_N_opt x with Some _ => true | None => false end) row)
          gen_nilness_table &&
  forallb (fun a => nil_eqb (nil_of_N (nil_to_N a)) a && N.ltb (nil_to_N a) gen_nilness_dim) all_nilness.

(* rank: height of an element in the merge order (0 for the identity) *)
Definition nil_rank (a : nilness) : nat :=
  length (filter (fun b => leqb b a && negb (nil_eqb b a)) all_nilness).
