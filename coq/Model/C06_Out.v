(* C06: the printed order.  printDiagnostics sorts the collected diagnostics with sort.Slice (an unstable
   sort) by a chain of field comparisons and prints the result; the chain is regenerated from the source
   (Gen/C06_SortKey.v).  A diagnostic is modelled by the values of its printed fields, each encoded as an
   integer in an order-preserving way (strings by their rank among the strings of the run). *)
From Coq Require Import List ZArith Bool.
Import ListNotations.

Inductive dfield :=
| DPosFile | DPosLine | DPosCol | DPosOffset | DMessage | DCategory | DBuildName
| DEndFile | DEndLine | DEndCol | DEndOffset | DSeverity.

Definition fidx (f : dfield) : nat :=
  match f with
  | DPosFile => 0 | DPosLine => 1 | DPosCol => 2 | DPosOffset => 3 | DMessage => 4 | DCategory => 5 | DBuildName => 6
  | DEndFile => 7 | DEndLine => 8 | DEndCol => 9 | DEndOffset => 10 | DSeverity => 11
  end%nat.

Definition diag := list Z.
Definition proj (f : dfield) (d : diag) : Z := nth (fidx f) d 0%Z.

(* `if X_i != X_j { return X_i < X_j } ...; return X_i < X_j` *)
Fixpoint lessb (key : list dfield) (x y : diag) : bool :=
  match key with
  | [] => false
  | f :: r => match Z.compare (proj f x) (proj f y) with Lt => true | Gt => false | Eq => lessb r x y end
  end.

Fixpoint key_eqb (key : list dfield) (x y : diag) : bool :=
  match key with [] => true | f :: r => Z.eqb (proj f x) (proj f y) && key_eqb r x y end.

(* what a correct sort guarantees of its result: no later element is less than an earlier one *)
Fixpoint sortedb (key : list dfield) (l : list diag) : bool :=
  match l with [] => true | x :: r => forallb (fun z => negb (lessb key z x)) r && sortedb key r end.

Fixpoint diag_eqb (x y : diag) : bool :=
  match x, y with
  | [], [] => true
  | a :: r, b :: s => Z.eqb a b && diag_eqb r s
  | _, _ => false
  end.

(* the order is total on the list: two entries with the same key are the same entry *)
Fixpoint key_totalb (key : list dfield) (l : list diag) : bool :=
  match l with
  | [] => true
  | x :: r => forallb (fun z => implb (key_eqb key x z) (diag_eqb x z)) r && key_totalb key r
  end.

Definition key_has (key : list dfield) (f : dfield) : bool := existsb (fun g => Nat.eqb (fidx f) (fidx g)) key.
(* fields every formatter prints and that therefore have to take part in the order *)
Definition printed_fields : list dfield := [DPosFile; DPosLine; DPosCol; DMessage; DCategory].
Definition key_covers_printed (key : list dfield) : bool := forallb (key_has key) printed_fields.
