(* C13 — dataflow solvers and lattices: executable definitions only.
   Transcribes analysis/dfa/dense/forward.go (Forward, propagate, merge), analysis/dfa/sparse/dfa.go
   (Instance.Forward) and analysis/dfa/lattice.go (MapLattice, DenseMapLattice). *)
From Coq Require Import List Arith Bool NArith.
Import ListNotations.

(* ------------------------------------------------------------------ semilattices *)
(* dfa.Semilattice: Ident / Merge / Equals.  [eqv] is a boolean equivalence, not Leibniz equality
   (DenseMapLattice.Equals identifies slices that differ by trailing identities). *)
Class Semilattice (F : Type) := {
  ident : F;
  merge : F -> F -> F;
  eqv : F -> F -> bool
}.

Class SemilatticeLaws (F : Type) {L : Semilattice F} := {
  eqv_refl : forall a, eqv a a = true;
  eqv_sym : forall a b, eqv a b = true -> eqv b a = true;
  eqv_trans : forall a b c, eqv a b = true -> eqv b c = true -> eqv a c = true;
  merge_cong : forall a a' b b', eqv a a' = true -> eqv b b' = true -> eqv (merge a b) (merge a' b') = true;
  merge_assoc : forall a b c, eqv (merge a (merge b c)) (merge (merge a b) c) = true;
  merge_comm : forall a b, eqv (merge a b) (merge b a) = true;
  merge_idem : forall a, eqv (merge a a) a = true;
  merge_ident : forall a, eqv (merge a ident) a = true
}.

(* the order induced by Merge (Ident is the least element, Merge the least upper bound) *)
Definition leqb {F} {L : Semilattice F} (a b : F) : bool := eqv (merge a b) b.
Definition leq {F} {L : Semilattice F} (a b : F) : Prop := leqb a b = true.

(* ------------------------------------------------------------------ list helpers *)
Fixpoint upd {A} (l : list A) (i : nat) (x : A) : list A :=
  match l, i with
  | [], _ => []
  | _ :: t, 0 => x :: t
  | h :: t, S j => h :: upd t j x
  end.

Definition memb (x : nat) (l : list nat) : bool := existsb (Nat.eqb x) l.
Definition enqueue (w : list nat) (x : nat) : list nat := if memb x w then w else w ++ [x].
Definition rm (b : nat) (w : list nat) : list nat := filter (fun x => negb (Nat.eqb x b)) w.

(* ------------------------------------------------------------------ dense solver *)
Section Dense.
  Context {F : Type} {L : Semilattice F}.
  Variable succs : list (list nat).          (* node -> out-edges in Out() order; multi-edges allowed *)
  Variable transfer : nat -> nat -> F -> F.  (* from, to, fact on entry to from *)
  Variable entry : nat -> option F.          (* the entry map *)

  Definition nn : nat := length succs.
  Definition succs_of (b : nat) : list nat := nth b succs [].
  Definition outdeg (b : nat) : nat := length (succs_of b).
  Definition succ_at (b i : nat) : nat := nth i (succs_of b) 0.

  (* Forward's "construct back-edges": preds of b in (source node, out index) order *)
  Definition preds (b : nat) : list (nat * nat) :=
    flat_map (fun p => flat_map (fun i => if Nat.eqb (succ_at p i) b then [(p, i)] else [])
                                (seq 0 (outdeg p)))
             (seq 0 nn).

  Record state := mkState {
    dirty : list bool;
    inF : list F;
    outF : list (list F);
    work : list nat          (* the queue as a duplicate-free list; the heap order is abstracted by [pick] *)
  }.

  Definition get_in (s : state) (b : nat) : F := nth b (inF s) ident.
  Definition get_out (s : state) (p i : nat) : F := nth i (nth p (outF s) []) ident.
  Definition is_dirty (s : state) (p : nat) : bool := nth p (dirty s) false.

  (* fact carried by a predecessor edge: Ident while the predecessor has never been propagated *)
  Definition eff (s : state) (e : nat * nat) : F :=
    if is_dirty s (fst e) then ident else get_out s (fst e) (snd e).

  (* fwdBuilder.merge *)
  Definition mrg (a b : F) : F := if eqv a b then a else merge a b.

  Definition in_of (s : state) (b : nat) : F :=
    match preds b with
    | [] => get_in s b
    | e :: rest => fold_left (fun acc e' => mrg acc (eff s e')) rest (eff s e)
    end.

  Definition entry0 (b : nat) : F := match entry b with Some f => f | None => ident end.

  Definition init : state :=
    mkState (repeat true nn)
            (map entry0 (seq 0 nn))
            (map (fun ss => repeat ident (length ss)) succs)
            (seq 0 nn).

  (* one iteration of propagate() with [b] the dequeued node *)
  Definition out_res (s : state) (b : nat) (inn : F) (i : nat) : F * bool :=
    let ef := transfer b (succ_at b i) inn in
    let old := get_out s b i in
    if is_dirty s b || negb (eqv old ef) then (ef, true) else (old, false).

  Definition step_at (b : nat) (s : state) : state :=
    let w := rm b (work s) in
    let inn := in_of s b in
    if negb (is_dirty s b) && eqv inn (get_in s b) then
      mkState (dirty s) (inF s) (outF s) w
    else
      let res := map (out_res s b inn) (seq 0 (outdeg b)) in
      let enq := map (fun i => succ_at b i)
                     (filter (fun i => snd (out_res s b inn i)) (seq 0 (outdeg b))) in
      mkState (upd (dirty s) b false) (upd (inF s) b inn) (upd (outF s) b (map fst res))
              (fold_left enqueue enq w).

  (* any pick function is admissible: an answer outside the queue is replaced by the queue's head *)
  Definition pick_ok (pick : list nat -> nat) (w : list nat) : nat :=
    let b := pick w in if memb b w then b else hd 0 w.

  Fixpoint run (pick : list nat -> nat) (fuel : nat) (s : state) : option state :=
    match work s with
    | [] => Some s
    | _ :: _ =>
      match fuel with
      | 0 => None
      | S f => run pick f (step_at (pick_ok pick (work s)) s)
      end
    end.

  (* an arbitrary schedule: the sequence of dequeued nodes *)
  Fixpoint steps (picks : list nat) (s : state) : option state :=
    match picks with
    | [] => Some s
    | b :: r => if memb b (work s) then steps r (step_at b s) else None
    end.

  (* Forward's result: In(b) and the edge facts, by (node, out index) *)
  Definition result_in (s : state) : list F := map (get_in s) (seq 0 nn).
  Definition result_out (s : state) : list (list F) :=
    map (fun b => map (get_out s b) (seq 0 (outdeg b))) (seq 0 nn).

  (* ---- specification side: the equations of a solution, as booleans over (ins, outs) tables *)
  Definition big_merge (l : list F) : F := fold_right merge ident l.
  Definition tin (ins : list F) (b : nat) : F := nth b ins ident.
  Definition tout (outs : list (list F)) (p i : nat) : F := nth i (nth p outs []) ident.

  Definition in_eq (outf : nat -> nat -> F) (b : nat) : F :=
    match preds b with
    | [] => entry0 b
    | ps => big_merge (map (fun e => outf (fst e) (snd e)) ps)
    end.

  (* the solution equations: In(b) = merge of incoming edge facts (entry fact / Ident without
     predecessors), Edge(b, i) = transfer(In(b)) *)
  Definition is_fixpoint_b (inf : nat -> F) (outf : nat -> nat -> F) : bool :=
    forallb (fun b => eqv (inf b) (in_eq outf b) &&
                      forallb (fun i => eqv (outf b i) (transfer b (succ_at b i) (inf b)))
                              (seq 0 (outdeg b)))
            (seq 0 nn).

  (* naive Kleene iteration from the all-Ident tables *)
  Definition kleene_step (io : list F * list (list F)) : list F * list (list F) :=
    let '(ins, outs) := io in
    (map (in_eq (tout outs)) (seq 0 nn),
     map (fun b => map (fun i => transfer b (succ_at b i) (tin ins b)) (seq 0 (outdeg b))) (seq 0 nn)).

  Definition tables_eqv (a b : list F * list (list F)) : bool :=
    forallb (fun n => eqv (tin (fst a) n) (tin (fst b) n) &&
                      forallb (fun i => eqv (tout (snd a) n i) (tout (snd b) n i)) (seq 0 (outdeg n)))
            (seq 0 nn).

  Fixpoint kleene (fuel : nat) (io : list F * list (list F)) : option (list F * list (list F)) :=
    match fuel with
    | 0 => None
    | S f => let io' := kleene_step io in
             if tables_eqv io io' then Some io else kleene f io'
    end.

  Definition kleene_init : list F * list (list F) :=
    (repeat ident nn, map (fun ss => repeat ident (length ss)) succs).
End Dense.

Arguments mkState {F}.
Arguments dirty {F}. Arguments inF {F}. Arguments outF {F}. Arguments work {F}.

(* ------------------------------------------------------------------ the priority order of nodeHeap *)
(* graph.Postorder (DFS from every node in ascending order, successors in Out() order; the onStack test of
   the code is subsumed by the visited test) and nodeHeap's priority = position in the reverse postorder *)
Section HeapOrder.
  Variable succs : list (list nat).
  Fixpoint po_visit (fuel : nat) (u : nat) (acc : list nat * list nat) : list nat * list nat :=
    match fuel with
    | 0 => acc
    | S k =>
      if memb u (fst acc) then acc
      else let acc1 := fold_left (fun a v => po_visit k v a) (nth u succs []) (u :: fst acc, snd acc) in
           (fst acc1, snd acc1 ++ [u])
    end.
  Definition postorder : list nat :=
    snd (fold_left (fun a u => po_visit (S (length succs)) u a) (seq 0 (length succs)) ([], [])).
  Definition rpo : list nat := rev postorder.
  Fixpoint pos_in (x : nat) (l : list nat) (k : nat) : nat :=
    match l with [] => k | y :: t => if Nat.eqb x y then k else pos_in x t (S k) end.
  Definition prio (b : nat) : nat := pos_in b rpo 0.
  (* dequeue: the queued node of least priority *)
  Definition pick_heap (w : list nat) : nat :=
    match w with
    | [] => 0
    | x :: t => fold_left (fun best y => if Nat.ltb (prio y) (prio best) then y else best) t x
    end.
End HeapOrder.

(* ------------------------------------------------------------------ sparse solver *)
Section Sparse.
  Context {F : Type} {L : Semilattice F}.
  (* instruction i (0 <= i < length instrs) defines value i; operands are value ids; ids >= the number
     of instructions stand for parameters, constants, globals (never written by the solver). *)
  Variable instrs : list (list nat * bool).      (* operands, is-phi *)
  Variable transfer : nat -> (nat -> F) -> list (nat * F).   (* Transfer(ins, instr): mappings (value, state) *)

  Definition ni : nat := length instrs.
  Definition ops_of (i : nat) : list nat := fst (nth i instrs ([], false)).
  Definition is_phi (i : nat) : bool := snd (nth i instrs ([], false)).
  Definition referrers (i : nat) : list nat := filter (fun j => memb i (ops_of j)) (seq 0 ni).

  Record sstate := mkS { smap : list (nat * F); swork : list nat }.

  (* Instance.Value: the mapped state or Ident *)
  Fixpoint lookup (m : list (nat * F)) (v : nat) : F :=
    match m with
    | [] => ident
    | (k, x) :: t => if Nat.eqb k v then x else lookup t v
    end.
  Definition value (s : sstate) (v : nat) : F := lookup (smap s) v.

  Definition apply_mapping (i : nat) (s : sstate) (d : nat * F) : sstate :=
    if eqv (snd d) (value s (fst d)) then s
    else mkS ((fst d, snd d) :: smap s) (fold_left enqueue (referrers i) (swork s)).

  Definition sstep_at (i : nat) (s : sstate) : sstate :=
    let s1 := mkS (smap s) (rm i (swork s)) in
    let ds := if is_phi i
              then [(i, fold_left (fun d e => merge d (value s1 e)) (ops_of i) ident)]
              else transfer i (value s1) in
    fold_left (apply_mapping i) ds s1.

  Definition sinit (m0 : list (nat * F)) : sstate := mkS m0 (seq 0 ni).

  Fixpoint srun (pick : list nat -> nat) (fuel : nat) (s : sstate) : option sstate :=
    match swork s with
    | [] => Some s
    | _ :: _ =>
      match fuel with
      | 0 => None
      | S f => srun pick f (sstep_at (pick_ok pick (swork s)) s)
      end
    end.

  Fixpoint ssteps (picks : list nat) (s : sstate) : option sstate :=
    match picks with
    | [] => Some s
    | i :: r => if memb i (swork s) then ssteps r (sstep_at i s) else None
    end.
End Sparse.

Arguments mkS {F}. Arguments smap {F}. Arguments swork {F}.

(* ------------------------------------------------------------------ dfa.MapLattice *)
Section MapLattice.
  Context {E : Type} {LE : Semilattice E}.
  (* a Go map[Key]Elem with Key = nat as an association list with distinct keys *)
  Definition amap := list (nat * E).

  Fixpoint afind (m : amap) (k : nat) : option E :=
    match m with
    | [] => None
    | (k', v) :: t => if Nat.eqb k' k then Some v else afind t k
    end.

  (* maps.EqualFunc(a, b, l.Equals) *)
  Definition map_equals (a b : amap) : bool :=
    Nat.eqb (length a) (length b) &&
    forallb (fun kv => match afind b (fst kv) with Some w => eqv (snd kv) w | None => false end) a.

  (* MapLattice.Merge; None = the panic "is not a semilattice" *)
  Definition map_merge_opt (a b : amap) : option amap :=
    match a, b with
    | [], _ => Some b
    | _, [] => Some a
    | _, _ =>
      let fromA := map (fun kv => match afind b (fst kv) with
                                  | None => Some kv
                                  | Some bv => let w := merge (snd kv) bv in
                                               if eqv w ident then None else Some (fst kv, w)
                                  end) a in
      if forallb (fun o => match o with Some _ => true | None => false end) fromA then
        Some (flat_map (fun o => match o with Some kv => [kv] | None => [] end) fromA ++
              filter (fun kv => match afind a (fst kv) with None => true | Some _ => false end) b)
      else None
    end.
  Definition map_merge (a b : amap) : amap :=
    match map_merge_opt a b with Some m => m | None => [] end.

  Definition map_get (m : amap) (k : nat) : E := match afind m k with Some v => v | None => ident end.

  (* representation invariant stated in lattice.go: distinct keys, identity never stored *)
  Fixpoint keys_distinct (m : amap) : bool :=
    match m with
    | [] => true
    | (k, _) :: t => negb (existsb (fun kv => Nat.eqb (fst kv) k) t) && keys_distinct t
    end.
  Definition map_wf (m : amap) : bool := keys_distinct m && forallb (fun kv => negb (eqv (snd kv) ident)) m.

  Definition MapSemilattice : Semilattice amap := {| ident := []; merge := map_merge; eqv := map_equals |}.
End MapLattice.

(* ------------------------------------------------------------------ dfa.DenseMapLattice *)
Section DenseMapLattice.
  Context {E : Type} {LE : Semilattice E}.

  Fixpoint all_eqv (a b : list E) : bool :=    (* slices.EqualFunc on equal-length prefixes *)
    match a, b with
    | x :: a', y :: b' => eqv x y && all_eqv a' b'
    | _, _ => true
    end.

  Definition dense_equals (a b : list E) : bool :=
    let nmin := Nat.min (length a) (length b) in
    all_eqv (firstn nmin a) (firstn nmin b) &&
    negb (existsb (fun e => negb (eqv e ident)) (skipn nmin a)) &&
    negb (existsb (fun e => negb (eqv e ident)) (skipn nmin b)).

  Definition dense_merge (a b : list E) : list E :=
    match a, b with
    | [], _ => b
    | _, [] => a
    | _, _ => map (fun k => merge (nth k a ident) (nth k b ident)) (seq 0 (Nat.max (length a) (length b)))
    end.

  Definition DenseMapSemilattice : Semilattice (list E) :=
    {| ident := []; merge := dense_merge; eqv := dense_equals |}.
End DenseMapLattice.

(* ------------------------------------------------------------------ product and table lattices *)
Definition ProdSemilattice {A B} (LA : Semilattice A) (LB : Semilattice B) : Semilattice (A * B) :=
  {| ident := (ident, ident);
     merge := fun x y => (merge (fst x) (fst y), merge (snd x) (snd y));
     eqv := fun x y => eqv (fst x) (fst y) && eqv (snd x) (snd y) |}.

(* a finite lattice on N given by a merge table (nilness: Gen/C13_NilnessTable.v); 0 is the identity *)
Definition table_merge (t : list (list N)) (a b : N) : N := nth (N.to_nat b) (nth (N.to_nat a) t []) 0%N.
Definition TableSemilattice (t : list (list N)) : Semilattice N :=
  {| ident := 0%N; merge := table_merge t; eqv := N.eqb |}.

(* bitsets with union (gen/kill analyses) *)
Definition BitsSemilattice : Semilattice N := {| ident := 0%N; merge := N.lor; eqv := N.eqb |}.

(* the laws as a boolean over a finite carrier (used for regenerated tables) *)
Definition laws_b {F} (L : Semilattice F) (carrier : list F) : bool :=
  forallb (fun a =>
    eqv (merge a a) a && eqv (merge a ident) a && eqv (merge ident a) a &&
    forallb (fun b =>
      eqv (merge a b) (merge b a) &&
      existsb (fun c => eqv (merge a b) c) carrier &&
      forallb (fun c => eqv (merge a (merge b c)) (merge (merge a b) c)) carrier) carrier) carrier.
