(* C19: executable comparison of the model / the gc rules / the property predicates with what the
   implementation (gcsizes in-process, the structlayout commands) and the compiler produced.
   Used by cases/C19/*.v written by checks/C19.py (vm_compute). *)
From Coq Require Import List ZArith Bool.
Import ListNotations.
Require Import Verif.Model.C19_Types Verif.Gen.C19_BasicSizes Verif.Gen.C19_Optimize Verif.Model.C19.
Open Scope Z_scope.

Record gcres := mkG { g_arch : arch; g_size : Z; g_align : Z; g_offsets : list Z }.
Record case := mkCase {
  c_ty : ty;                                   (* the struct type *)
  c_tools : bool;                              (* run through the commands too (otherwise (i) and (iii) only) *)
  c_gcsizes : list gcres;                      (* (i) gcsizes in-process; the head is ForArch(host) *)
  c_csize : Z; c_calign : Z; c_coffsets : list Z;          (* (iii) compiler: Sizeof, Alignof, Offsetof of the fields *)
  c_cleaves : list (list nat * Z * Z * Z);     (* (iii) compiler: path, absolute offset, Sizeof, Alignof of every leaf *)
  c_lay : option (list entry);                 (* (ii) structlayout -json; None = the command failed *)
  c_opt : option (list entry);                 (* (ii) ... | structlayout-optimize -json *)
  c_optr : option (list entry)                 (* (ii) ... | structlayout-optimize -r -json *)
}.
Definition host : arch := (8, 8).

Inductive diff :=
(* model <> implementation *)
| MGcsizes (i : nat) | MSpec | MLayout | MOpt (r : bool)
(* property predicate false on the implementation's output *)
| VGcsizes | VToolFailed | VLeaves | VTiles | VOptPerm (r : bool) | VOptValid (r : bool) | VOptLarger (r : bool).

Fixpoint zlist_eqb (a b : list Z) : bool :=
  match a, b with [], [] => true | x :: a', y :: b' => (x =? y) && zlist_eqb a' b' | _, _ => false end.
Fixpoint path_eqb (a b : list nat) : bool :=
  match a, b with [], [] => true | x :: a', y :: b' => Nat.eqb x y && path_eqb a' b' | _, _ => false end.
Definition entry_eqb (x y : entry) : bool :=
  path_eqb (e_path x) (e_path y) && (e_start x =? e_start y) && (e_end x =? e_end y) && (e_size x =? e_size y)
  && (e_align x =? e_align y) && Bool.eqb (e_pad x) (e_pad y).
Fixpoint forall2b {A B} (f : A -> B -> bool) (a : list A) (b : list B) : bool :=
  match a, b with [], [] => true | x :: a', y :: b' => f x y && forall2b f a' b' | _, _ => false end.
Definition count_path (p : list nat) (l : list (list nat)) : nat := length (filter (path_eqb p) l).
Definition perm_paths (a b : list (list nat)) : bool :=
  Nat.eqb (length a) (length b) && forallb (fun p => Nat.eqb (count_path p a) (count_path p b)) a.

(* ---- the property's predicates, on observed outputs only ---- *)

(* entries cover [0, total) without gaps or overlaps, with consistent sizes *)
Fixpoint tiles_from (l : list entry) (pos total : Z) : bool :=
  match l with
  | [] => pos =? total
  | e :: r => (e_start e =? pos) && (e_end e =? pos + e_size e) && (0 <=? e_size e) && tiles_from r (e_end e) total
  end.
Definition tiles_b (l : list entry) (total : Z) : bool := tiles_from l 0 total.

(* a non-padding line of structlayout against the compiler's view of the same leaf.  A zero-sized leaf may be shown
   with size 1 (the tool's way of displaying the byte gc adds after a trailing zero-size field); whether that byte
   exists is settled by the tiling test against the compiler's Sizeof *)
Definition leaf_ok (e : entry) (c : list nat * Z * Z * Z) : bool :=
  let '(p, off, sz, al) := c in
  path_eqb (e_path e) p && (e_start e =? off) && (e_align e =? al)
  && ((e_size e =? sz) || ((sz =? 0) && (e_size e =? 1))).

Definition find_entry (p : list nat) (l : list entry) : option entry :=
  find (fun e => negb (e_pad e) && path_eqb (e_path e) p) l.
(* top-level field g as the input presents it: start of its first leaf, end of its last leaf, largest alignment *)
Definition group_span (g : nat) (inp : list entry) : option (Z * Z * Z) :=
  fold_left (fun acc e =>
               if e_pad e || negb (Nat.eqb (grp e) g) then acc
               else match acc with
                    | None => Some (e_start e, e_end e, e_align e)
                    | Some (s, _, al) => Some (s, e_end e, Z.max al (e_align e))
                    end) inp None.
Fixpoint dedup_adjacent (l : list nat) : list nat :=
  match l with
  | x :: ((y :: _) as r) => if Nat.eqb x y then dedup_adjacent r else x :: dedup_adjacent r
  | _ => l
  end.
Definition groups (inp : list entry) : list nat := dedup_adjacent (map grp (nonpad inp)).

Definition opt_perm_b (r : bool) (inp out : list entry) : bool :=
  perm_paths (map e_path (nonpad out))
             (if r then map e_path (nonpad inp) else map (fun g => [g]) (groups inp)).
Definition unit_ok (r : bool) (inp : list entry) (e : entry) : bool :=
  if r then match find_entry (e_path e) inp with
            | Some i => (e_size e =? e_size i) && (e_align e =? e_align i)
            | None => false
            end
  else match e_path e with
       | [g] => match group_span g inp with
                | Some (s, en, al) => (e_align e =? al) && (en - s <=? e_size e)
                | None => false
                end
       | _ => false
       end.
(* the output is a layout: contiguous from 0, every field at a multiple of its alignment and with the size and
   alignment of the input field (default path: room for all its leaves), total a multiple of the largest alignment *)
Definition opt_valid_b (r : bool) (inp out : list entry) : bool :=
  tiles_b out (end_of out)
  && forallb (fun e => e_pad e || ((1 <=? e_align e) && (e_start e mod e_align e =? 0) && unit_ok r inp e)) out
  && (end_of out mod units_align (nonpad out) =? 0).
Definition opt_not_larger_b (inp out : list entry) : bool := end_of out <=? end_of inp.

(* ---- one case ---- *)
Definition profile (l : list entry) := map (fun e => (e_start e, e_end e, e_size e, e_align e, e_pad e)) l.
Definition profile_eqb (a b : list entry) : bool :=
  forall2b (fun x y => entry_eqb (mkE [] (e_start x) (e_end x) (e_size x) (e_align x) (e_pad x))
                                 (mkE [] (e_start y) (e_end y) (e_size y) (e_align y) (e_pad y))) a b.
Definition cleaf_eqb (x y : list nat * Z * Z * Z) : bool :=
  let '(p, o, s, a) := x in let '(p', o', s', a') := y in path_eqb p p' && (o =? o') && (s =? s') && (a =? a').

Definition opt_diffs (r : bool) (lay : list entry) (o : option (list entry)) : list diff * list diff :=
  match o with
  | None => ([], [VToolFailed])
  | Some out =>
      ((if profile_eqb (optimize gen_less_chain r lay) out then [] else [MOpt r]),
       (if opt_perm_b r lay out then [] else [VOptPerm r]) ++
       (if opt_valid_b r lay out then [] else [VOptValid r]) ++
       (if opt_not_larger_b lay out then [] else [VOptLarger r]))
  end.

Definition case_diffs (c : case) : list diff * list diff :=
  let t := c_ty c in
  let mg := flat_map (fun ig =>
              let g := snd ig in
              if (sizeof gen_tables (g_arch g) t =? g_size g) && (alignof gen_tables (g_arch g) t =? g_align g)
                 && zlist_eqb (offsetsof gen_tables (g_arch g) t) (g_offsets g) then [] else [MGcsizes (fst ig)])
              (List.combine (seq 0 (length (c_gcsizes c))) (c_gcsizes c)) in
  let ms := if (gc_sizeof host t =? c_csize c) && (gc_alignof host t =? c_calign c)
               && zlist_eqb (gc_offsetsof host t) (c_coffsets c)
               && forall2b cleaf_eqb (gc_leaves (fst host) (snd host) t [] 0) (c_cleaves c) then [] else [MSpec] in
  let vg := match c_gcsizes c with
            | g :: _ => if (g_size g =? c_csize c) && (g_align g =? c_calign c) && zlist_eqb (g_offsets g) (c_coffsets c)
                        then [] else [VGcsizes]
            | [] => [VGcsizes]
            end in
  if negb (c_tools c) then (mg ++ ms, vg) else
  match c_lay c with
  | None => (mg ++ ms, vg ++ [VToolFailed])
  | Some lay =>
      let ml := if forall2b entry_eqb (layout gen_tables host t) lay then [] else [MLayout] in
      let vl := (if forall2b leaf_ok (nonpad lay) (c_cleaves c) then [] else [VLeaves]) ++
                (if tiles_b lay (c_csize c) then [] else [VTiles]) in
      let '(mo, vo) := opt_diffs false lay (c_opt c) in
      let '(mr, vr) := opt_diffs true lay (c_optr c) in
      (mg ++ ms ++ ml ++ mo ++ mr, vg ++ vl ++ vo ++ vr)
  end.

Definition numbered {A} (l : list (list A)) : list (nat * list A) :=
  filter (fun x => match snd x with [] => false | _ => true end) (List.combine (seq 0 (length l)) l).
Definition mismatches (cs : list case) := numbered (map (fun c => fst (case_diffs c)) cs).
Definition violations (cs : list case) := numbered (map (fun c => snd (case_diffs c)) cs).
