(* C06: the runner's scheduler (lintcmd/runner/runner.go: Run, runAnalyzers, genericHandle,
   baseAction.DecrementPending, newPackageAction, newAnalyzerAction; internal/sync.Semaphore) as a labelled
   transition system.  Definitions only; the proofs are in Proofs/C06*.v.

   One "level" is one execution of the loop `for item := range queue { acquire; handle }` over one action
   graph.  The package level ([top = true], Run) has an unbuffered queue, a seeding goroutine, a blocking
   Acquire and always starts a goroutine; an analyzer level ([top = false], runAnalyzers) has a buffered
   queue seeded by the loop's own thread before the loop, uses AcquireMaybe and runs the handler inline
   when no token is available.  The global system (section Global) is one package level plus, for every
   package whose `exec` is in progress, one analyzer level, all sharing the semaphore.

   A step is a partial function of (state, label); all nondeterminism (the schedule) is the choice of the
   next label.  [bad] is set when an action is handed to a handler although it already has one: the model
   can represent a double start, and [exec_once] proves it unreachable. *)
From Coq Require Import List Arith Bool Lia PeanoNat NArith Strings.Byte.
Import ListNotations.
Require Import Verif.Model.C06_Map.

(* ------------------------------------------------------------------------------------------------ *)
(* Action graphs                                                                                    *)

(* [nodes]: all actions except the synthetic root, in an order in which dependencies come first.
   [deps]/[trig]: `deps`/`triggers` slices (with multiplicity, in slice order); [pend0]: initial value of
   `pending`; [ifail]: `failed` as set during construction of the graph. *)
Record dag := mkdag {
  nodes : list nat; root : nat;
  deps : nat -> list nat; trig : nat -> list nat;
  pend0 : nat -> nat; ifail : nat -> bool }.

Definition alln (G : dag) : list nat := root G :: nodes G.

Fixpoint idx (a : nat) (l : list nat) : nat :=
  match l with [] => 0 | x :: r => if x =? a then 0 else S (idx a r) end.

Definition rank (G : dag) (a : nat) : nat := if a =? root G then length (nodes G) else idx a (nodes G).

Definition memb (a : nat) (l : list nat) : bool := existsb (Nat.eqb a) l.
Fixpoint nodupb (l : list nat) : bool := match l with [] => true | x :: r => negb (memb x r) && nodupb r end.
Fixpoint countb (a : nat) (l : list nat) : nat := match l with [] => 0 | x :: r => (if x =? a then 1 else 0) + countb a r end.
Definition nilb {A} (l : list A) : bool := match l with [] => true | _ => false end.

Record wf_dag (G : dag) : Prop := mkwf {
  wf_nodup : NoDup (nodes G);
  wf_root : ~ In (root G) (nodes G);
  wf_topo : forall a, In a (nodes G) -> forall d, In d (deps G a) -> idx d (nodes G) < idx a (nodes G);
  wf_rdeps : forall d, In d (deps G (root G)) -> In d (nodes G);
  wf_rne : deps G (root G) <> [];
  wf_inv : forall a b, In a (alln G) -> In b (alln G) -> countb b (trig G a) = countb a (deps G b);
  wf_tin : forall a, In a (alln G) -> forall b, In b (trig G a) -> In b (alln G);
  wf_rtrig : trig G (root G) = [];
  wf_pend : forall b, In b (alln G) -> pend0 G b = length (deps G b);
  wf_tne : forall a, In a (nodes G) -> trig G a <> [] }.


Definition wf_dagb (G : dag) : bool :=
  nodupb (nodes G) && negb (memb (root G) (nodes G))
  && forallb (fun a => forallb (fun d => idx d (nodes G) <? idx a (nodes G)) (deps G a)) (nodes G)
  && forallb (fun d => memb d (nodes G)) (deps G (root G))
  && negb (nilb (deps G (root G)))
  && forallb (fun a => forallb (fun b => countb b (trig G a) =? countb a (deps G b)) (trig G a)) (alln G)
  && forallb (fun b => forallb (fun a => countb b (trig G a) =? countb a (deps G b)) (deps G b)) (alln G)
  && forallb (fun a => forallb (fun b => memb b (alln G)) (trig G a)) (alln G)
  && nilb (trig G (root G))
  && forallb (fun b => pend0 G b =? length (deps G b)) (alln G)
  && forallb (fun a => negb (nilb (trig G a))) (nodes G).

(* ------------------------------------------------------------------------------------------------ *)
(* One level                                                                                        *)

(* Program counter of one invocation of genericHandle. *)
Inductive hphase :=
| HFresh                               (* handler entered, nothing done yet *)
| HRun (sk : bool)                     (* dependency check done; sk: marked failed, exec is skipped *)
| HEnded                               (* exec returned (or skipped); token not yet released *)
| HTrig (ts : list nat)                (* token released; triggers still to be decremented *)
| HSend (b : nat) (ts : list nat).     (* decremented b to zero: must send b *)

Record thread := mkth { hph : hphase; hsem : bool (* holds a token it must release *); hinl : bool (* runs inline in the loop's thread *) }.

Inductive mphase := MIdle | MHave (b : nat) | MBusy (a : nat) | MDone.

(* a message in the queue; [msnd]: the handler that sent it (None: seeding) *)
Record msg := mkmsg { mitem : nat; msnd : option nat }.

Section Level.
Variable R : Type.                       (* results of actions *)

Record lstate := mkl {
  pend : fmap nat;                       (* `pending` counters *)
  seedl : list nat;                      (* leaves not yet put into the queue *)
  queue : list msg;
  closed : bool;
  mainp : mphase;                        (* the loop's thread *)
  th : fmap (option thread);             (* handler of each action *)
  res : fmap (option R);                 (* result fields; None: none written / error *)
  failed : fmap bool;                    (* `failed` *)
  dn : fmap bool;                        (* exec returned or was skipped *)
  bad : bool }.

Inductive label :=
| ESeed (b : nat) | EDeq (b : nat) | ESpawn (b : nat) | EInline (b : nat)
| EStart (a : nat) | EEnd (a : nat) (o : option R) | ERel (a : nat)
| EDec (a b : nat) | EEnq (a b : nat) | EClose | EExit.

Definition init (G : dag) : lstate :=
  mkl (fconst (pend0 G)) (filter (fun a => nilb (deps G a)) (nodes G)) [] false MIdle
      (fconst (fun _ => None)) (fconst (fun _ => None)) (fconst (ifail G)) (fconst (fun _ => false)) false.

Definition isSome {A} (o : option A) : bool := match o with Some _ => true | None => false end.
Definition isNone {A} (o : option A) : bool := match o with Some _ => false | None => true end.

Fixpoint remove1 (b : nat) (l : list nat) : option (list nat) :=
  match l with
  | [] => None
  | x :: r => if x =? b then Some r else match remove1 b r with Some r' => Some (x :: r') | None => None end
  end.
Fixpoint remove_msg (b : nat) (q : list msg) : option (list msg) :=
  match q with
  | [] => None
  | m :: r => if mitem m =? b then Some r else match remove_msg b r with Some r' => Some (m :: r') | None => None end
  end.

Definition sent_by (a : nat) (m : msg) : bool := match msnd m with Some x => x =? a | None => false end.
Definition sent_by_seeder (m : msg) : bool := match msnd m with Some _ => false | None => true end.

Definition finished (o : option thread) : bool :=
  match o with Some t => match hph t with HTrig [] => true | _ => false end | None => false end.

Section Step.
Variables (top strict : bool) (G : dag).

(* On the unbuffered package-level queue a sender is blocked until its message has been received. *)
Definition blocked (s : lstate) (a : nat) : bool := top && existsb (sent_by a) (queue s).
Definition seeder_blocked (s : lstate) : bool := top && existsb sent_by_seeder (queue s).
Definition main_ready (s : lstate) : bool :=
  match mainp s with MIdle => true | MBusy a => finished (get (th s) a) | _ => false end.
Definition main_idle (s : lstate) : bool := match mainp s with MIdle => true | _ => false end.

Definition set_thread (s : lstate) (a : nat) (t : thread) : lstate :=
  mkl (pend s) (seedl s) (queue s) (closed s) (mainp s) (set (th s) a (Some t)) (res s) (failed s) (dn s) (bad s).
Definition set_phase (s : lstate) (a : nat) (t : thread) (p : hphase) : lstate :=
  set_thread s a (mkth p (hsem t) (hinl t)).
Definition new_thread (s : lstate) (b : nat) (sem inl : bool) (mp : mphase) : lstate :=
  mkl (pend s) (seedl s) (queue s) (closed s) mp (set (th s) b (Some (mkth HFresh sem inl))) (res s) (failed s) (dn s)
      (bad s || isSome (get (th s) b)).
Definition after_end (t : thread) (a : nat) : hphase := if hsem t then HEnded else HTrig (trig G a).

(* [free]: free tokens of the shared semaphore before the step; the result carries the value after it. *)
Definition step (s : lstate) (free : nat) (e : label) : option (lstate * nat) :=
  match e with
  | ESeed b =>
      (* `if len(a.Deps()) == 0 { queue <- a }` (goroutine of Run / before the loop of runAnalyzers) *)
      match remove1 b (seedl s) with
      | Some l' =>
          if seeder_blocked s || negb (main_idle s || top) then None
          else Some (mkl (pend s) l' (queue s ++ [mkmsg b None]) (closed s) (mainp s) (th s) (res s) (failed s) (dn s) (bad s), free)
      | None => None
      end
  | EDeq b =>
      (* `for item := range queue` *)
      if main_ready s && (top || nilb (seedl s)) then
        match remove_msg b (queue s) with
        | Some q' => Some (mkl (pend s) (seedl s) q' (closed s) (MHave b) (th s) (res s) (failed s) (dn s) (bad s), free)
        | None => None
        end
      else None
  | ESpawn b =>
      (* Acquire / successful AcquireMaybe, then `go genericHandle(item, ..., &sem, ...)` *)
      match mainp s with
      | MHave b' => if (b' =? b) && (0 <? free) then Some (new_thread s b true false MIdle, free - 1) else None
      | _ => None
      end
  | EInline b =>
      (* AcquireMaybe failed: `genericHandle(item, ..., nil, ...)` in the loop's thread *)
      match mainp s with
      | MHave b' => if (b' =? b) && negb top && (negb strict || (free =? 0)) then Some (new_thread s b false true (MBusy b), free) else None
      | _ => None
      end
  | EStart a =>
      (* dependency check of genericHandle: reads `failed` of a and of its deps, may MarkFailed *)
      if a =? root G then None else
      match get (th s) a with
      | Some t =>
          match hph t with
          | HFresh =>
              let sk := get (failed s) a || existsb (get (failed s)) (deps G a) in
              Some (mkl (pend s) (seedl s) (queue s) (closed s) (mainp s) (set (th s) a (Some (mkth (HRun sk) (hsem t) (hinl t))))
                        (res s) (set (failed s) a sk) (dn s) (bad s), free)
          | _ => None
          end
      | None => None
      end
  | EEnd a o =>
      (* exec returned o (None: error), or was skipped *)
      match get (th s) a with
      | Some t =>
          match hph t with
          | HRun sk =>
              if sk && isSome o then None else
              Some (mkl (pend s) (seedl s) (queue s) (closed s) (mainp s) (set (th s) a (Some (mkth (after_end t a) (hsem t) (hinl t))))
                        (set (res s) a o) (set (failed s) a (get (failed s) a || isNone o)) (set (dn s) a true) (bad s), free)
          | _ => None
          end
      | None => None
      end
  | EClose =>
      (* `if a == root { close(queue) ...` *)
      match get (th s) (root G) with
      | Some t =>
          match hph t with
          | HFresh =>
              Some (mkl (pend s) (seedl s) (queue s) true (mainp s) (set (th s) (root G) (Some (mkth (after_end t (root G)) (hsem t) (hinl t))))
                        (res s) (failed s) (set (dn s) (root G) true) (bad s), free)
          | _ => None
          end
      | None => None
      end
  | ERel a =>
      (* `if sem != nil { sem.Release() }` *)
      match get (th s) a with
      | Some t =>
          match hph t with
          | HEnded => if hsem t then Some (set_phase s a t (HTrig (trig G a)), S free) else None
          | _ => None
          end
      | None => None
      end
  | EDec a b =>
      (* `t.DecrementPending()`: atomic add of -1, true iff the new value is 0 *)
      match get (th s) a with
      | Some t =>
          match hph t with
          | HTrig (b' :: ts) =>
              if (b' =? b) && negb (blocked s a) then
                let p := get (pend s) b in
                Some (mkl (set (pend s) b (p - 1)) (seedl s) (queue s) (closed s) (mainp s)
                          (set (th s) a (Some (mkth (if p =? 1 then HSend b ts else HTrig ts) (hsem t) (hinl t))))
                          (res s) (failed s) (dn s) (bad s), free)
              else None
          | _ => None
          end
      | None => None
      end
  | EEnq a b =>
      (* `queue <- t` *)
      match get (th s) a with
      | Some t =>
          match hph t with
          | HSend b' ts =>
              if b' =? b then
                Some (mkl (pend s) (seedl s) (queue s ++ [mkmsg b (Some a)]) (closed s) (mainp s)
                          (set (th s) a (Some (mkth (HTrig ts) (hsem t) (hinl t)))) (res s) (failed s) (dn s) (bad s), free)
              else None
          | _ => None
          end
      | None => None
      end
  | EExit =>
      (* the range loop ends: queue closed and drained *)
      if main_ready s && closed s && nilb (queue s) then
        Some (mkl (pend s) (seedl s) (queue s) (closed s) MDone (th s) (res s) (failed s) (dn s) (bad s), free)
      else None
  end.

Definition final (s : lstate) : bool := match mainp s with MDone => true | _ => false end.

(* exec is a function of the action and of the results of its dependencies: an EEnd that is not a skip
   carries exactly that value. *)
Variable exec : nat -> (nat -> option R) -> option R.
Definition consistent (s : lstate) (e : label) : Prop :=
  match e with
  | EEnd a o => forall t, get (th s) a = Some t -> hph t = HRun false -> o = exec a (get (res s))
  | _ => True
  end.

End Step.

(* Denotation: the result map computed without any scheduler, in dependency order. *)
Definition skipD (G : dag) (m : nat -> option R) (a : nat) : bool :=
  ifail G a || existsb (fun d => isNone (m d)) (deps G a).
Definition evalD (G : dag) (exec : nat -> (nat -> option R) -> option R) (l : list nat) (m0 : nat -> option R) : nat -> option R :=
  fold_left (fun m a => let v := if skipD G m a then None else exec a m in fun x => if x =? a then v else m x) l m0.
Definition den (G : dag) (exec : nat -> (nat -> option R) -> option R) : nat -> option R :=
  evalD G exec (nodes G) (fun _ => None).

End Level.

Arguments mkl {R}. Arguments pend {R}. Arguments seedl {R}. Arguments queue {R}. Arguments closed {R}.
Arguments mainp {R}. Arguments th {R}. Arguments res {R}. Arguments failed {R}. Arguments dn {R}. Arguments bad {R}.
Arguments ESeed {R}. Arguments EDeq {R}. Arguments ESpawn {R}. Arguments EInline {R}. Arguments EStart {R}.
Arguments EEnd {R}. Arguments ERel {R}. Arguments EDec {R}. Arguments EEnq {R}. Arguments EClose {R}. Arguments EExit {R}.
Arguments init {R}. Arguments step {R}. Arguments final {R}. Arguments consistent {R}.
Arguments blocked {R}. Arguments seeder_blocked {R}. Arguments main_ready {R}. Arguments main_idle {R}.
Arguments skipD {R}. Arguments evalD {R}. Arguments den {R}.

(* ------------------------------------------------------------------------------------------------ *)
(* The two-level system                                                                             *)

Section Global.
Variables Rp Ra : Type.                  (* results of package actions / of analyzer actions *)

Record gdag := mkgdag { gtopd : dag; ginnerd : nat -> dag }.

Record gstate := mkg {
  gtop : lstate Rp;
  ginner : fmap (option (lstate Ra));    (* analyzer level of a package whose exec is running *)
  gfree : nat;                           (* free tokens *)
  gover : bool }.                        (* a release made the semaphore exceed its capacity *)

Inductive glabel :=
| GTop (e : label Rp)                    (* step of the package level *)
| GInit (p : nat)                        (* runAnalyzers of package p builds its analyzer graph *)
| GIn (p : nat) (e : label Ra).          (* step of the analyzer level of package p *)

Variables (strict : bool) (GG : gdag) (cap : nat).

Definition ginit : gstate := mkg (init (gtopd GG)) (fconst (fun _ => None)) cap false.

Definition running (s : gstate) (p : nat) : bool :=
  match get (th (gtop s)) p with
  | Some t => match hph t with HRun false => true | _ => false end
  | None => false
  end.

Definition inner_done (s : gstate) (p : nat) : bool :=
  match get (ginner s) p with None => true | Some si => final si end.

Definition gstep (s : gstate) (l : glabel) : option gstate :=
  match l with
  | GTop e =>
      let ok := match e with EEnd p _ => inner_done s p | _ => true end in
      if ok then
        match step true strict (gtopd GG) (gtop s) (gfree s) e with
        | Some (t', f') => Some (mkg t' (ginner s) f' (gover s || (cap <? f')))
        | None => None
        end
      else None
  | GInit p =>
      (* runAnalyzers is entered at most once per package action, while its exec is running; the analyzer
         graph built by newAnalyzerAction is well formed (checked, so that a recorded graph that is not is
         rejected) *)
      if running s p && isNone (get (ginner s) p) && wf_dagb (ginnerd GG p) then
        Some (mkg (gtop s) (set (ginner s) p (Some (init (ginnerd GG p)))) (gfree s) (gover s))
      else None
  | GIn p e =>
      (* analyzer-level steps may still happen after the package's exec has returned: the goroutine that
         handled the analyzer root releases its token after it closed the queue *)
      match get (ginner s) p with
      | Some si =>
          match step false strict (ginnerd GG p) si (gfree s) e with
          | Some (si', f') => Some (mkg (gtop s) (set (ginner s) p (Some si')) f' (gover s || (cap <? f')))
          | None => None
          end
      | None => None
      end
  end.

Definition gfinal (s : gstate) : bool := final (gtop s).

(* Consistency with the functions computed by the actions.
   [exec_an p m]: analyzers of package p, given the package-level results m of p's dependencies (facts).
   [need p m]: whether the package is analysed at all (false: cache hit, load error, no analyzers).
   [fin p m r]: result of the package from the results r of its analyzers; [fout p m]: result without analysis. *)
Variable exec_an : nat -> (nat -> option Rp) -> nat -> (nat -> option Ra) -> option Ra.
Variable need : nat -> (nat -> option Rp) -> bool.
Variable fin : nat -> (nat -> option Rp) -> (nat -> option Ra) -> option Rp.
Variable fout : nat -> (nat -> option Rp) -> option Rp.

Definition exec_top (p : nat) (m : nat -> option Rp) : option Rp :=
  if need p m then fin p m (den (ginnerd GG p) (exec_an p m)) else fout p m.

Definition gconsistent (s : gstate) (l : glabel) : Prop :=
  match l with
  | GTop (EEnd p o) =>
      running s p = true ->
      match get (ginner s) p with
      | Some si => need p (get (res (gtop s))) = true /\ o = fin p (get (res (gtop s))) (get (res si))
      | None => need p (get (res (gtop s))) = false /\ o = fout p (get (res (gtop s)))
      end
  | GTop _ => True
  | GInit p => need p (get (res (gtop s))) = true
  | GIn p e =>
      forall si, get (ginner s) p = Some si -> consistent (exec_an p (get (res (gtop s)))) si e
  end.

(* The outside-world hypothesis of the result theorems: everything a package computes depends on the other
   packages only through the results of its dependencies; an analyzer depends on the other analyzers of the
   package only through the results of the analyzers it requires. *)
Definition results_local : Prop :=
  (forall p m m', (forall d, In d (deps (gtopd GG) p) -> m d = m' d) -> forall a r, exec_an p m a r = exec_an p m' a r) /\
  (forall p m a r r', (forall d, In d (deps (ginnerd GG p) a) -> r d = r' d) -> exec_an p m a r = exec_an p m a r') /\
  (forall p m m', (forall d, In d (deps (gtopd GG) p) -> m d = m' d) -> need p m = need p m') /\
  (forall p m m', (forall d, In d (deps (gtopd GG) p) -> m d = m' d) -> fout p m = fout p m') /\
  (forall p m m' r r', (forall d, In d (deps (gtopd GG) p) -> m d = m' d) ->
     (forall a, In a (nodes (ginnerd GG p)) -> r a = r' a) -> fin p m r = fin p m' r').

End Global.

Arguments mkg {Rp Ra}. Arguments gtop {Rp Ra}. Arguments ginner {Rp Ra}. Arguments gfree {Rp Ra}. Arguments gover {Rp Ra}.
Arguments GTop {Rp Ra}. Arguments GInit {Rp Ra}. Arguments GIn {Rp Ra}.
Arguments ginit {Rp Ra}. Arguments gstep {Rp Ra}. Arguments gfinal {Rp Ra}. Arguments running {Rp Ra}. Arguments inner_done {Rp Ra}.
Arguments gconsistent {Rp Ra}. Arguments exec_top {Rp Ra}. Arguments results_local {Rp Ra}.

(* ------------------------------------------------------------------------------------------------ *)
(* The transition relation as a checker for recorded traces                                         *)

(* Graphs as recorded by the trace hook: row i describes the action with id i as (deps, triggers, pending,
   failed); ids are assigned in depth-first post-order, the root is the last row. *)
Definition row := (list nat * list nat * nat * bool)%type.
Definition dag_of_table (t : list row) : dag :=
  let n := length t in
  let r := fun a => nth a t ([], [], 0, false) in
  mkdag (seq 0 (n - 1)) (n - 1)
        (fun a => fst (fst (fst (r a)))) (fun a => snd (fst (fst (r a)))) (fun a => snd (fst (r a))) (fun a => snd (r a)).
Fixpoint lookup_table (p : nat) (l : list (nat * list row)) : list row :=
  match l with [] => [] | (q, t) :: r => if q =? p then t else lookup_table p r end.
Definition gdag_of_tables (top : list row) (inner : list (nat * list row)) : gdag :=
  mkgdag (dag_of_table top) (fun p => dag_of_table (lookup_table p inner)).

(* Compact encodings used by the generated cases files (binary numerals parse quickly):
   a graph is a list of rows (deps, trig, pend, failed) over N; a trace is a list of N, one per event, packing
   level+1 (0: package level), kind, a, b (see decode_event).  Kinds: 0 seed, 1 deq, 2 spawn, 3 inline, 4 start, 5 end (b = 1: failed),
   6 rel, 7 dec, 8 enq, 9 close, 10 exit, 11 init (runAnalyzers of package a builds its graph). *)
Definition nrow := (list N * list N * N * bool)%type.
Definition row_of_nrow (r : nrow) : row :=
  match r with (d, t, p, f) => (map N.to_nat d, map N.to_nat t, N.to_nat p, f) end.
Definition decode_label (k : N) (a b : nat) : option (label unit) :=
  match k with
  | 0%N => Some (ESeed a) | 1%N => Some (EDeq a) | 2%N => Some (ESpawn a) | 3%N => Some (EInline a)
  | 4%N => Some (EStart a) | 5%N => Some (EEnd a (match b with 0 => Some tt | _ => None end)) | 6%N => Some (ERel a)
  | 7%N => Some (EDec a b) | 8%N => Some (EEnq a b) | 9%N => Some EClose | 10%N => Some EExit
  | _ => None
  end.
(* Events as text (string literals are by far the cheapest literals for coqc to read): ten characters per
   event, each character a base-64 digit `chr (48 + d)`: level+1 (3 digits), kind (1), a (3), b (3). *)
Inductive bstr := BNil | BCons (b : Byte.byte) (r : bstr).
Fixpoint bstr_of (l : list Byte.byte) : bstr := match l with [] => BNil | b :: r => BCons b (bstr_of r) end.
Fixpoint of_bstr (s : bstr) : list Byte.byte := match s with BNil => [] | BCons b r => b :: of_bstr r end.
Declare Scope bstr_scope.
Delimit Scope bstr_scope with bstr.
String Notation bstr bstr_of of_bstr : bstr_scope.

Definition dig (b : Byte.byte) : N := Byte.to_N b - 48.
Definition dig3 (x y z : Byte.byte) : N := (dig x * 64 + dig y) * 64 + dig z.
Definition decode_event (lv k a b : N) : option (glabel unit unit) :=
  if N.eqb k 11 then Some (GInit (N.to_nat a)) else
  match decode_label k (N.to_nat a) (N.to_nat b) with
  | Some e => Some (match lv with 0%N => GTop e | _ => GIn (N.to_nat lv - 1) e end)
  | None => None
  end.
(* every event comes with an annotation bit: for a start event, whether the implementation skipped exec
   (the action was marked failed after looking at its dependencies) *)
Fixpoint decode_bstr (s : bstr) : option (list (glabel unit unit * bool)) :=
  match s with
  | BNil => Some []
  | BCons l2 (BCons l1 (BCons l0 (BCons k (BCons a2 (BCons a1 (BCons a0 (BCons b2 (BCons b1 (BCons b0 r))))))))) =>
      match decode_event (dig3 l2 l1 l0) (dig k) (dig3 a2 a1 a0) (dig3 b2 b1 b0), decode_bstr r with
      | Some e, Some rest => Some ((e, negb (N.eqb (dig3 b2 b1 b0) 0)) :: rest)
      | _, _ => None
      end
  | _ => None
  end.
Fixpoint decode_annot (l : list bstr) : option (list (glabel unit unit * bool)) :=
  match l with
  | [] => Some []
  | c :: r => match decode_bstr c, decode_annot r with Some x, Some y => Some (x ++ y) | _, _ => None end
  end.
Definition decode_trace (l : list bstr) : option (list (glabel unit unit)) :=
  match decode_annot l with Some x => Some (map fst x) | None => None end.
Definition gdag_of_ntables (top : list nrow) (inner : list (N * list nrow)) : gdag :=
  gdag_of_tables (map row_of_nrow top) (map (fun x => (N.to_nat (fst x), map row_of_nrow (snd x))) inner).

Section Check.
Variables Rp Ra : Type.

Fixpoint grun (strict : bool) (GG : gdag) (cap : nat) (s : gstate Rp Ra) (tr : list (glabel Rp Ra)) : option (gstate Rp Ra) :=
  match tr with
  | [] => Some s
  | l :: r => match gstep strict GG cap s l with Some s' => grun strict GG cap s' r | None => None end
  end.

(* index of the first label that is not a step of the system (None: all are) *)
Fixpoint first_reject (strict : bool) (GG : gdag) (cap : nat) (s : gstate Rp Ra) (tr : list (glabel Rp Ra)) (i : nat) : option nat :=
  match tr with
  | [] => None
  | l :: r => match gstep strict GG cap s l with Some s' => first_reject strict GG cap s' r (S i) | None => Some i end
  end.

Fixpoint inits (tr : list (glabel Rp Ra)) : list nat :=
  match tr with [] => [] | GInit p :: r => p :: inits r | _ :: r => inits r end.

(* [valid_trace]: the graphs are well formed, every label is a step, no action got a second handler, the
   semaphore never exceeded its capacity, and the run is complete (the package-level loop has ended). *)
Definition valid_trace (GG : gdag) (cap : nat) (tr : list (glabel Rp Ra)) : bool :=
  (1 <=? cap) && wf_dagb (gtopd GG)
  && match grun false GG cap (ginit GG cap) tr with
     | Some s => gfinal s && negb (bad (gtop s)) && negb (gover s)
                 && forallb (fun p => match get (ginner s) p with Some si => negb (bad si) | None => true end) (inits tr)
     | None => false
     end.
(* ---- the same checker, evaluating the well-formedness of every DISTINCT analyzer graph once ---- *)
(* (all packages of a run have one of two analyzer graphs; wf_dagb is the expensive part of GInit) *)
Definition gstep_nowf (strict : bool) (GG : gdag) (cap : nat) (s : gstate Rp Ra) (l : glabel Rp Ra) : option (gstate Rp Ra) :=
  match l with
  | GInit p =>
      if running s p && isNone (get (ginner s) p) then
        Some (mkg (gtop s) (set (ginner s) p (Some (init (ginnerd GG p)))) (gfree s) (gover s))
      else None
  | _ => gstep strict GG cap s l
  end.
Fixpoint grun_nowf (strict : bool) (GG : gdag) (cap : nat) (s : gstate Rp Ra) (tr : list (glabel Rp Ra)) : option (gstate Rp Ra) :=
  match tr with
  | [] => Some s
  | l :: r => match gstep_nowf strict GG cap s l with Some s' => grun_nowf strict GG cap s' r | None => None end
  end.

Fixpoint assoc_idx (p : nat) (assign : list (nat * nat)) (dflt : nat) : nat :=
  match assign with [] => dflt | (q, i) :: r => if q =? p then i else assoc_idx p r dflt end.
(* analyzer graphs shared between packages: package p has graph number [assoc_idx p assign] of [tabs] *)
Definition gdag_of_shared (top : list row) (tabs : list (list row)) (assign : list (nat * nat)) : gdag :=
  mkgdag (dag_of_table top) (fun p => dag_of_table (nth (assoc_idx p assign (length tabs)) tabs [])).

Definition valid_trace_fast (top : list row) (tabs : list (list row)) (assign : list (nat * nat)) (cap : nat)
           (tr : list (glabel Rp Ra)) : bool :=
  let GG := gdag_of_shared top tabs assign in
  (1 <=? cap) && wf_dagb (gtopd GG) && forallb (fun t => wf_dagb (dag_of_table t)) tabs
  && forallb (fun p => assoc_idx p assign (length tabs) <? length tabs) (inits tr)
  && match grun_nowf false GG cap (ginit GG cap) tr with
     | Some s => gfinal s && negb (bad (gtop s)) && negb (gover s)
                 && forallb (fun p => match get (ginner s) p with Some si => negb (bad si) | None => true end) (inits tr)
     | None => false
     end.
(* ---- ... and comparing, at every start event, the skip decision of the model (a failed flag among the action
        and its dependencies) with the one the implementation took ---- *)
Definition phase_skip (o : option thread) : option bool :=
  match o with Some t => match hph t with HRun sk => Some sk | _ => None end | None => None end.
Definition skip_of (s' : gstate Rp Ra) (l : glabel Rp Ra) : option bool :=
  match l with
  | GTop (EStart a) => phase_skip (get (th (gtop s')) a)
  | GIn p (EStart a) => match get (ginner s') p with Some si => phase_skip (get (th si) a) | None => None end
  | _ => None
  end.
(* result: the state reached, or the index of the first event that is not a step / whose skip bit differs *)
Fixpoint grun_skip (strict : bool) (GG : gdag) (cap : nat) (s : gstate Rp Ra) (tr : list (glabel Rp Ra * bool)) (i : nat)
  : gstate Rp Ra + (nat * bool) :=
  match tr with
  | [] => inl s
  | (l, obs) :: r =>
      match gstep_nowf strict GG cap s l with
      | Some s' =>
          match skip_of s' l with
          | Some sk => if Bool.eqb sk obs then grun_skip strict GG cap s' r (S i) else inr (i, true)
          | None => grun_skip strict GG cap s' r (S i)
          end
      | None => inr (i, false)
      end
  end.

Definition valid_trace_skips (top : list row) (tabs : list (list row)) (assign : list (nat * nat)) (cap : nat)
           (atr : list (glabel Rp Ra * bool)) : bool :=
  let GG := gdag_of_shared top tabs assign in
  let tr := map fst atr in
  (1 <=? cap) && wf_dagb (gtopd GG) && forallb (fun t => wf_dagb (dag_of_table t)) tabs
  && forallb (fun p => assoc_idx p assign (length tabs) <? length tabs) (inits tr)
  && match grun_skip false GG cap (ginit GG cap) atr 0 with
     | inl s => gfinal s && negb (bad (gtop s)) && negb (gover s)
                && forallb (fun p => match get (ginner s) p with Some si => negb (bad si) | None => true end) (inits tr)
     | inr _ => false
     end.
End Check.

Definition gdag_of_nshared (top : list nrow) (tabs : list (list nrow)) (assign : list (N * N)) : gdag :=
  gdag_of_shared (map row_of_nrow top) (map (map row_of_nrow) tabs) (map (fun x => (N.to_nat (fst x), N.to_nat (snd x))) assign).
Definition valid_trace_nfast (top : list nrow) (tabs : list (list nrow)) (assign : list (N * N)) (cap : nat)
           (tr : list (glabel unit unit)) : bool :=
  valid_trace_fast unit unit (map row_of_nrow top) (map (map row_of_nrow) tabs)
                   (map (fun x => (N.to_nat (fst x), N.to_nat (snd x))) assign) cap tr.

Definition nshared_args (top : list nrow) (tabs : list (list nrow)) (assign : list (N * N)) :=
  (map row_of_nrow top, map (map row_of_nrow) tabs, map (fun x => (N.to_nat (fst x), N.to_nat (snd x))) assign).
Definition valid_trace_nskips (top : list nrow) (tabs : list (list nrow)) (assign : list (N * N)) (cap : nat)
           (atr : list (glabel unit unit * bool)) : bool :=
  valid_trace_skips unit unit (map row_of_nrow top) (map (map row_of_nrow) tabs)
                    (map (fun x => (N.to_nat (fst x), N.to_nat (snd x))) assign) cap atr.
(* where a rejected trace leaves the model: index of the event, and whether it is a step whose skip bit differs *)
Definition reject_point (top : list nrow) (tabs : list (list nrow)) (assign : list (N * N)) (cap : nat)
           (atr : list (glabel unit unit * bool)) : option (nat * bool) :=
  let GG := gdag_of_nshared top tabs assign in
  match grun_skip unit unit false GG cap (ginit GG cap) atr 0 with inl _ => None | inr x => Some x end.
