(* C11: executable model of check selection (lintcmd/lint.go:filterAnalyzerNames, success), list.Set,
   config inheritance (config/config.go:mergeLists, Config.Merge, mergeConfigs, normalizeList and the merge
   of the command-line configuration in lintcmd/runner/runner.go), and the severity / exit-status part of
   lintcmd/cmd.go:printDiagnostics.  Definitions only.  Strings are ASCII (premise ascii_names). *)
From Coq Require Import List ZArith Bool String Ascii.
Import ListNotations.
Open Scope string_scope.

(* ---- strings ---- *)
Definition lower_ascii (a : ascii) : ascii :=
  let n := nat_of_ascii a in
  if (Nat.leb 65 n && Nat.leb n 90)%bool then ascii_of_nat (n + 32) else a.
Fixpoint lower (s : string) : string :=
  match s with EmptyString => EmptyString | String a r => String (lower_ascii a) (lower r) end.
(* unicode.IsNumber restricted to ASCII *)
Definition is_digit (a : ascii) : bool := let n := nat_of_ascii a in (Nat.leb 48 n && Nat.leb n 57)%bool.
Fixpoint has_digit (s : string) : bool :=
  match s with EmptyString => false | String a r => is_digit a || has_digit r end.
(* a[:strings.IndexFunc(a, unicode.IsNumber)], the whole string when there is no digit (Slice(0,-1)) *)
Fixpoint letter_prefix (s : string) : string :=
  match s with
  | EmptyString => EmptyString
  | String a r => if is_digit a then EmptyString else String a (letter_prefix r)
  end.
Fixpoint has_prefix (p s : string) : bool :=
  match p, s with
  | EmptyString, _ => true
  | String a p', String b s' => Ascii.eqb a b && has_prefix p' s'
  | _, EmptyString => false
  end.
(* strings.HasSuffix(s, "*") and s[:len(s)-1] *)
Fixpoint ends_star (s : string) : bool :=
  match s with
  | EmptyString => false
  | String a EmptyString => Ascii.eqb a "*"
  | String _ r => ends_star r
  end.
Fixpoint drop_last (s : string) : string :=
  match s with
  | EmptyString => EmptyString
  | String a EmptyString => EmptyString
  | String a r => String a (drop_last r)
  end.

(* ---- filterAnalyzerNames ----
   the allow map as an association list, most recent assignment first *)
Definition amap := list (string * bool).
Fixpoint lookup (m : amap) (a : string) : option bool :=
  match m with
  | [] => None
  | (k, b) :: r => if String.eqb k a then Some b else lookup r a
  end.
(* `if check.Length() > 1 && check.Index(0) == '-'` *)
Definition sign_of (check : string) : bool :=
  match check with
  | String a (String _ _) => negb (Ascii.eqb a "-")
  | _ => true
  end.
Definition pattern_of (check : string) : string :=
  match check with
  | String a ((String _ _) as r) => if Ascii.eqb a "-" then r else check
  | _ => check
  end.
Definition set_all (names : list string) (b : bool) (m : amap) : amap :=
  fold_left (fun m a => (a, b) :: m) names m.
(* one iteration of `for _, check := range selection` *)
Definition sel_step (all : list string) (m : amap) (check : string) : amap :=
  let b := sign_of check in
  let c := pattern_of check in
  if String.eqb c "*" || String.eqb c "all" then set_all all b m
  else if ends_star c then
    let prefix := drop_last c in
    if negb (has_digit prefix)
    then set_all (filter (fun a => String.eqb prefix (letter_prefix a)) all) b m   (* S* : category *)
    else set_all (filter (fun a => has_prefix prefix a) all) b m                   (* S1* : prefix *)
  else (c, b) :: m.
Definition filter_names (all : list string) (selection : list string) : amap :=
  fold_left (sel_step all) selection [].
(* callers fold case on both sides: makeCaseFoldedStrings *)
Definition allowed (all : list string) (checks : list string) (cat : string) : bool :=
  match lookup (filter_names (map lower all) (map lower checks)) (lower cat) with
  | Some b => b
  | None => false
  end.

(* ---- the documented matching relation ---- *)
Definition mem (a : string) (l : list string) : bool := existsb (String.eqb a) l.
Definition matches (all : list string) (pat : string) (a : string) : bool :=
  if String.eqb pat "*" || String.eqb pat "all" then mem a all
  else if ends_star pat then
    let p := drop_last pat in
    if has_digit p then mem a all && has_prefix p a         (* prefix glob, e.g. SA1* *)
    else mem a all && String.eqb p (letter_prefix a)         (* category glob, e.g. S* (not SA1000) *)
  else String.eqb pat a.                                     (* exact name (known or not) *)
(* the last element of the selection that matches decides *)
Definition last_match (all : list string) (selection : list string) (a : string) : option bool :=
  fold_left (fun acc s => if matches all (pattern_of s) a then Some (sign_of s) else acc) selection None.

(* ---- list.Set: strings.Split(s, ",") + strings.TrimSpace; "" -> nil ---- *)
Definition is_space (a : ascii) : bool :=
  let n := nat_of_ascii a in (Nat.eqb n 32 || (Nat.leb 9 n && Nat.leb n 13))%bool.
Fixpoint trim_left (s : string) : string :=
  match s with String a r => if is_space a then trim_left r else s | EmptyString => EmptyString end.
Fixpoint rev_string (s acc : string) : string :=
  match s with EmptyString => acc | String a r => rev_string r (String a acc) end.
Definition trim (s : string) : string := rev_string (trim_left (rev_string (trim_left s) "")) "".
Fixpoint split_comma (s cur : string) : list string :=
  match s with
  | EmptyString => [rev_string cur ""]
  | String a r => if Ascii.eqb a "," then rev_string cur "" :: split_comma r "" else split_comma r (String a cur)
  end.
Definition parse_list (s : string) : option (list string) :=
  match s with EmptyString => None | _ => Some (map trim (split_comma s "")) end.

(* ---- config: mergeLists / Merge / mergeConfigs / normalizeList ---- *)
Definition merge_lists (a b : list string) : list string :=
  flat_map (fun el => if String.eqb el "inherit" then a else [el]) b.
(* Config.Merge on the Checks field: a nil list leaves the receiver's list *)
Definition merge_opt (a : list string) (b : option (list string)) : list string :=
  match b with Some l => merge_lists a l | None => a end.
(* mergeConfigs: default first, then the staticcheck.conf files from the outermost directory inward *)
Definition merge_configs (default : list string) (outer_first : list (option (list string))) : list string :=
  fold_left merge_opt outer_first default.
Fixpoint normalize (l : list string) : list string :=
  match l with
  | [] => []
  | x :: r => match r with
              | y :: _ => if String.eqb x y then normalize r else x :: normalize r
              | [] => [x]
              end
  end.
(* config.Load for the package directory, then `a.Package.Config.Merge(r.cfg)` with the -checks list *)
Definition effective_checks (default : list string) (outer_first : list (option (list string)))
           (cli : option (list string)) : list string :=
  merge_opt (normalize (merge_configs default outer_first)) cli.

(* declarative reading: the innermost set list, with "inherit" standing for the effective list one
   level further out; the default configuration is outermost *)
Fixpoint splice (default : list string) (inner_first : list (option (list string))) : list string :=
  match inner_first with
  | [] => default
  | None :: outer => splice default outer
  | Some l :: outer => flat_map (fun el => if String.eqb el "inherit" then splice default outer else [el]) l
  end.

(* ---- problems, success(), severities and exit status ---- *)
Inductive sev := SevError | SevWarning | SevIgnored.
Record problem := mkP { p_file : string; p_line : Z; p_col : Z; p_cat : string; p_msg : string; p_sev : sev }.
(* lintcmd/lint.go:success — every check ran; the result is filtered afterwards *)
Definition success (all checks : list string) (ps : list problem) : list problem :=
  filter (fun p => allowed all checks (p_cat p)) ps.

Inductive format := FText | FStylish | FJson | FSarif | FNull.
Definition sev_eqb (a b : sev) : bool :=
  match a, b with SevError, SevError | SevWarning, SevWarning | SevIgnored, SevIgnored => true | _, _ => false end.
(* shouldExit: filterAnalyzerNames(analyzers, fail) then staticcheck/compile/config := true *)
Definition should_exit (all fail : list string) (cat : string) : bool :=
  let c := lower cat in
  if String.eqb c "staticcheck" || String.eqb c "compile" || String.eqb c "config" then true
  else allowed all fail cat.
(* the loop over diagnostics: (problems handed to the formatter, number of errors) *)
Definition shown (show_ignored no_compile : bool) (p : problem) : bool :=
  negb (String.eqb (p_cat p) "compile" && no_compile) && negb (sev_eqb (p_sev p) SevIgnored && negb show_ignored).
Definition resev (all fail : list string) (p : problem) : problem :=
  if should_exit all fail (p_cat p) then p else mkP (p_file p) (p_line p) (p_col p) (p_cat p) (p_msg p) SevWarning.
Definition to_print (all fail : list string) (show_ignored no_compile : bool) (ps : list problem) : list problem :=
  map (resev all fail) (filter (shown show_ignored no_compile) ps).
Definition num_errors (all fail : list string) (show_ignored no_compile : bool) (ps : list problem) : nat :=
  List.length (filter (fun p => should_exit all fail (p_cat p)) (filter (shown show_ignored no_compile) ps)).
Definition exit_status (f : format) (all fail : list string) (show_ignored no_compile : bool) (ps : list problem) : Z :=
  match num_errors all fail show_ignored no_compile ps with
  | O => 0%Z
  | S _ => match f with FSarif => 0%Z | _ => 1%Z end
  end.

(* the formatters as projections of the printed problems onto what each of them shows *)
Definition rendered := (string * Z * Z * string * string)%type.   (* file, line, column, category, message *)
Definition render (p : problem) : rendered := (p_file p, p_line p, p_col p, p_cat p, p_msg p).
Definition format_output (f : format) (ps : list problem) : list rendered :=
  match f with FNull => [] | _ => map render ps end.

(* ---- lintcmd/lint.go:lint, per package result ----
   A package that failed to load (type error: category compile; malformed staticcheck.conf: category config)
   contributes its errors (failed(res)) whether the patterns name it or it is only in the import cone of a named
   package; a package that loaded contributes its selected problems when it is named and nothing otherwise. *)
Inductive pkind := PNamed | PFailedDep | PCleanDep.
Definition load_error (cat : string) : bool := mem (lower cat) ["compile"; "config"].
Definition lint_package (all eff : list string) (k : pkind) (ps : list problem) : list problem :=
  match k with
  | PNamed => filter (fun p => mem (lower (p_cat p)) ["staticcheck"; "compile"; "config"] || allowed all eff (p_cat p)) ps
  | PFailedDep => filter (fun p => load_error (p_cat p)) ps
  | PCleanDep => []
  end.

(* ---- config.Load: a staticcheck.conf that cannot be decoded ----
   parseConfigs returns an error for a file with a TOML syntax error AND for a file that is valid TOML but gives an
   option a value of the wrong type (`checks = "SA4018"`, `checks = ["SA4000", 3]`, `[checks]`, `initialisms = 5`, ...).
   The package (every package at or below that directory) then fails to load: it is a failed package whose only
   problem is that load error (lint_package, load_error). *)
Inductive conf_file := ConfAbsent | ConfOk | ConfSyntaxError | ConfMistyped.
Definition conf_bad (c : conf_file) : bool := match c with ConfSyntaxError | ConfMistyped => true | _ => false end.
Definition load_fails (chain : list conf_file) : bool := existsb conf_bad chain.
