(* C05: byte-level codec of the index entry ("<hex id>-a" files).
   format_entry transcribes   fmt.Sprintf("v1 %x %x %20d %20d\n", id, out, size, unixnano)   (putIndexEntry)
   parse_entry  transcribes   DiskCache.get  on the bytes of the file (ReadFull into entrySize+1 bytes,
   length tests, header byte tests, hex.Decode, leading-space skipping, strconv.ParseInt(…, 10, 64)).
   Bytes are N; ids are lists of HashSize bytes.  Definitions only. *)
From Coq Require Import List NArith ZArith Bool Arith.
Import ListNotations.
Require Import Verif.Model.C05_Types.
Open Scope N_scope.

Definition hash_size : nat := 32.
Definition hex_size : nat := 64.
Definition entry_size : nat := 175.

(* the layout the functions below transcribe; Props/C05.v checks that the regenerated table equals it *)
Definition canonical_layout : layout := mkLayout 32 64 175 176
  [FLit [118; 49; 32]; FHex; FLit [32]; FHex; FLit [32]; FDec 20; FLit [32]; FDec 20; FLit [10]]
  [0%nat; 1%nat; 2%nat; 3%nat]
  [(0, 118); (1, 49); (2, 32); (67, 32); (132, 32); (153, 32); (174, 10)]
  [(3, 64); (68, 64); (133, 20); (154, 20)].
Definition canonical_protocol : protocol := mkProtocol true true true true true true true true true true.

Definition max_int64 : N := 9223372036854775807.   (* 2^63 - 1 *)

Definition byte_ok (b : N) : bool := b <? 256.
Definition wf_idb (k : list N) : bool := Nat.eqb (length k) hash_size && forallb byte_ok k.
Definition wf_id (k : list N) : Prop := length k = hash_size /\ Forall (fun b => b < 256) k.

Definition bytes_eqb (a b : list N) : bool := list_eqb N.eqb a b.

(* ---- formatting ---- *)
Definition hexdigit (n : N) : N := if n <? 10 then 48 + n else 87 + n.   (* lower case, as %x *)
Definition hex_byte (b : N) : list N := [hexdigit (b / 16); hexdigit (b mod 16)].
Definition hex_encode (l : list N) : list N := flat_map hex_byte l.

Fixpoint dec_digits (fuel : nat) (n : N) (acc : list N) : list N :=
  match fuel with
  | O => acc
  | S f => let acc' := (48 + n mod 10) :: acc in
           if n / 10 =? 0 then acc' else dec_digits f (n / 10) acc'
  end.
Definition dec_of_N (n : N) : list N := dec_digits 40 n [].
Definition pad_left (w : nat) (s : list N) : list N := repeat 32 (w - length s) ++ s.

Definition format_entry (k o : list N) (sz tm : N) : list N :=
  [118; 49; 32] ++ hex_encode k ++ [32] ++ hex_encode o ++ [32] ++
  pad_left 20 (dec_of_N sz) ++ [32] ++ pad_left 20 (dec_of_N tm) ++ [10].

(* ---- parsing ---- *)
Definition unhex (c : N) : option N :=
  if (48 <=? c) && (c <=? 57) then Some (c - 48)
  else if (97 <=? c) && (c <=? 102) then Some (c - 87)
  else if (65 <=? c) && (c <=? 70) then Some (c - 55)
  else None.

(* encoding/hex.Decode: error on odd length or a non-hex character *)
Fixpoint hex_decode (l : list N) : option (list N) :=
  match l with
  | [] => Some []
  | a :: r =>
    match r with
    | [] => None
    | b :: r' =>
      match unhex a, unhex b, hex_decode r' with
      | Some x, Some y, Some t => Some (16 * x + y :: t)
      | _, _, _ => None
      end
    end
  end.

Definition is_digit (c : N) : bool := (48 <=? c) && (c <=? 57).

(* strconv.ParseUint(s, 10, 64) on a non-empty s without sign: every character a decimal digit
   (underscores are only legal with base 0); the value is accumulated without bound here and range-checked
   by parse_int (any value >= 2^64 is also >= 2^63, so the outcome is the same error) *)
Fixpoint parse_digits (l : list N) (acc : N) : option N :=
  match l with
  | [] => Some acc
  | c :: r => if is_digit c then parse_digits r (10 * acc + (c - 48)) else None
  end.

(* strconv.ParseInt(s, 10, 64): empty -> error; optional leading '+' or '-'; then ParseUint of the rest
   (empty rest -> error); !neg && un >= 2^63 -> range error; neg && un > 2^63 -> range error *)
Definition parse_int (s : list N) : option Z :=
  match s with
  | [] => None
  | c :: r =>
    let '(neg, ds) := if c =? 43 then (false, r) else if c =? 45 then (true, r) else (false, s) in
    match ds with
    | [] => None
    | _ => match parse_digits ds 0 with
           | None => None
           | Some un =>
             if neg then (if max_int64 + 1 <? un then None else Some (- Z.of_N un)%Z)
             else (if max_int64 <? un then None else Some (Z.of_N un))
           end
    end
  end.

Fixpoint skip_spaces (l : list N) : list N :=
  match l with
  | c :: r => if c =? 32 then skip_spaces r else l
  | [] => []
  end.

Definition slice (start len : nat) (l : list N) : list N := firstn len (skipn start l).

Definition header_ok (e : list N) : bool :=
  (nth 0 e 0 =? 118) && (nth 1 e 0 =? 49) && (nth 2 e 0 =? 32) && (nth 67 e 0 =? 32) &&
  (nth 132 e 0 =? 32) && (nth 153 e 0 =? 32) && (nth 174 e 0 =? 10).

(* [e] is the complete content of the -a file.  ReadFull into entrySize+1 bytes: more than entrySize bytes
   -> "too long"; fewer -> "file is empty"/"entry file incomplete".  Result: (output id, size, unixnano). *)
Definition parse_entry (k : list N) (e : list N) : option (list N * N * N) :=
  if negb (Nat.eqb (length e) entry_size) then None else
  if negb (header_ok e) then None else
  match hex_decode (slice 3 64 e) with
  | None => None
  | Some buf =>
    if negb (bytes_eqb buf k) then None else
    match hex_decode (slice 68 64 e) with
    | None => None
    | Some o =>
      match parse_int (skip_spaces (slice 133 20 e)) with
      | None => None
      | Some sz =>
        if (sz <? 0)%Z then None else
        match parse_int (skip_spaces (slice 154 20 e)) with
        | None => None
        | Some tm => if (tm <? 0)%Z then None else Some (o, Z.to_N sz, Z.to_N tm)
        end
      end
    end
  end.

(* the id embedded in an entry, if it decodes *)
Definition embedded_id (e : list N) : option (list N) := hex_decode (slice 3 64 e).
