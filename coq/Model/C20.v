(* C20: executable model of analysis/report (option setters + version gates of Report),
   analysis/code (LanguageVersion, StdlibVersion) and go/loader (choice of types.Config.GoVersion).
   Definitions only; proofs are in Proofs/C20.v. *)
From Coq Require Import List ZArith Bool.
Import ListNotations.
Require Import Verif.Model.C20_Types Verif.Gen.C20_ReportOpts.
Open Scope Z_scope.

Definition bound_eqb (a b : bound) : bool :=
  match a, b with BMinLang, BMinLang | BMaxLang, BMaxLang | BMinStd, BMinStd | BMaxStd, BMaxStd => true | _, _ => false end.
Definition field_eqb (a b : field) : bool :=
  match a, b with FMinLang, FMinLang | FMaxLang, FMaxLang | FMinStd, FMinStd | FMaxStd, FMaxStd => true | _, _ => false end.

(* go/version.Compare on valid "go<maj>.<min>" strings *)
Definition vcmp (a b : version) : Z :=
  match Z.compare (fst a) (fst b) with
  | Lt => -1 | Gt => 1
  | Eq => match Z.compare (snd a) (snd b) with Lt => -1 | Gt => 1 | Eq => 0 end
  end.
Definition vmax (a b : version) : version := if vcmp a b =? 1 then a else b.

Record options := mkOpts { oMinLang : option version; oMaxLang : option version;
                           oMinStd : option version; oMaxStd : option version }.
Definition empty_opts := mkOpts None None None None.
Definition get_field (f : field) (o : options) : option version :=
  match f with FMinLang => oMinLang o | FMaxLang => oMaxLang o | FMinStd => oMinStd o | FMaxStd => oMaxStd o end.
Definition set_field (f : field) (v : version) (o : options) : options :=
  match f with
  | FMinLang => mkOpts (Some v) (oMaxLang o) (oMinStd o) (oMaxStd o)
  | FMaxLang => mkOpts (oMinLang o) (Some v) (oMinStd o) (oMaxStd o)
  | FMinStd => mkOpts (oMinLang o) (oMaxLang o) (Some v) (oMaxStd o)
  | FMaxStd => mkOpts (oMinLang o) (oMaxLang o) (oMinStd o) (Some v)
  end.

(* ---- the code, driven by the tables extracted from the source ---- *)
Definition fields_of (tbl : list (bound * field)) (b : bound) : list field :=
  map snd (filter (fun e => bound_eqb (fst e) b) tbl).
Definition apply_setter (tbl : list (bound * field)) (o : options) (s : bound * version) : options :=
  fold_left (fun o f => set_field f (snd s) o) (fields_of tbl (fst s)) o.
(* `for _, opt := range opts { opt(cfg) }` *)
Definition build_opts (tbl : list (bound * field)) (l : list (bound * version)) : options :=
  fold_left (apply_setter tbl) l empty_opts.

Definition vsel (k : vkind) (lang std : version) : version := match k with VLang => lang | VStd => std end.
(* `if n := cfg.F; n != "" && version.Compare(n, V) == sign { return }` *)
Definition gate_blocks (o : options) (lang std : version) (g : field * vkind * Z) : bool :=
  match get_field (fst (fst g)) o with
  | None => false
  | Some n => vcmp n (vsel (snd (fst g)) lang std) =? snd g
  end.
Definition report_impl (tbl : list (bound * field)) (gates : list (field * vkind * Z))
           (l : list (bound * version)) (lang std : version) : bool :=
  negb (existsb (gate_blocks (build_opts tbl l) lang std) gates).

(* ---- the specification: bounds the caller ASKED for ---- *)
Fixpoint requested (b : bound) (l : list (bound * version)) : option version :=
  match l with
  | [] => None
  | (b', v) :: r => match requested b r with
                    | Some x => Some x
                    | None => if bound_eqb b b' then Some v else None
                    end
  end.
Definition vle (a b : version) : bool := negb (vcmp a b =? 1).
Definition min_ok (m : option version) (v : version) : bool := match m with None => true | Some n => vle n v end.
Definition max_ok (m : option version) (v : version) : bool := match m with None => true | Some n => vle v n end.
Definition in_range (l : list (bound * version)) (lang std : version) : bool :=
  min_ok (requested BMinLang l) lang && max_ok (requested BMaxLang l) lang &&
  min_ok (requested BMinStd l) std && max_ok (requested BMaxStd l) std.

(* ---- what the tables must say for the theorem to go through (decidable obligation) ---- *)
Definition field_of (b : bound) : field :=
  match b with BMinLang => FMinLang | BMaxLang => FMaxLang | BMinStd => FMinStd | BMaxStd => FMaxStd end.
Definition all_bounds := [BMinLang; BMaxLang; BMinStd; BMaxStd].
Definition all_fields := [FMinLang; FMaxLang; FMinStd; FMaxStd].
Definition gates_for (gates : list (field * vkind * Z)) (f : field) : list (vkind * Z) :=
  map (fun g => (snd (fst g), snd g)) (filter (fun g => field_eqb (fst (fst g)) f) gates).
Definition expected_gate (f : field) : vkind * Z :=
  match f with FMinLang => (VLang, 1) | FMaxLang => (VLang, -1) | FMinStd => (VStd, 1) | FMaxStd => (VStd, -1) end.
Definition vkind_eqb (a b : vkind) := match a, b with VLang, VLang | VStd, VStd => true | _, _ => false end.
Definition gate_list_ok (f : field) (l : list (vkind * Z)) : bool :=
  match l with [] => false | _ => forallb (fun g => vkind_eqb (fst g) (fst (expected_gate f)) && (snd g =? snd (expected_gate f))) l end.
Definition field_list_ok (b : bound) (l : list field) : bool :=
  match l with [] => false | _ => forallb (fun f => field_eqb f (field_of b)) l end.
Definition tables_ok (tbl : list (bound * field)) (gates : list (field * vkind * Z)) : bool :=
  forallb (fun b => field_list_ok b (fields_of tbl b)) all_bounds &&
  forallb (fun f => gate_list_ok f (gates_for gates f)) all_fields.

(* ---- effective versions ---- *)
(* go/loader: types.Config.GoVersion.  flag = None is "-go module"; modv = None: no module information,
   the loader falls back to the last release tag of the toolchain staticcheck was built with. *)
Definition pkg_version (modv flag : option version) (toolchain : version) : version :=
  match flag with
  | Some v => v
  | None => match modv with Some m => m | None => toolchain end
  end.
(* go/types (EXTERNAL, modelled as documented for Go >= 1.23): Info.FileVersions[file] is
   max(tag, go1.21) when the file has a valid //go:build go1.N constraint, else Config.GoVersion. *)
Definition file_lang (pkgv : version) (tag : option version) : version :=
  match tag with Some t => vmax t (1, 21) | None => pkgv end.
(* analysis/code/code.go:StdlibVersion, threshold/sign from the generated table *)
Definition file_std_gen (thr : version) (sign : Z) (pkgv : version) (tag : option version) : version :=
  match tag with
  | None => pkgv
  | Some t => if vcmp pkgv thr =? sign then t
              else if vcmp t pkgv =? 1 then t else pkgv
  end.
Definition file_std := file_std_gen gen_std_threshold gen_std_threshold_sign.
(* documented behaviour (comment block of StdlibVersion) *)
Definition file_std_spec (pkgv : version) (tag : option version) : version :=
  match tag with
  | None => pkgv
  | Some t => if vcmp pkgv (1, 21) =? -1 then t else vmax t pkgv
  end.
Definition std_table_ok (thr : version) (sign : Z) : bool :=
  (fst thr =? 1) && (snd thr =? 21) && (sign =? -1).

(* One cell of the grid: would a problem restricted by the setter list [l] be reported in a file
   tagged [tag] of a module with go directive [modv] when run with -go [flag]? *)
Definition reported (tbl : list (bound * field)) (gates : list (field * vkind * Z))
           (modv flag tag : option version) (toolchain : version) (l : list (bound * version)) : bool :=
  let pv := pkg_version modv flag toolchain in
  report_impl tbl gates l (file_lang pv tag) (file_std pv tag).

(* ---- search for a counterexample over small inputs (used when tables_ok fails) ---- *)
Definition small_versions : list version := [(1, 19); (1, 20); (1, 21); (1, 22)].
Definition small_setter_lists : list (list (bound * version)) :=
  flat_map (fun b => flat_map (fun v =>
     [(b, v)] :: map (fun b2 => [(b, v); (b2, (1, 20))]) all_bounds) small_versions) all_bounds.
Definition find_cex (tbl : list (bound * field)) (gates : list (field * vkind * Z))
  : list (list (bound * version) * version * version) :=
  flat_map (fun l => flat_map (fun lang => flat_map (fun std =>
     if Bool.eqb (report_impl tbl gates l lang std) (in_range l lang std) then [] else [(l, lang, std)])
     small_versions) small_versions) small_setter_lists.
