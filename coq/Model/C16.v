(* C16: files as byte lists, positions <-> offsets, text edits and their application.
   Definitions only (kept compiling / running when a proof breaks).

   A file is a list of bytes (N, values < 256).  Positions follow go/token: lines are separated by
   the byte 10 only, a carriage return is an ordinary byte of its line, columns count BYTES and start
   at 1, the position just after the last byte of a line (on its newline, or at end of file) exists
   (it is what exclusive End positions use).  A file that ends in a newline has a last, empty line. *)
From Coq Require Import List Arith Bool NArith.
Import ListNotations.

Definition file := list N.
Definition is_nl (b : N) : bool := N.eqb b 10%N.

(* ---------- offset -> (line, col) : the scan go/token's line table encodes ---------- *)
Fixpoint pos_of_aux (f : file) (off line col : nat) : nat * nat :=
  match off, f with
  | S k, b :: f' => if is_nl b then pos_of_aux f' k (S line) 1 else pos_of_aux f' k line (S col)
  | _, _ => (line, col)
  end.
Definition pos_of (f : file) (off : nat) : nat * nat := pos_of_aux f off 1 1.

(* ---------- (line, col) -> offset ---------- *)
(* advance c bytes without crossing a newline *)
Fixpoint adv (f : file) (c : nat) : option nat :=
  match c with
  | O => Some 0
  | S c' => match f with
            | [] => None
            | b :: f' => if is_nl b then None else option_map S (adv f' c')
            end
  end.
(* pass dl newlines, then advance dc bytes *)
Fixpoint offset_of_aux (f : file) (dl dc : nat) {struct f} : option nat :=
  match dl with
  | O => adv f dc
  | S dl' => match f with
             | [] => None
             | b :: f' => option_map S (if is_nl b then offset_of_aux f' dl' dc else offset_of_aux f' dl dc)
             end
  end.
Definition offset_of (f : file) (p : nat * nat) : option nat :=
  match p with
  | (S dl, S dc) => offset_of_aux f dl dc
  | _ => None
  end.

(* ---------- validity of a position, stated independently through the table of line lengths ---------- *)
Fixpoint line_lengths (f : file) : list nat :=
  match f with
  | [] => [0]
  | b :: f' => if is_nl b then 0 :: line_lengths f'
               else match line_lengths f' with
                    | n :: r => S n :: r
                    | [] => [1]
                    end
  end.
(* line l exists, and column c lies on it or just past its last byte *)
Definition valid_pos_b (f : file) (p : nat * nat) : bool :=
  match p with
  | (S dl, S dc) => match nth_error (line_lengths f) dl with
                    | Some n => dc <=? n
                    | None => false
                    end
  | _ => false
  end.
(* strict: the position is that of an existing byte (used for the start of a problem) *)
Definition byte_pos_b (f : file) (p : nat * nat) : bool :=
  match offset_of f p with
  | Some o => o <? length f
  | None => false
  end.
(* an end position: valid and not before the start (lexicographic on (line, col)) *)
Definition pos_le (p q : nat * nat) : bool :=
  (fst p <? fst q) || ((fst p =? fst q) && (snd p <=? snd q)).
Definition range_ok_b (f : file) (p q : nat * nat) : bool :=
  valid_pos_b f p && valid_pos_b f q && pos_le p q.

(* ---------- edits ---------- *)
Record edit := mkEdit { e_start : nat; e_end : nat; e_new : list N }.

Definition key_le (a b : edit) : bool :=
  (e_start a <? e_start b) || ((e_start a =? e_start b) && (e_end a <=? e_end b)).

(* stable insertion sort by (start, end): an insertion (end = start) comes before a replacement that
   starts at the same offset; several insertions at one offset keep the order they were given in *)
Fixpoint insert_edit (e : edit) (l : list edit) : list edit :=
  match l with
  | [] => [e]
  | x :: r => if key_le e x then e :: l else x :: insert_edit e r
  end.
Definition sort_edits (l : list edit) : list edit := fold_right insert_edit [] l.

(* on a sorted list: start <= end <= n for every edit and end_i <= start_{i+1}; cur = end of the previous edit *)
Fixpoint check_sorted (n cur : nat) (l : list edit) : bool :=
  match l with
  | [] => true
  | e :: r => (cur <=? e_start e) && (e_start e <=? e_end e) && (e_end e <=? n) && check_sorted n (e_end e) r
  end.

Fixpoint splice (f : file) (cur : nat) (l : list edit) : list N :=
  match l with
  | [] => skipn cur f
  | e :: r => firstn (e_start e - cur) (skipn cur f) ++ e_new e ++ splice f (e_end e) r
  end.

Definition apply_edits (f : file) (es : list edit) : option (list N) :=
  let s := sort_edits es in
  if check_sorted (length f) 0 s then Some (splice f 0 s) else None.

(* ---------- the declarative reading of "within bounds and not overlapping" ---------- *)
Definition in_bounds (n : nat) (e : edit) : Prop := e_start e <= e_end e /\ e_end e <= n.
Definition disjoint (a b : edit) : Prop := e_end a <= e_start b \/ e_end b <= e_start a.
Definition edits_ok (n : nat) (es : list edit) : Prop :=
  Forall (in_bounds n) es /\ ForallOrdPairs disjoint es.

(* executable version of edits_ok on the list as given (quadratic; used on observed fixes) *)
Definition in_bounds_b (n : nat) (e : edit) : bool := (e_start e <=? e_end e) && (e_end e <=? n).
Definition disjoint_b (a b : edit) : bool := (e_end a <=? e_start b) || (e_end b <=? e_start a).
Fixpoint pairwise_b (l : list edit) : bool :=
  match l with
  | [] => true
  | e :: r => forallb (disjoint_b e) r && pairwise_b r
  end.
Definition edits_ok_b (n : nat) (es : list edit) : bool := forallb (in_bounds_b n) es && pairwise_b es.

(* no two insertions at one offset with different text (then the outcome cannot depend on the order given) *)
Definition is_insert (e : edit) : Prop := e_start e = e_end e.
Definition inserts_unambiguous (es : list edit) : Prop :=
  forall a b, In a es -> In b es -> is_insert a -> is_insert b -> e_start a = e_start b -> e_new a = e_new b.

(* bookkeeping for apply_length / apply_untouched *)
Definition sum_new (es : list edit) : nat := list_sum (map (fun e => length (e_new e)) es).
Definition sum_del (es : list edit) : nat := list_sum (map (fun e => e_end e - e_start e) es).
(* bytes inserted / deleted strictly before original offset o (an insertion AT o lands before byte o) *)
Definition ins_before (es : list edit) (o : nat) : nat :=
  list_sum (map (fun e => if e_end e <=? o then length (e_new e) else 0) es).
Definition del_before (es : list edit) (o : nat) : nat :=
  list_sum (map (fun e => if e_end e <=? o then e_end e - e_start e else 0) es).
Definition untouched (es : list edit) (o : nat) : Prop :=
  forall e, In e es -> ~ (e_start e <= o /\ o < e_end e).
Definition shifted (es : list edit) (o : nat) : nat := o + ins_before es o - del_before es o.

(* ---------- the property itself, at full strength, with the outside world as Section variables ----------
   Not provable by this technique (the analyzers, Go's grammar, type system and run-time behaviour are not
   modelled): kept visible here; the check evaluates exactly this predicate, pointwise, on every (package,
   problem) pair it observes, with the Go toolchain standing for [parses], [typechecks_adjusted] and
   [same_behaviour].  What IS proved is in Props/C16.v (the position / edit algebra used below, and the rewrite
   catalogue). *)
Section FullStatement.
  Variable package : Type.
  Variable files_of : package -> list file.
  Record problem := mkProblem {
    pr_file : nat;                                  (* index of the file the problem is reported in *)
    pr_start : nat * nat;
    pr_end : option (nat * (nat * nat));            (* file index and position of the end, if any *)
    pr_fixes : list (nat * list edit);              (* each fix: the one file it edits, and its edits *)
    pr_equiv : bool                                 (* the check is in the simplification / quick-fix category *)
  }.
  Variable analyse : package -> list problem.                          (* all checks, through the runner; //line-remapped ones aside *)
  Variable parses : list N -> bool.                                    (* go/parser *)
  Variable typechecks_adjusted : package -> nat -> list N -> bool.     (* go/types on the package with file i replaced, imports adjusted *)
  Variable same_behaviour : package -> nat -> list N -> Prop.          (* results, panics, visible effects of the affected function *)

  Definition C16_full_statement : Prop :=
    forall p pr, In pr (analyse p) ->
      exists f, nth_error (files_of p) (pr_file pr) = Some f /\
        valid_pos_b f (pr_start pr) = true /\
        match pr_end pr with
        | None => True
        | Some (fi, e) => fi = pr_file pr /\ valid_pos_b f e = true /\ pos_le (pr_start pr) e = true
        end /\
        forall fx, In fx (pr_fixes pr) ->
          exists g r, nth_error (files_of p) (fst fx) = Some g /\
            apply_edits g (snd fx) = Some r /\          (* by overlap_detected: in bounds and not overlapping *)
            parses r = true /\ typechecks_adjusted p (fst fx) r = true /\
            (pr_equiv pr = true -> same_behaviour p (fst fx) r).
End FullStatement.
