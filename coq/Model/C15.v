(* C15 — nilness analysis: mini-IR, transcription of analysis/facts/nilness/nilness.go:impl
   (entry state, processBlock per instruction kind, processPhis, return merge, normalize) on top of the C13 dense
   solver model, and the nil-shape collecting semantics the facts are sound against.  Definitions only. *)
From Coq Require Import List Arith Bool NArith.
Import ListNotations.
Require Import Verif.Model.C13 Verif.Model.C13_Nilness.

(* ------------------------------------------------------------------ mini-IR *)
Inductive vkind := VParam | VBuiltin | VFunction | VGlobal | VNilConst | VConst | VInstr.
Record vinfo := mkV { vk : vkind; v_ptr : bool (* typeutil.IsPointerLike *); v_iface : bool (* types.IsInterface *) }.

Inductive bkind := BAppend | BCopy0 | BMaybe | BNever | BRecover.
Inductive callres :=
| RBuiltin (b : bkind) (arg0 : nat)
| RFact (f : option vn) (iface : bool)   (* calleeNilness[idx] when len > idx (as returned by impl for the callee);
                                            iface = types.IsInterface(result type), used by normalize *)
| RDynamic.
Inductive tswhich := TSIndex | TSDefault (hasNil : bool) | TSCase (toiface : bool)
  | TSMulti (isnil : bool).   (* clause with several types: the bound variable is the tag itself; isnil: the 'nil' entry *)
Inductive slicee := XSlice | XArrPtr | XString.

Inductive instr :=
| IConvert (v x : nat) (intop : bool)        (* ir.Convert; intop: operand has integer basic type (uintptr -> unsafe.Pointer) *)
| ICopy (v x : nat)                          (* ChangeType, ChangeInterface *)
| IS2AP (v x : nat) (nonzero : bool)         (* SliceToArrayPointer; nonzero: all array lengths in the type set are != 0 *)
| IS2A (v x : nat) (nonzero : bool)          (* SliceToArray *)
| ISlice (v x : nat) (xk : slicee) (isarray nzbound : bool)
| IIf (tgt : nat) (eql : bool)               (* If on BinOp(x ==/!= nil); any other If is INop *)
| ILoad (v x : nat) (glob : bool)
| IAddr (v x : nat)                          (* FieldAddr, IndexAddr *)
| INew (v : nat)                             (* Alloc, MakeMap, MakeSlice, MakeClosure, MakeChan *)
| IDeref (x : nat)                           (* MapUpdate.Map, Store.Addr, Send.Chan, single-state blocking Select *)
| ICall (fv : option nat) (res : option (nat * callres))   (* Call / Go / Defer; fv = Common().Value unless invoke *)
| IRecv (v x : nat)
| IMakeIface (v x : nat)
| ITypeAssert (v x : nat) (toiface : bool)   (* without comma-ok *)
| IMapLookup (v x : nat)
| IFieldIdx (v x : nat)                      (* Field, Index *)
| IExtractTS (v tag : nat) (w : tswhich)
| IExtractCall (v : nat) (r : callres)
| ISetMaybe (v : nat)                        (* Extract #0 of a comma-ok TypeAssert; Extract of any other tuple *)
| IDef (v : nat)                             (* value-producing instruction without transfer effect (BinOp, UnOp, tuples, ...) *)
| IPhi (v : nat) (edges : list nat)
| IReturn (results : list nat)
| INop.

Record block := mkB { b_instrs : list instr; b_succs : list nat; b_preds : list nat }.
Record func := mkF {
  f_vals : list vinfo;                (* static information per value id *)
  f_blocks : list block;
  f_seed : list nat;                  (* values given a state on entry, in order: pointer-like parameters, then pointer-like
                                         constant operands (nil), then Global/Function/Builtin operands *)
  f_results : list (bool * bool)      (* per result of the signature: pointer-like, interface *)
}.

Definition vi (f : func) (v : nat) : vinfo := nth v (f_vals f) (mkV VConst false false).
Definition ptr (f : func) (v : nat) : bool := v_ptr (vi f v).
Definition blk (f : func) (b : nat) : block := nth b (f_blocks f) (mkB [] [] []).

(* ------------------------------------------------------------------ state (the analysis's []ValueNilness, indexed by value id) *)
Definition st := list vn.
Definition vident : vn := (NoNil, NoNil).
Definition vn_eqb (a b : vn) : bool := nil_eqb (fst a) (fst b) && nil_eqb (snd a) (snd b).
Definition MM : vn := (MaybeNil, MaybeNil).

Definition kind_default (k : vkind) : vn :=
  match k with
  | VParam => MM
  | VBuiltin | VFunction | VGlobal => (NoNil, NeverNil)
  | _ => vident
  end.

(* state.get *)
Definition sget (f : func) (s : st) (v : nat) : vn :=
  if negb (ptr f v) then (NoNil, NeverNil)
  else if Nat.ltb v (length s) then nth v s vident
  else kind_default (vk (vi f v)).

Definition dset (s : st) (k : nat) (x : vn) : st := upd (s ++ repeat vident (S k - length s)) k x.

(* state.set / setOuter / setInner *)
Definition sset (f : func) (s : st) (v : nat) (x : vn) : st :=
  if negb (ptr f v) then s else if vn_eqb x vident then s else dset s v x.
Definition sset_outer (f : func) (s : st) (v : nat) (o : nilness) : st :=
  if negb (ptr f v) then s else if nil_eqb o NoNil then s else dset s v (fst (sget f s v), o).
Definition sset_inner (f : func) (s : st) (v : nat) (i : nilness) : st :=
  if negb (ptr f v) then s else if nil_eqb i NoNil then s else dset s v (i, snd (sget f s v)).

(* normalize *)
Definition normalize (x : vn) (iface : bool) : vn :=
  ((if nil_eqb (fst x) NoNil || negb iface then MaybeNil else fst x),
   (if nil_eqb (snd x) NoNil then MaybeNil else snd x)).

(* handleReturnValue for a pointer-like result v *)
Definition handle_ret (f : func) (s : st) (v : nat) (r : callres) : st :=
  if negb (ptr f v) then s   (* s.setOuter(v, NeverNil) on a non-pointer-like value is a no-op *)
  else match r with
  | RBuiltin BAppend a =>
      match snd (sget f s a) with
      | MaybeNil => sset_outer f s v MaybeNil
      | MaybeNilGlobal => sset_outer f s v MaybeNilGlobal
      | NeverNil => sset_outer f s v NeverNil
      | AlwaysNil => sset_outer f s v MaybeNil
      | NoNil => s
      end
  | RBuiltin BCopy0 a => sset f s v (sget f s a)
  | RBuiltin BMaybe _ => sset_outer f s v MaybeNil
  | RBuiltin BNever _ => sset_outer f s v NeverNil
  | RBuiltin BRecover _ => sset f s v MM
  | RFact (Some x) iface => sset f s v (normalize x iface)
  | RFact None _ => sset f s v MM
  | RDynamic => sset f s v MM
  end.

(* processBlock: one instruction; [tobranch]: Some true = the edge goes to Succs[0], Some false = another successor,
   None = return processing (to == nil) *)
Definition process_instr (f : func) (tobranch : option bool) (s : st) (i : instr) : st :=
  match i with
  | IConvert v x intop => if intop then sset_outer f s v MaybeNil else sset f s v (sget f s x)
  | ICopy v x => sset f s v (sget f s x)
  | IS2AP v x nonzero =>
      if nonzero then sset_outer f (sset_outer f s v NeverNil) x NeverNil else sset f s v (sget f s x)
  | IS2A v x nonzero => if nonzero then sset_outer f s x NeverNil else s
  | ISlice v x _ isarray nz =>
      if isarray then sset_outer f s v NeverNil
      else if nz then sset_outer f (sset_outer f s v NeverNil) x NeverNil
      else sset f s v (sget f s x)
  | IIf tgt eql =>
      let first := match tobranch with Some b => b | None => false end in
      let op_eql := if first then eql else negb eql in
      if op_eql then sset f s tgt (AlwaysNil, AlwaysNil) else sset_outer f s tgt NeverNil
  | ILoad v x glob =>
      sset_outer f (sset f s v (MaybeNil, if glob then MaybeNilGlobal else MaybeNil)) x NeverNil
  | IAddr v x => sset_outer f (sset_outer f s x NeverNil) v NeverNil
  | INew v => sset_outer f s v NeverNil
  | IDeref x => sset_outer f s x NeverNil
  | ICall fv res =>
      let s1 := match fv with Some g => sset_outer f s g NeverNil | None => s end in
      match res with Some (v, r) => handle_ret f s1 v r | None => s1 end
  | IRecv v x => sset f (sset_outer f s x NeverNil) v MM
  | IMakeIface v x => sset f s v (snd (sget f s x), NeverNil)
  | ITypeAssert v x toiface =>
      let s1 := sset_outer f s x NeverNil in
      if toiface then sset_inner f (sset_outer f s1 v NeverNil) v (fst (sget f s1 x))
      else sset_outer f s1 v (fst (sget f s1 x))
  | IMapLookup v x =>
      if nil_eqb (snd (sget f s x)) AlwaysNil then sset f s v (AlwaysNil, AlwaysNil) else sset f s v MM
  | IFieldIdx v x => sset f (sset f s x (NeverNil, NeverNil)) v MM
  | IExtractTS v tag w =>
      match w with
      | TSIndex => s
      | TSDefault hasNil =>
          let s1 := sset_outer f s tag (if hasNil then NeverNil else MaybeNil) in
          sset f s1 v (sget f s1 tag)
      | TSCase toiface =>
          let s1 := sset_outer f s tag NeverNil in
          if toiface then sset_outer f (sset_inner f s1 v (fst (sget f s1 tag))) v NeverNil
          else sset_outer f s1 v (fst (sget f s1 tag))
      | TSMulti isnil =>
          if isnil then sset f s v (AlwaysNil, AlwaysNil)
          else let s1 := sset_outer f s tag NeverNil in sset f s1 v (sget f s1 tag)
      end
  | IExtractCall v r => handle_ret f s v r
  | ISetMaybe v => sset f s v MM
  | IDef _ | IPhi _ _ | IReturn _ | INop => s
  end.

Definition process_block (f : func) (from : nat) (tobranch : option bool) (s : st) : st :=
  fold_left (process_instr f tobranch) (b_instrs (blk f from)) s.

(* processPhis: all edge states are read before any phi is written (parallel copy) *)
Fixpoint leading_phis (l : list instr) : list (nat * list nat) :=
  match l with
  | IPhi v es :: t => (v, es) :: leading_phis t
  | _ => []
  end.
Definition process_phis (f : func) (to idx : nat) (s : st) : st :=
  let phis := leading_phis (b_instrs (blk f to)) in
  let vals := map (fun p => sget f s (nth idx (snd p) 0)) phis in
  fold_left (fun acc pv => sset f acc (fst (fst pv)) (snd pv)) (combine phis vals) s.

Fixpoint index_of_nat (x : nat) (l : list nat) (k : nat) : nat :=
  match l with [] => k | y :: t => if Nat.eqb x y then k else index_of_nat x t (S k) end.

(* the edge transfer function handed to dense.Forward *)
Definition ntransfer (f : func) (from to : nat) (s : st) : st :=
  let first := Nat.eqb to (nth 0 (b_succs (blk f from)) 0) in
  let s1 := process_block f from (Some first) s in
  process_phis f to (index_of_nat from (b_preds (blk f to)) 0) s1.

(* entry state *)
Definition seed_value (f : func) (v : nat) : vn :=
  match vk (vi f v) with
  | VParam => MM
  | VNilConst => (AlwaysNil, AlwaysNil)
  | VBuiltin | VFunction | VGlobal => (NoNil, NeverNil)
  | _ => vident
  end.
Definition entry_state (f : func) : st :=
  fold_left (fun s v => sset f s v (seed_value f v)) (f_seed f) [].
Definition nentry (f : func) (b : nat) : option st := if Nat.eqb b 0 then Some (entry_state f) else None.

Definition fsuccs (f : func) : list (list nat) := map b_succs (f_blocks f).

Definition nil_solve (f : func) (pick : list nat -> nat) (fuel : nat) : option (@state st) :=
  run (fsuccs f) (ntransfer f) pick fuel (init (fsuccs f) (nentry f)).

(* return merge *)
Definition block_returns (b : block) : option (list nat) :=
  match last (b_instrs b) INop with IReturn rs => Some rs | _ => None end.

Definition merge_rets (f : func) (ins : nat -> st) : list vn :=
  fold_left (fun acc b =>
      match block_returns (blk f b) with
      | Some rs =>
          let s := process_block f b None (ins b) in
          map (fun k => merge (nth k acc vident) (sget f s (nth k rs 0))) (seq 0 (length (f_results f)))
      | None => acc
      end)
    (seq 0 (length (f_blocks f))) (repeat vident (length (f_results f))).

(* impl's return value *)
Definition ret_facts (f : func) (ins : nat -> st) : list vn :=
  map (fun kr => let '(k, (p, ifc)) := kr in
                 if negb p then (NeverNil, NeverNil) else normalize (nth k (merge_rets f ins) vident) ifc)
      (combine (seq 0 (length (f_results f))) (f_results f)).

Definition interesting (f : func) (rets : list vn) : bool :=
  existsb (fun kr => let '(x, (p, _)) := kr in p && negb (vn_eqb x MM)) (combine rets (f_results f)).

(* Result.Nilness(fn, i) as seen by a dependent analyzer *)
Definition observable (f : func) (rets : list vn) : list vn :=
  map (fun kr => let '(x, (p, ifc)) := kr in
                 if negb p then (NoNil, NeverNil)
                 else if interesting f rets then normalize x ifc else MM)
      (combine rets (f_results f)).

Definition analyse (f : func) (pick : list nat -> nat) (fuel : nat) : option (list vn) :=
  match nil_solve f pick fuel with
  | Some s => Some (observable f (ret_facts f (get_in s)))
  | None => None
  end.

(* ------------------------------------------------------------------ nil-shape collecting semantics *)
(* the nil-shape of a concrete value: plain pointer-like values are nil or not; an interface value is the nil
   interface or holds a dynamic value that is itself nil (a typed nil pointer, map, ...) or not *)
Inductive shape := SNil | SNon | SINil | SHold (inner_nil : bool).

Definition outer_nil (sh : shape) : bool := match sh with SNil | SINil => true | _ => false end.
Definition wf_shape (i : vinfo) (sh : shape) : bool :=
  if negb (v_ptr i) then match sh with SNon => true | _ => false end
  else if v_iface i then match sh with SINil | SHold _ => true | _ => false end
  else match sh with SNil | SNon => true | _ => false end.

(* concretisation *)
Definition gamma_o (o : nilness) (sh : shape) : bool :=
  match o with
  | NoNil => false
  | NeverNil => negb (outer_nil sh)
  | AlwaysNil => outer_nil sh
  | MaybeNilGlobal | MaybeNil => true
  end.
Definition gamma_i (i : nilness) (sh : shape) : bool :=
  match sh with
  | SHold b => match i with NoNil => false | NeverNil => negb b | AlwaysNil => b | _ => true end
  | _ => true
  end.
Definition gamma (x : vn) (sh : shape) : bool := gamma_i (fst x) sh && gamma_o (snd x) sh.

Definition env := nat -> option shape.
Definition eset (r : env) (v : nat) (sh : shape) : env := fun w => if Nat.eqb w v then Some sh else r w.

Definition nil_shape_of (i : vinfo) : shape := if negb (v_ptr i) then SNon else if v_iface i then SINil else SNil.
Definition held_shape (i : vinfo) (inner_nil : bool) : shape :=   (* the dynamic value taken out of an interface *)
  if negb (v_ptr i) then SNon else if inner_nil then SNil else SNon.

(* possible result shapes of a call, given the shapes seen so far *)
Definition call_result_ok (f : func) (r : env) (v : nat) (cr : callres) (sh : shape) : Prop :=
  wf_shape (vi f v) sh = true /\
  match cr with
  (* append, unsafe.Slice, unsafe.SliceData, unsafe.StringData, unsafe.Add return slices / pointers, not interfaces *)
  | RBuiltin BAppend a => v_iface (vi f v) = false /\ exists sa, r a = Some sa /\ (outer_nil sa = false -> sh = SNon)
  | RBuiltin BCopy0 a => v_iface (vi f v) = false /\ exists sa, r a = Some sa /\ outer_nil sh = outer_nil sa
  | RBuiltin BNever _ => sh = SNon
  | RBuiltin BMaybe _ => v_iface (vi f v) = false
  | RBuiltin BRecover _ => True
  | RFact (Some x) ifc => ptr f v = true -> gamma (normalize x ifc) sh = true     (* assume: the callee honours its fact *)
  | RFact None _ | RDynamic => True
  end.

(* one instruction; no rule = panic, blocking forever, or not executed on this edge *)
Inductive exec (f : func) (tobranch : option bool) : env -> instr -> env -> Prop :=
| E_convert_int r v x sh : wf_shape (vi f v) sh = true -> v_iface (vi f v) = false ->
    exec f tobranch r (IConvert v x true) (eset r v sh)
| E_convert_ptr r v x sx : r x = Some sx -> ptr f x = true ->
    exec f tobranch r (IConvert v x false) (eset r v (if ptr f v then sx else SNon))
| E_convert_val r v x : ptr f x = false -> exec f tobranch r (IConvert v x false) (eset r v SNon)   (* string -> []byte *)
| E_copy r v x sx : r x = Some sx -> exec f tobranch r (ICopy v x) (eset r v (if ptr f v then sx else SNon))
| E_s2ap_nz r v x : r x = Some SNon -> exec f tobranch r (IS2AP v x true) (eset r v SNon)
| E_s2ap_z r v x sx : r x = Some sx -> exec f tobranch r (IS2AP v x false) (eset r v (if ptr f v then sx else SNon))
| E_s2a_nz r v x : r x = Some SNon -> ptr f v = false -> exec f tobranch r (IS2A v x true) (eset r v SNon)
| E_s2a_z r v x : ptr f v = false -> exec f tobranch r (IS2A v x false) (eset r v SNon)
| E_slice_arr r v x xk nz : exec f tobranch r (ISlice v x xk true nz) (eset r v SNon)
| E_slice_nz r v x xk : r x = Some SNon -> exec f tobranch r (ISlice v x xk false true) (eset r v SNon)
| E_slice_slice r v x sx : r x = Some sx ->
    exec f tobranch r (ISlice v x XSlice false false) (eset r v (if ptr f v then sx else SNon))
| E_slice_arrptr r v x : r x = Some SNon -> exec f tobranch r (ISlice v x XArrPtr false false) (eset r v SNon)
| E_slice_string r v x : ptr f v = false -> exec f tobranch r (ISlice v x XString false false) (eset r v SNon)
| E_if r tgt eql first sh : tobranch = Some first -> r tgt = Some sh ->
    outer_nil sh = (if first then eql else negb eql) -> exec f tobranch r (IIf tgt eql) r
| E_load r v x glob sh : r x = Some SNon -> v <> x -> wf_shape (vi f v) sh = true ->
    exec f tobranch r (ILoad v x glob) (eset r v sh)
| E_addr r v x : r x = Some SNon -> exec f tobranch r (IAddr v x) (eset r v SNon)
| E_new r v : exec f tobranch r (INew v) (eset r v SNon)
| E_deref r x : r x = Some SNon -> exec f tobranch r (IDeref x) r
| E_call r fv res r' :
    (forall g, fv = Some g -> r g = Some SNon) ->
    match res with
    | None => r' = r
    | Some (v, cr) => exists sh, call_result_ok f r v cr sh /\ r' = eset r v sh
    end -> exec f tobranch r (ICall fv res) r'
| E_recv r v x sh : r x = Some SNon -> wf_shape (vi f v) sh = true -> exec f tobranch r (IRecv v x) (eset r v sh)
| E_makeiface r v x sx : r x = Some sx -> ptr f v = true -> exec f tobranch r (IMakeIface v x) (eset r v (SHold (outer_nil sx)))
| E_assert_iface r v x b : r x = Some (SHold b) -> ptr f v = true -> exec f tobranch r (ITypeAssert v x true) (eset r v (SHold b))
| E_assert_conc r v x b : r x = Some (SHold b) ->
    exec f tobranch r (ITypeAssert v x false) (eset r v (held_shape (vi f v) b))
| E_maplookup_nil r v x : r x = Some SNil -> exec f tobranch r (IMapLookup v x) (eset r v (nil_shape_of (vi f v)))
| E_maplookup r v x sh : r x = Some SNon -> wf_shape (vi f v) sh = true -> exec f tobranch r (IMapLookup v x) (eset r v sh)
| E_fieldidx r v x sh : wf_shape (vi f v) sh = true -> ptr f x = false (* struct, array or string operand *) ->
    exec f tobranch r (IFieldIdx v x) (eset r v sh)
| E_ts_index r v tag : ptr f v = false -> exec f tobranch r (IExtractTS v tag TSIndex) (eset r v SNon)
| E_ts_default r v tag hasNil sh : r tag = Some sh -> (hasNil = true -> outer_nil sh = false) ->
    exec f tobranch r (IExtractTS v tag (TSDefault hasNil)) (eset r v (if ptr f v then sh else SNon))
| E_ts_case_iface r v tag b : r tag = Some (SHold b) -> ptr f v = true ->
    exec f tobranch r (IExtractTS v tag (TSCase true)) (eset r v (SHold b))
| E_ts_case_conc r v tag b : r tag = Some (SHold b) ->
    exec f tobranch r (IExtractTS v tag (TSCase false)) (eset r v (held_shape (vi f v) b))
| E_ts_multi r v tag sh : r tag = Some sh -> outer_nil sh = false ->
    exec f tobranch r (IExtractTS v tag (TSMulti false)) (eset r v (if ptr f v then sh else SNon))
| E_ts_multi_nil r v tag sh : r tag = Some sh -> outer_nil sh = true ->
    exec f tobranch r (IExtractTS v tag (TSMulti true)) (eset r v (if ptr f v then sh else SNon))
| E_extract_call r v cr sh : call_result_ok f r v cr sh -> exec f tobranch r (IExtractCall v cr) (eset r v sh)
| E_setmaybe r v sh : wf_shape (vi f v) sh = true -> exec f tobranch r (ISetMaybe v) (eset r v sh)
| E_def r v : ptr f v = false -> exec f tobranch r (IDef v) (eset r v SNon)
| E_phi r v es : exec f tobranch r (IPhi v es) r
| E_return r rs : exec f tobranch r (IReturn rs) r
| E_nop r : exec f tobranch r INop r.

Inductive exec_list (f : func) (tb : option bool) : env -> list instr -> env -> Prop :=
| EL_nil r : exec_list f tb r [] r
| EL_cons r i r1 l r2 : exec f tb r i r1 -> exec_list f tb r1 l r2 -> exec_list f tb r (i :: l) r2.

(* parallel phi assignment on the edge from -> to (idx = position of from among to's predecessors) *)
Definition phi_assign (f : func) (to idx : nat) (r r' : env) : Prop :=
  let phis := leading_phis (b_instrs (blk f to)) in
  exists shs, length shs = length phis /\
    (forall k p, nth_error phis k = Some p -> r (nth idx (snd p) 0) = Some (nth k shs SNon)) /\
    r' = fold_left (fun acc ps => eset acc (fst (fst ps)) (if ptr f (fst (fst ps)) then snd ps else SNon))
                   (combine phis shs) r.

(* taking the CFG edge a -> b *)
Definition edge_step (f : func) (a b : nat) (r r' : env) : Prop :=
  In b (b_succs (blk f a)) /\
  exists r1, exec_list f (Some (Nat.eqb b (nth 0 (b_succs (blk f a)) 0))) r (b_instrs (blk f a)) r1 /\
             phi_assign f b (index_of_nat a (b_preds (blk f b)) 0) r1 r'.

(* environments at the entry of a block, reachable from the entry block *)
Inductive reach (f : func) (r0 : env) : nat -> env -> Prop :=
| R_entry : reach f r0 0 r0
| R_step a b r r' : reach f r0 a r -> edge_step f a b r r' -> reach f r0 b r'.

(* initial environment: only non-instruction values are defined, with shapes allowed by their kind; the
   pointer-like ones are those the analysis seeds its entry state with *)
Definition init_env_ok (f : func) (r0 : env) : Prop :=
  forall v, match r0 v with
            | None => True
            | Some sh =>
                wf_shape (vi f v) sh = true /\
                (ptr f v = true -> In v (f_seed f)) /\
                match vk (vi f v) with
                | VParam => True
                | VBuiltin | VFunction | VGlobal => sh = SNon
                | VNilConst => sh = nil_shape_of (vi f v)
                | VConst => sh = SNon /\ ptr f v = false
                | VInstr => False
                end
            end.

(* a normal return of result k with shape sh *)
Definition returns (f : func) (r0 : env) (k : nat) (sh : shape) : Prop :=
  exists b r r1 rs, reach f r0 b r /\ block_returns (blk f b) = Some rs /\
                    exec_list f None r (b_instrs (blk f b)) r1 /\ r1 (nth k rs 0) = Some sh.

(* structural side conditions of the serialised IR (checked by [wf_func_b] on every function) *)
Definition seeded (f : func) (v : nat) : bool :=
  match vk (vi f v) with
  | VInstr => true
  | VConst => negb (ptr f v)
  | _ => negb (ptr f v) || existsb (Nat.eqb v) (f_seed f)
  end.
Definition instr_values (i : instr) : list nat :=
  match i with
  | IConvert v x _ | ICopy v x | IS2AP v x _ | IS2A v x _ | ISlice v x _ _ _ | ILoad v x _ | IAddr v x | IRecv v x
  | IMakeIface v x | ITypeAssert v x _ | IMapLookup v x | IFieldIdx v x | IExtractTS v x _ => [v; x]
  | IIf x _ | IDeref x => [x]
  | INew v | ISetMaybe v | IDef v => [v]
  | ICall fv res => (match fv with Some g => [g] | None => [] end) ++
                    (match res with Some (v, RBuiltin _ a) => [v; a] | Some (v, _) => [v] | None => [] end)
  | IExtractCall v (RBuiltin _ a) => [v; a]
  | IExtractCall v _ => [v]
  | IPhi v es => v :: es
  | IReturn rs => rs
  | INop => []
  end.
Definition nodup_nat (l : list nat) : bool :=
  forallb (fun k => negb (existsb (Nat.eqb (nth k l 0)) (firstn k l))) (seq 0 (length l)).
Definition wf_func_b (f : func) : bool :=
  (* block 0 has no predecessors; successor/predecessor lists are in range and mutually consistent *)
  match b_preds (blk f 0) with [] => true | _ => false end &&
  forallb (fun a => forallb (fun b => Nat.ltb b (length (f_blocks f)) && existsb (Nat.eqb a) (b_preds (blk f b)))
                            (b_succs (blk f a)) &&
                    forallb (fun p => Nat.ltb p (length (f_blocks f)) && existsb (Nat.eqb a) (b_succs (blk f p)))
                            (b_preds (blk f a)) &&
                    nodup_nat (b_preds (blk f a)) &&
                    (* an If on a nil comparison is the last instruction and has two distinct successors *)
                    forallb (fun i => match i with
                                      | IIf _ _ => match b_succs (blk f a) with [x; y] => negb (Nat.eqb x y) | _ => false end
                                      | _ => true end) (b_instrs (blk f a)) &&
                    (* phis are leading and have one edge per predecessor *)
                    forallb (fun p => Nat.eqb (length (snd p)) (length (b_preds (blk f a))))
                            (leading_phis (b_instrs (blk f a))) &&
                    nodup_nat (map fst (leading_phis (b_instrs (blk f a)))) &&
                    (* every mentioned non-instruction pointer-like value is seeded *)
                    forallb (fun i => forallb (seeded f) (instr_values i)) (b_instrs (blk f a)))
          (seq 0 (length (f_blocks f))) &&
  forallb (fun v => match vk (vi f v) with VInstr => false | _ => true end) (f_seed f).
