(* C20: executable comparison of the model / the specification with what the implementation did.
   Used by cases/C20/*.v written by the harness (vm_compute). *)
From Coq Require Import List ZArith Bool.
Import ListNotations.
Require Import Verif.Model.C20_Types Verif.Gen.C20_ReportOpts Verif.Model.C20.
Open Scope Z_scope.

Record cell := mkCell {
  c_mod : Z;                 (* go directive 1.N *)
  c_flag : option Z;         (* -go 1.N, None = module *)
  c_tag : option Z;          (* //go:build go1.N *)
  c_lang : version;          (* implementation: code.LanguageVersion *)
  c_std : version;           (* implementation: code.StdlibVersion *)
  c_reported : list nat      (* indices of probes reported by the implementation *)
}.
Definition v1 (n : Z) : version := (1, n).
Definition veqb (a b : version) : bool := (fst a =? fst b) && (snd a =? snd b).
Definition toolchain : version := (1, 26).

(* c_mod = 0 encodes "no module information" (GOPATH mode) *)
Definition cell_modv (m : Z) : option version := if m =? 0 then None else Some (v1 m).
Definition cell_pkgv (c : cell) := pkg_version (cell_modv (c_mod c)) (option_map v1 (c_flag c)) toolchain.

Inductive diffkind := DLang | DStd | DReport (probe : nat) (impl : bool).

(* model (the transcription of the code, with generated tables) vs implementation *)
Definition cell_mismatch (probes : list (list (bound * version))) (c : cell) : list diffkind :=
  let pv := cell_pkgv c in
  let tag := option_map v1 (c_tag c) in
  (if veqb (file_lang pv tag) (c_lang c) then [] else [DLang]) ++
  (if veqb (file_std pv tag) (c_std c) then [] else [DStd]) ++
  flat_map (fun ip =>
     let impl := existsb (Nat.eqb (fst ip)) (c_reported c) in
     if Bool.eqb (report_impl gen_setters gen_gates (snd ip) (file_lang pv tag) (file_std pv tag)) impl
     then [] else [DReport (fst ip) impl])
    (combine (seq 0 (length probes)) probes).

(* the PROPERTY itself evaluated on the implementation's observable behaviour (no tables involved) *)
Definition cell_violation (probes : list (list (bound * version))) (c : cell) : list diffkind :=
  let pv := cell_pkgv c in
  let tag := option_map v1 (c_tag c) in
  (if veqb (file_lang pv tag) (c_lang c) then [] else [DLang]) ++
  (if veqb (file_std_spec pv tag) (c_std c) then [] else [DStd]) ++
  flat_map (fun ip =>
     let impl := existsb (Nat.eqb (fst ip)) (c_reported c) in
     if Bool.eqb (in_range (snd ip) (file_lang pv tag) (file_std_spec pv tag)) impl
     then [] else [DReport (fst ip) impl])
    (combine (seq 0 (length probes)) probes).

Definition numbered {A} (f : cell -> list A) (cells : list cell) : list (nat * list A) :=
  filter (fun x => match snd x with [] => false | _ => true end)
         (combine (seq 0 (length cells)) (map f cells)).
Definition mismatches probes cells := numbered (cell_mismatch probes) cells.
Definition violations probes cells := numbered (cell_violation probes) cells.

(* ---- CLI tie: real checks through the real binary ---- *)
Record clicell := mkCli {
  k_mod : Z; k_flag : option Z; k_tag : option Z;
  k_sa1019 : list bool;      (* per API (deprecated since go1.N): reported? *)
  k_sa1015 : bool;           (* time.Tick flagged? (restricted to stdlib < go1.23) *)
  k_other : nat              (* number of unexpected problems *)
}.
Definition cli_std (c : clicell) : version :=
  file_std_spec (pkg_version (cell_modv (k_mod c)) (option_map v1 (k_flag c)) toolchain) (option_map v1 (k_tag c)).
(* specification: SA1019 for an API deprecated since s is reported iff s <= stdlib version;
   SA1015 iff stdlib version < go1.23 *)
Definition cli_violation (since : list Z) (c : clicell) : list (nat * bool) :=
  let std := cli_std c in
  flat_map (fun x => let '(i, (s, r)) := x in
              if Bool.eqb (vle (v1 s) std) r then [] else [(i, r)])
           (combine (seq 0 (length since)) (combine since (k_sa1019 c))) ++
  (if Bool.eqb (vcmp std (1, 23) =? -1) (k_sa1015 c) then [] else [(100%nat, k_sa1015 c)]) ++
  (if Nat.eqb (k_other c) 0 then [] else [(200%nat, true)]) ++
  (if Nat.eqb (length (k_sa1019 c)) (length since) then [] else [(300%nat, true)]).
Definition cli_violations since (cells : list clicell) :=
  filter (fun x => match snd x with [] => false | _ => true end)
         (combine (seq 0 (length cells)) (map (cli_violation since) cells)).
