(* C20: executable comparison of the model / the specification with what the implementation did.
   Used by cases/C20/*.v written by the harness (vm_compute). *)
From Coq Require Import List ZArith Bool.
Import ListNotations.
Require Import Verif.Model.C20_Types Verif.Gen.C20_ReportOpts Verif.Model.C20.
Open Scope Z_scope.

Record cell := mkCell {
  c_mod : Z;                 (* go directive 1.N *)
  c_flag : option Z;         (* -go 1.N, None = module *)
  c_tag : option Z;          (* //go:build go1.N *)
  c_lang : version;          (* implementation: code.LanguageVersion *)
  c_std : version;           (* implementation: code.StdlibVersion *)
  c_reported : list nat      (* indices of probes reported by the implementation *)
}.
Definition v1 (n : Z) : version := (1, n).
Definition veqb (a b : version) : bool := (fst a =? fst b) && (snd a =? snd b).
Definition toolchain : version := (1, 26).

Definition cell_pkgv (c : cell) := pkg_version (Some (v1 (c_mod c))) (option_map v1 (c_flag c)) toolchain.

Inductive diffkind := DLang | DStd | DReport (probe : nat) (impl : bool).

(* model (the transcription of the code, with generated tables) vs implementation *)
Definition cell_mismatch (probes : list (list (bound * version))) (c : cell) : list diffkind :=
  let pv := cell_pkgv c in
  let tag := option_map v1 (c_tag c) in
  (if veqb (file_lang pv tag) (c_lang c) then [] else [DLang]) ++
  (if veqb (file_std pv tag) (c_std c) then [] else [DStd]) ++
  flat_map (fun ip =>
     let impl := existsb (Nat.eqb (fst ip)) (c_reported c) in
     if Bool.eqb (report_impl gen_setters gen_gates (snd ip) (file_lang pv tag) (file_std pv tag)) impl
     then [] else [DReport (fst ip) impl])
    (combine (seq 0 (length probes)) probes).

(* the PROPERTY itself evaluated on the implementation's observable behaviour (no tables involved) *)
Definition cell_violation (probes : list (list (bound * version))) (c : cell) : list diffkind :=
  let pv := cell_pkgv c in
  let tag := option_map v1 (c_tag c) in
  (if veqb (file_lang pv tag) (c_lang c) then [] else [DLang]) ++
  (if veqb (file_std_spec pv tag) (c_std c) then [] else [DStd]) ++
  flat_map (fun ip =>
     let impl := existsb (Nat.eqb (fst ip)) (c_reported c) in
     if Bool.eqb (in_range (snd ip) (file_lang pv tag) (file_std_spec pv tag)) impl
     then [] else [DReport (fst ip) impl])
    (combine (seq 0 (length probes)) probes).

Definition numbered {A} (f : cell -> list A) (cells : list cell) : list (nat * list A) :=
  filter (fun x => match snd x with [] => false | _ => true end)
         (combine (seq 0 (length cells)) (map f cells)).
Definition mismatches probes cells := numbered (cell_mismatch probes) cells.
Definition violations probes cells := numbered (cell_violation probes) cells.
