(* C01: executable semantics of the go/ir instruction set ("the documented meaning of each
   instruction", go/ir/ssa.go), as a fuelled small-step machine.
   Definitions only; proofs are in Proofs/C01*.v.

   Shape of the model
   - values: fixed-width integers (explicit wrap-around), bool, string (bytes), pointers (cell, path)
     into a heap of cells, aggregates (struct / array / tuple), slices (backing array address, offset,
     len, cap), closures, interfaces (dynamic type id, payload), maps (reference to a heap-resident
     association list), iterators (reference to a heap cell).
   - every non-control instruction is  [IOp dst opcode operands]: the operands are evaluated first
     (the ONLY place registers are read), then [sem_op] computes on values.  Calls, defers, phis and
     terminators are handled by the machine [step].
   - outcomes: Done / Panicked / OutOfFuel / Stuck e  (Stuck (EUndef r) = read of an unassigned register). *)
From Coq Require Import List ZArith NArith PArith Bool FMapPositive.
Import ListNotations.
Open Scope Z_scope.

Module PM := PositiveMap.

(* ------------------------------------------------------------------ values *)

Definition addr : Type := (positive * list N)%type.   (* heap cell, path into the aggregate stored there *)

Inductive value : Type :=
| VInt (z : Z)                                   (* normalised into the range of its static type *)
| VBool (b : bool)
| VStr (s : list N)                              (* bytes *)
| VPtr (p : option addr)                         (* None = nil *)
| VAgg (vs : list value)                         (* struct, array, tuple *)
| VSlice (base : option addr) (off len cap : N)  (* base = address of the backing array aggregate *)
| VClos (fn : N) (binds : list value)            (* function value; top-level functions have no bindings *)
| VNilFunc
| VIface (dyn : option (N * value))              (* dynamic type id, payload; None = nil interface *)
| VMap (m : option positive).                    (* reference into heap.maps; None = nil map *)

(* dynamic type id reserved for runtime.Error values (payload: VInt kind) *)
Definition rt_error_ty : N := 0%N.

Inductive error :=
| EUndef (r : positive)          (* read of a register that has not been assigned *)
| EType (what : N)               (* operand of the wrong shape for the instruction: never for well-typed IR *)
| EUnsupported (what : N)        (* instruction/feature outside the modelled set *)
| EInternal (what : N).          (* malformed program: missing block, function, arity *)

(* runtime panic kinds (payload of the runtime.Error value) *)
Definition pk_nil : Z := 1.       (* nil dereference *)
Definition pk_index : Z := 2.     (* index out of range *)
Definition pk_slice : Z := 3.     (* slice bounds out of range *)
Definition pk_div : Z := 4.       (* integer divide by zero *)
Definition pk_shift : Z := 5.     (* negative shift amount *)
Definition pk_assert : Z := 6.    (* failed type assertion *)
Definition pk_makeslice : Z := 7. (* makeslice: len/cap out of range *)
Definition pk_nilmap : Z := 8.    (* assignment to entry in nil map *)
Definition pk_nilfunc : Z := 9.   (* call of nil func *)
Definition pk_conv : Z := 10.     (* slice to array conversion length mismatch *)
Definition pk_uncomparable : Z := 11. (* comparing uncomparable dynamic types *)

(* ------------------------------------------------------------------ small utilities *)

Fixpoint nthN {A} (l : list A) (i : N) : option A :=
  match l with
  | [] => None
  | x :: r => if N.eqb i 0 then Some x else nthN r (N.pred i)
  end.

Fixpoint updN {A} (l : list A) (i : N) (x : A) : option (list A) :=
  match l with
  | [] => None
  | y :: r => if N.eqb i 0 then Some (x :: r)
              else match updN r (N.pred i) x with Some r' => Some (y :: r') | None => None end
  end.

Fixpoint repeatN {A} (x : A) (n : nat) : list A :=
  match n with O => [] | S k => x :: repeatN x k end.

Definition lenN {A} (l : list A) : N := N.of_nat (length l).

Fixpoint firstnN {A} (n : nat) (l : list A) : list A :=
  match n, l with
  | O, _ => []
  | S k, x :: r => x :: firstnN k r
  | S _, [] => []
  end.
Fixpoint skipnN {A} (n : nat) (l : list A) : list A :=
  match n, l with
  | O, _ => l
  | S k, _ :: r => skipnN k r
  | S _, [] => []
  end.

Fixpoint index_of (x : N) (l : list N) (i : N) : option N :=
  match l with
  | [] => None
  | y :: r => if N.eqb x y then Some i else index_of x r (N.succ i)
  end.

Fixpoint list_eqb {A} (eqb : A -> A -> bool) (a b : list A) : bool :=
  match a, b with
  | [], [] => true
  | x :: r, y :: s => eqb x y && list_eqb eqb r s
  | _, _ => false
  end.

Definition addr_eqb (a b : addr) : bool :=
  Pos.eqb (fst a) (fst b) && list_eqb N.eqb (snd a) (snd b).

(* ------------------------------------------------------------------ integers *)

Inductive ikind := IK (signed : bool) (bits : N).

Definition wrap (k : ikind) (z : Z) : Z :=
  match k with
  | IK s b =>
    let m := Z.pow 2 (Z.of_N b) in
    let r := Z.modulo z m in
    if s && (m / 2 <=? r) then r - m else r
  end.

Definition ik_bits (k : ikind) : Z := match k with IK _ b => Z.of_N b end.

(* ------------------------------------------------------------------ strings / UTF-8 *)

Fixpoint str_ltb (a b : list N) : bool :=
  match a, b with
  | _, [] => false
  | [], _ :: _ => true
  | x :: r, y :: s => if N.ltb x y then true else if N.ltb y x then false else str_ltb r s
  end.
Definition str_eqb (a b : list N) : bool := list_eqb N.eqb a b.

Definition rune_error : Z := 65533.

(* encode a code point (invalid and surrogate code points encode U+FFFD) *)
Definition utf8_encode (r : Z) : list N :=
  let r := if (r <? 0) || (1114111 <? r) || ((55296 <=? r) && (r <=? 57343)) then rune_error else r in
  let b (x : Z) := Z.to_N x in
  if r <? 128 then [b r]
  else if r <? 2048 then [b (192 + r / 64); b (128 + r mod 64)]
  else if r <? 65536 then [b (224 + r / 4096); b (128 + (r / 64) mod 64); b (128 + r mod 64)]
  else [b (240 + r / 262144); b (128 + (r / 4096) mod 64); b (128 + (r / 64) mod 64); b (128 + r mod 64)].

Definition is_cont (x : N) : bool := (N.leb 128 x) && (N.ltb x 192).

(* decode the first rune of a non-empty byte string: (rune, width); invalid encodings give (U+FFFD, 1) *)
Definition utf8_decode (s : list N) : (Z * N) :=
  match s with
  | [] => (rune_error, 0%N)
  | c0 :: r =>
    let z0 := Z.of_N c0 in
    if z0 <? 128 then (z0, 1%N)
    else if z0 <? 194 then (rune_error, 1%N)
    else if z0 <? 224 then
      match r with
      | c1 :: _ => if is_cont c1 then ((z0 - 192) * 64 + (Z.of_N c1 - 128), 2%N) else (rune_error, 1%N)
      | _ => (rune_error, 1%N)
      end
    else if z0 <? 240 then
      match r with
      | c1 :: c2 :: _ =>
        let z1 := Z.of_N c1 in
        let lo := if z0 =? 224 then 160 else 128 in
        let hi := if z0 =? 237 then 159 else 191 in
        if (lo <=? z1) && (z1 <=? hi) && is_cont c2
        then ((z0 - 224) * 4096 + (z1 - 128) * 64 + (Z.of_N c2 - 128), 3%N) else (rune_error, 1%N)
      | _ => (rune_error, 1%N)
      end
    else if z0 <? 245 then
      match r with
      | c1 :: c2 :: c3 :: _ =>
        let z1 := Z.of_N c1 in
        let lo := if z0 =? 240 then 144 else 128 in
        let hi := if z0 =? 244 then 143 else 191 in
        if (lo <=? z1) && (z1 <=? hi) && is_cont c2 && is_cont c3
        then ((z0 - 240) * 262144 + (z1 - 128) * 4096 + (Z.of_N c2 - 128) * 64 + (Z.of_N c3 - 128), 4%N)
        else (rune_error, 1%N)
      | _ => (rune_error, 1%N)
      end
    else (rune_error, 1%N)
  end.

Fixpoint utf8_runes (fuel : nat) (s : list N) : list Z :=
  match fuel with
  | O => []
  | S k => match s with
           | [] => []
           | _ => let '(r, w) := utf8_decode s in r :: utf8_runes k (skipnN (N.to_nat w) s)
           end
  end.

(* ------------------------------------------------------------------ heap *)

Record heap := mkHeap { cells : PM.t value; maps : PM.t (list (value * value)); next : positive }.

Definition alloc_cell (h : heap) (v : value) : (positive * heap) :=
  (next h, mkHeap (PM.add (next h) v (cells h)) (maps h) (Pos.succ (next h))).
Definition alloc_map (h : heap) (m : list (value * value)) : (positive * heap) :=
  (next h, mkHeap (cells h) (PM.add (next h) m (maps h)) (Pos.succ (next h))).
Definition set_cell (h : heap) (c : positive) (v : value) : heap :=
  mkHeap (PM.add c v (cells h)) (maps h) (next h).
Definition set_map (h : heap) (c : positive) (m : list (value * value)) : heap :=
  mkHeap (cells h) (PM.add c m (maps h)) (next h).

Fixpoint vget (v : value) (path : list N) : option value :=
  match path with
  | [] => Some v
  | i :: p => match v with
              | VAgg vs => match nthN vs i with Some x => vget x p | None => None end
              | _ => None
              end
  end.

Fixpoint vset (v : value) (path : list N) (x : value) : option value :=
  match path with
  | [] => Some x
  | i :: p => match v with
              | VAgg vs => match nthN vs i with
                           | Some old => match vset old p x with
                                         | Some new => match updN vs i new with Some vs' => Some (VAgg vs') | None => None end
                                         | None => None
                                         end
                           | None => None
                           end
              | _ => None
              end
  end.

Definition hload (h : heap) (a : addr) : option value :=
  match PM.find (fst a) (cells h) with Some v => vget v (snd a) | None => None end.
Definition hstore (h : heap) (a : addr) (x : value) : option heap :=
  match PM.find (fst a) (cells h) with
  | Some v => match vset v (snd a) x with Some v' => Some (set_cell h (fst a) v') | None => None end
  | None => None
  end.

Definition elem_addr (a : addr) (i : N) : addr := (fst a, snd a ++ [i]).

(* read / write a run of n elements of the array at a starting from index off *)
Fixpoint hload_run (h : heap) (a : addr) (off : N) (n : nat) : option (list value) :=
  match n with
  | O => Some []
  | S k => match hload h (elem_addr a off), hload_run h a (N.succ off) k with
           | Some v, Some r => Some (v :: r)
           | _, _ => None
           end
  end.
Fixpoint hstore_run (h : heap) (a : addr) (off : N) (vs : list value) : option heap :=
  match vs with
  | [] => Some h
  | v :: r => match hstore h (elem_addr a off) v with
              | Some h' => hstore_run h' a (N.succ off) r
              | None => None
              end
  end.

(* ------------------------------------------------------------------ equality of values (==) *)

(* Some b: comparable; None: uncomparable operands (slices, maps, funcs other than against nil) *)
Fixpoint veq (a b : value) {struct a} : option bool :=
  match a, b with
  | VInt x, VInt y => Some (Z.eqb x y)
  | VBool x, VBool y => Some (Bool.eqb x y)
  | VStr x, VStr y => Some (str_eqb x y)
  | VPtr None, VPtr None => Some true
  | VPtr (Some x), VPtr (Some y) => Some (addr_eqb x y)
  | VPtr _, VPtr _ => Some false
  | VAgg xs, VAgg ys =>
    (fix go (xs ys : list value) {struct xs} : option bool :=
       match xs, ys with
       | [], [] => Some true
       | x :: r, y :: s => match veq x y with
                           | Some true => go r s
                           | Some false => match go r s with Some _ => Some false | None => None end
                           | None => None
                           end
       | _, _ => Some false
       end) xs ys
  | VSlice None _ _ _, VSlice None _ _ _ => Some true
  | VSlice _ _ _ _, VSlice None _ _ _ => Some false
  | VSlice None _ _ _, VSlice _ _ _ _ => Some false
  | VClos _ _, VNilFunc => Some false
  | VNilFunc, VClos _ _ => Some false
  | VNilFunc, VNilFunc => Some true
  | VMap None, VMap None => Some true
  | VMap (Some _), VMap None => Some false
  | VMap None, VMap (Some _) => Some false
  | VIface None, VIface None => Some true
  | VIface (Some (t, x)), VIface (Some (u, y)) => if N.eqb t u then veq x y else Some false
  | VIface _, VIface _ => Some false
  | _, _ => None
  end.

(* shape of a comparison of struct values: blank (_) fields do not take part in == *)
Inductive cshape := CAny | CFields (fs : list (option cshape)) | CElems (e : cshape).

(* == on values of a struct type with blank fields (None = blank field, ignored) *)
Fixpoint veq_shape (s : cshape) (a b : value) {struct s} : option bool :=
  match s, a, b with
  | CAny, _, _ => veq a b
  | CFields fs, VAgg xs, VAgg ys =>
    (fix go (fs : list (option cshape)) (xs ys : list value) {struct fs} : option bool :=
       match fs, xs, ys with
       | [], [], [] => Some true
       | None :: r, _ :: xr, _ :: yr => go r xr yr
       | Some f :: r, x :: xr, y :: yr =>
         match veq_shape f x y with
         | Some true => go r xr yr
         | Some false => match go r xr yr with Some _ => Some false | None => None end
         | None => None
         end
       | _, _, _ => None
       end) fs xs ys
  | CElems e, VAgg xs, VAgg ys =>
    (fix go (xs ys : list value) {struct xs} : option bool :=
       match xs, ys with
       | [], [] => Some true
       | x :: xr, y :: yr =>
         match veq_shape e x y with
         | Some true => go xr yr
         | Some false => match go xr yr with Some _ => Some false | None => None end
         | None => None
         end
       | _, _ => None
       end) xs ys
  | _, _, _ => None
  end.

(* ------------------------------------------------------------------ program syntax *)

Inductive operand :=
| OReg (r : positive)
| OConst (v : value)
| OGlobal (g : positive)     (* address of a package-level variable: heap cell g *)
| OFunc (f : N).             (* a function used as a value *)

Inductive binop := Add | Sub | Mul | Quo | Rem | BAnd | BOr | BXor | Shl | Shr | AndNot
                 | Eql | Neq | Lss | Leq | Gtr | Geq.
Inductive unop := UNot | UNeg | UCompl.
Inductive okind := KInt (k : ikind) | KBool | KStr | KOther | KShape (s : cshape).
Inductive ckind := CInt (k : ikind) | CStr | CBytes | CRunes | COther.
Inductive seqkind := SqString | SqSlice | SqArrayPtr (n : N) | SqArray (n : N) | SqMap.
Inductive builtin := BLen (k : seqkind) | BCap (k : seqkind) | BAppend (zero : value) (fromstr : bool)
                   | BCopy (fromstr : bool) | BMin (k : okind) | BMax (k : okind) | BDelete | BClearMap
                   | BClearSlice (zero : value) | BWrapNilChk.

Inductive opcode :=
| OpAlloc (onheap : bool) (zero : value)
| OpLoad | OpStore | OpNop                     (* OpNop: BlankStore, DebugRef: no dynamic effect *)
| OpBin (op : binop) (k : okind) (yk : okind)  (* yk: kind of the right operand (shift counts) *)
| OpUn (op : unop) (k : okind)
| OpConvert (from to : ckind)
| OpChangeType | OpChangeInterface
| OpMakeInterface (ty : N)
| OpTypeAssert (isiface : bool) (tys : list N) (commaok : bool) (zero : value)
| OpTypeSwitch (conds : list (bool * list N)) (zeros : list value)  (* (is interface/nil case, type ids) *)
| OpMakeClosure (fn : N)
| OpMakeSlice (zero : value)
| OpSlice (k : seqkind) (haslo hashi hasmax : bool)
| OpFieldAddr (f : N) | OpField (f : N)
| OpIndexAddr (k : seqkind) | OpIndex (k : seqkind) | OpStringLookup
| OpExtract (i : N) | OpComposite
| OpBuiltin (b : builtin)
| OpRange (k : seqkind) | OpNext (isstr : bool)
| OpMakeMap | OpMapLookup (commaok : bool) (zero : value) | OpMapUpdate
| OpSliceToArrayPtr (n : N) | OpSliceToArray (n : N)
| OpUnsupported (what : N).

Inductive callmode :=
| CStatic (f : N)            (* operands = arguments *)
| CValue                     (* operands = function value :: arguments *)
| CInvoke (m : N)            (* operands = interface value :: arguments; m = method id *)
| CRecover                   (* builtin recover() *)
| CPanicB                    (* builtin panic(x) used in defer/go position *)
| CDeferStack.               (* intrinsic ssa:deferstack(): handle of the current frame's defer stack *)

Inductive instr :=
| IOp (dst : option positive) (op : opcode) (args : list operand)
| IPhi (dst : positive) (edges : list operand)
| ICall (dst : option positive) (m : callmode) (args : list operand)
| IDefer (m : callmode) (ds : option operand) (args : list operand)  (* ds: defer stack handle, None = own frame *)
| IRunDefers
| IJump
| IIf (c : operand)
| ISwitch (tag : operand) (conds : list (option operand))
| IReturn (rs : list operand)
| IPanic (x : operand)
| IUnreachable.

Record block := mkBlock { b_preds : list N; b_succs : list N; b_code : list instr }.

Record func := mkFunc {
  fn_name : N;                      (* index into the harness's name table; extern functions are traced by it *)
  fn_params : list positive;
  fn_freevars : list positive;
  fn_nresults : N;
  fn_zero_results : list value;     (* results of a frame that recovered without a Recover block *)
  fn_blocks : list block;           (* [] => external function *)
  fn_recover : option N }.

Record program := mkProgram {
  p_funcs : list func;
  p_methods : list (N * N * N) }.   (* (dynamic type id, method id, function index) *)

(* ------------------------------------------------------------------ semantics of the value operations *)

(* errors a value operation can report: by construction never "unassigned register" *)
Inductive semerr := SType (what : N) | SUnsupported (what : N) | SInternal (what : N).
Definition err_of (e : semerr) : error :=
  match e with SType n => EType n | SUnsupported n => EUnsupported n | SInternal n => EInternal n end.

Inductive ores :=
| ROk (v : value) (h : heap)
| RPanic (k : Z)
| RErr (e : semerr).

Definition unit_val : value := VAgg [].
Definition et (n : N) : ores := RErr (SType n).

Definition bool_of (c : comparison) (op : binop) : bool :=
  match op, c with
  | Lss, Lt => true | Leq, Lt => true | Leq, Eq => true
  | Gtr, Gt => true | Geq, Gt => true | Geq, Eq => true
  | _, _ => false
  end.

Definition sem_bin_int (op : binop) (k : ikind) (x y : Z) : option (option value) :=
  (* None: not an int op; Some None: panic (div) *)
  let w z := Some (Some (VInt (wrap k z))) in
  match op with
  | Add => w (x + y) | Sub => w (x - y) | Mul => w (x * y)
  | Quo => if y =? 0 then Some None else w (Z.quot x y)
  | Rem => if y =? 0 then Some None else w (Z.rem x y)
  | BAnd => w (Z.land x y) | BOr => w (Z.lor x y) | BXor => w (Z.lxor x y)
  | AndNot => w (Z.land x (Z.lnot y))
  | Eql => Some (Some (VBool (x =? y))) | Neq => Some (Some (VBool (negb (x =? y))))
  | Lss | Leq | Gtr | Geq => Some (Some (VBool (bool_of (Z.compare x y) op)))
  | Shl | Shr => None
  end.

Definition sem_bin (op : binop) (k yk : okind) (a b : value) (h : heap) : ores :=
  match k, a, b with
  | KInt ik, VInt x, VInt y =>
    match op with
    | Shl => if y <? 0 then RPanic pk_shift
             else if ik_bits ik <=? y then ROk (VInt 0) h else ROk (VInt (wrap ik (Z.shiftl x y))) h
    | Shr => if y <? 0 then RPanic pk_shift
             else ROk (VInt (wrap ik (Z.shiftr x y))) h
    | _ => match sem_bin_int op ik x y with
           | Some (Some v) => ROk v h
           | Some None => RPanic pk_div
           | None => et 1
           end
    end
  | KBool, VBool x, VBool y =>
    match op with
    | Eql => ROk (VBool (Bool.eqb x y)) h
    | Neq => ROk (VBool (negb (Bool.eqb x y))) h
    | BAnd => ROk (VBool (x && y)) h      (* not produced by the builder; harmless *)
    | BOr => ROk (VBool (x || y)) h
    | _ => et 2
    end
  | KStr, VStr x, VStr y =>
    match op with
    | Add => ROk (VStr (x ++ y)) h
    | Eql => ROk (VBool (str_eqb x y)) h
    | Neq => ROk (VBool (negb (str_eqb x y))) h
    | Lss => ROk (VBool (str_ltb x y)) h
    | Gtr => ROk (VBool (str_ltb y x)) h
    | Leq => ROk (VBool (negb (str_ltb y x))) h
    | Geq => ROk (VBool (negb (str_ltb x y))) h
    | _ => et 3
    end
  | KOther, _, _ =>
    match op with
    | Eql => match veq a b with Some r => ROk (VBool r) h | None => RPanic pk_uncomparable end
    | Neq => match veq a b with Some r => ROk (VBool (negb r)) h | None => RPanic pk_uncomparable end
    | _ => et 4
    end
  | KShape s, _, _ =>
    match op with
    | Eql => match veq_shape s a b with Some r => ROk (VBool r) h | None => RPanic pk_uncomparable end
    | Neq => match veq_shape s a b with Some r => ROk (VBool (negb r)) h | None => RPanic pk_uncomparable end
    | _ => et 32
    end
  | _, _, _ => et 5
  end.

Definition sem_un (op : unop) (k : okind) (a : value) (h : heap) : ores :=
  match op, k, a with
  | UNot, _, VBool b => ROk (VBool (negb b)) h
  | UNeg, KInt ik, VInt x => ROk (VInt (wrap ik (- x))) h
  | UCompl, KInt ik, VInt x => ROk (VInt (wrap ik (Z.lnot x))) h
  | _, _, _ => et 6
  end.

Definition ints_of (vs : list value) : option (list Z) :=
  fold_right (fun v acc => match v, acc with VInt z, Some l => Some (z :: l) | _, _ => None end) (Some []) vs.

Definition slice_elems (h : heap) (s : value) : option (list value) :=
  match s with
  | VSlice None _ _ _ => Some []
  | VSlice (Some a) off len _ => hload_run h a off (N.to_nat len)
  | _ => None
  end.

Definition new_slice (h : heap) (vs : list value) (cap : N) (zero : value) : ores :=
  let n := lenN vs in
  let arr := VAgg (vs ++ repeatN zero (N.to_nat (cap - n))) in
  let '(c, h') := alloc_cell h arr in
  ROk (VSlice (Some (c, [])) 0 n (N.max cap n)) h'.

Definition sem_convert (from to : ckind) (a : value) (h : heap) : ores :=
  match from, to, a with
  | CInt _, CInt k, VInt x => ROk (VInt (wrap k x)) h
  | CInt _, CStr, VInt x => ROk (VStr (utf8_encode x)) h
  | CStr, CStr, VStr s => ROk a h
  | CStr, CBytes, VStr s => new_slice h (map (fun b => VInt (Z.of_N b)) s) (lenN s) (VInt 0)
  | CStr, CRunes, VStr s => let rs := utf8_runes (length s) s in new_slice h (map VInt rs) (lenN rs) (VInt 0)
  | CBytes, CStr, VSlice _ _ _ _ =>
    match slice_elems h a with
    | Some vs => match ints_of vs with Some zs => ROk (VStr (map Z.to_N zs)) h | None => et 7 end
    | None => et 8
    end
  | CRunes, CStr, VSlice _ _ _ _ =>
    match slice_elems h a with
    | Some vs => match ints_of vs with Some zs => ROk (VStr (flat_map utf8_encode zs)) h | None => et 9 end
    | None => et 10
    end
  | _, _, _ => RErr (SUnsupported 1)
  end.

Definition in_types (t : N) (tys : list N) : bool := existsb (N.eqb t) tys.

(* x.(T): concrete T: dynamic type equal to T, result = payload;
   interface T: dynamic type among the implementors of T, result = the interface value itself *)
Definition assert_match (isiface : bool) (tys : list N) (x : value) : option (option value) :=
  match x with
  | VIface None => Some None
  | VIface (Some (t, v)) => if in_types t tys then Some (Some (if isiface then x else v)) else Some None
  | _ => None
  end.

Definition sem_typeassert (isiface : bool) (tys : list N) (commaok : bool) (zero : value) (x : value) (h : heap) : ores :=
  match assert_match isiface tys x with
  | None => et 11
  | Some (Some v) => ROk (if commaok then VAgg [v; VBool true] else v) h
  | Some None => if commaok then ROk (VAgg [zero; VBool false]) h else RPanic pk_assert
  end.

(* TypeSwitch: (index, v_0 .. v_{n-1}, tag): index of the first matching condition or -1;
   v_i is the converted value for the matching condition, zero elsewhere; a condition with
   no type ids and isiface=true is `case nil` *)
Fixpoint tswitch_find (conds : list (bool * list N)) (x : value) (i : Z) : option (Z * value) :=
  match conds with
  | [] => None
  | (isif, tys) :: r =>
    let hit :=
      match tys, isif, x with
      | [], true, VIface None => Some x                    (* case nil *)
      | _, _, _ => match assert_match isif tys x with Some (Some v) => Some v | _ => None end
      end in
    match hit with Some v => Some (i, v) | None => tswitch_find r x (i + 1) end
  end.

Definition sem_typeswitch (conds : list (bool * list N)) (zeros : list value) (x : value) (h : heap) : ores :=
  match x with
  | VIface _ =>
    match tswitch_find conds x 0 with
    | Some (i, v) => match updN zeros (Z.to_N i) v with
                     | Some vs => ROk (VAgg (VInt i :: vs ++ [x])) h
                     | None => RErr (SInternal 1)
                     end
    | None => ROk (VAgg (VInt (-1) :: zeros ++ [x])) h
    end
  | _ => et 12
  end.

Definition seq_len (h : heap) (k : seqkind) (x : value) : option N :=
  match k, x with
  | SqString, VStr s => Some (lenN s)
  | SqSlice, VSlice _ _ len _ => Some len
  | SqArrayPtr n, VPtr _ => Some n
  | SqArray n, VAgg _ => Some n
  | SqMap, VMap None => Some 0%N
  | SqMap, VMap (Some m) => match PM.find m (maps h) with Some kv => Some (lenN kv) | None => None end
  | _, _ => None
  end.

Definition in_range (i : Z) (n : N) : bool := (0 <=? i) && (i <? Z.of_N n).

Definition sem_indexaddr (k : seqkind) (x i : value) (h : heap) : ores :=
  match k, x, i with
  | SqSlice, VSlice base off len _, VInt i =>
    if in_range i len then
      match base with Some a => ROk (VPtr (Some (elem_addr a (off + Z.to_N i)))) h | None => RErr (SInternal 2) end
    else RPanic pk_index
  | SqArrayPtr n, VPtr None, VInt _ => RPanic pk_nil
  | SqArrayPtr n, VPtr (Some a), VInt i =>
    if in_range i n then ROk (VPtr (Some (elem_addr a (Z.to_N i)))) h else RPanic pk_index
  | _, _, _ => et 13
  end.

Definition sem_index (k : seqkind) (x i : value) (h : heap) : ores :=
  match k, x, i with
  | SqArray n, VAgg vs, VInt i =>
    if in_range i n then match nthN vs (Z.to_N i) with Some v => ROk v h | None => RErr (SInternal 3) end
    else RPanic pk_index
  | SqString, VStr s, VInt i =>
    if in_range i (lenN s) then match nthN s (Z.to_N i) with Some b => ROk (VInt (Z.of_N b)) h | None => RErr (SInternal 4) end
    else RPanic pk_index
  | _, _, _ => et 14
  end.

Definition opt_int (has : bool) (vs : list value) : option (option Z * list value) :=
  if has then match vs with VInt z :: r => Some (Some z, r) | _ => None end else Some (None, vs).

Definition sem_slice (k : seqkind) (haslo hashi hasmax : bool) (vs : list value) (h : heap) : ores :=
  match vs with
  | x :: r0 =>
    match opt_int haslo r0 with
    | Some (lo, r1) =>
      match opt_int hashi r1 with
      | Some (hi, r2) =>
        match opt_int hasmax r2 with
        | Some (mx, []) =>
          let lo := match lo with Some z => z | None => 0 end in
          match k, x with
          | SqString, VStr s =>
            let n := Z.of_N (lenN s) in
            let hi := match hi with Some z => z | None => n end in
            if (0 <=? lo) && (lo <=? hi) && (hi <=? n)
            then ROk (VStr (firstnN (Z.to_nat (hi - lo)) (skipnN (Z.to_nat lo) s))) h
            else RPanic pk_slice
          | SqSlice, VSlice base off len cap =>
            let c := Z.of_N cap in
            let hi := match hi with Some z => z | None => Z.of_N len end in
            let mx := match mx with Some z => z | None => c end in
            if (0 <=? lo) && (lo <=? hi) && (hi <=? mx) && (mx <=? c)
            then ROk (VSlice base (off + Z.to_N lo) (Z.to_N (hi - lo)) (Z.to_N (mx - lo))) h
            else RPanic pk_slice
          | SqArrayPtr n, VPtr None => RPanic pk_nil
          | SqArrayPtr n, VPtr (Some a) =>
            let c := Z.of_N n in
            let hi := match hi with Some z => z | None => c end in
            let mx := match mx with Some z => z | None => c end in
            if (0 <=? lo) && (lo <=? hi) && (hi <=? mx) && (mx <=? c)
            then ROk (VSlice (Some a) (Z.to_N lo) (Z.to_N (hi - lo)) (Z.to_N (mx - lo))) h
            else RPanic pk_slice
          | _, _ => et 15
          end
        | _ => et 16
        end
      | None => et 17
      end
    | None => et 18
    end
  | [] => et 19
  end.

(* can the value be a map key: slices, maps and funcs (inside interfaces or aggregates) cannot *)
Fixpoint hashable (v : value) : bool :=
  match v with
  | VSlice _ _ _ _ | VClos _ _ | VNilFunc | VMap _ => false
  | VAgg vs => forallb hashable vs
  | VIface (Some (_, x)) => hashable x
  | _ => true
  end.

Fixpoint map_find (kv : list (value * value)) (k : value) : option value :=
  match kv with
  | [] => None
  | (k', v) :: r => match veq k' k with Some true => Some v | _ => map_find r k end
  end.
Fixpoint map_set (kv : list (value * value)) (k v : value) : list (value * value) :=
  match kv with
  | [] => [(k, v)]
  | (k', v') :: r => match veq k' k with Some true => (k', v) :: r | _ => (k', v') :: map_set r k v end
  end.
Fixpoint map_del (kv : list (value * value)) (k : value) : list (value * value) :=
  match kv with
  | [] => []
  | (k', v') :: r => match veq k' k with Some true => r | _ => (k', v') :: map_del r k end
  end.

Definition sem_builtin (b : builtin) (vs : list value) (h : heap) : ores :=
  match b, vs with
  | BLen k, [x] => match seq_len h k x with Some n => ROk (VInt (Z.of_N n)) h | None => et 20 end
  | BCap SqSlice, [VSlice _ _ _ cap] => ROk (VInt (Z.of_N cap)) h
  | BCap (SqArrayPtr n), [_] => ROk (VInt (Z.of_N n)) h
  | BCap (SqArray n), [_] => ROk (VInt (Z.of_N n)) h
  | BAppend zero fromstr, [VSlice base off len cap; t] =>
    let src := if fromstr then match t with VStr s => Some (map (fun b => VInt (Z.of_N b)) s) | _ => None end
               else slice_elems h t in
    match src with
    | None => et 21
    | Some [] => ROk (VSlice base off len cap) h
    | Some ts =>
      let n := lenN ts in
      if N.leb (len + n) cap then
        match base with
        | Some a => match hstore_run h a (off + len) ts with
                    | Some h' => ROk (VSlice base off (len + n) cap) h'
                    | None => RErr (SInternal 5)
                    end
        | None => RErr (SInternal 6)
        end
      else
        (* growth: a new backing array of exactly the needed length (the Go runtime may reserve more;
           programs in the differential never observe spare capacity obtained by growth) *)
        match slice_elems h (VSlice base off len cap) with
        | Some old => new_slice h (old ++ ts) (len + n) zero
        | None => RErr (SInternal 7)
        end
    end
  | BCopy fromstr, [VSlice dbase doff dlen _; t] =>
    let src := if fromstr then match t with VStr s => Some (map (fun b => VInt (Z.of_N b)) s) | _ => None end
               else slice_elems h t in
    match src with
    | None => et 22
    | Some ts =>
      let n := N.min dlen (lenN ts) in
      if N.eqb n 0 then ROk (VInt 0) h else
      match dbase with
      | Some a => match hstore_run h a doff (firstnN (N.to_nat n) ts) with
                  | Some h' => ROk (VInt (Z.of_N n)) h'
                  | None => RErr (SInternal 8)
                  end
      | None => RErr (SInternal 9)
      end
    end
  | BMin (KInt _), VInt x :: r =>
    match ints_of r with Some zs => ROk (VInt (fold_left Z.min zs x)) h | None => et 23 end
  | BMax (KInt _), VInt x :: r =>
    match ints_of r with Some zs => ROk (VInt (fold_left Z.max zs x)) h | None => et 24 end
  | BDelete, [VMap None; _] => ROk unit_val h
  | BDelete, [VMap (Some m); k] =>
    if negb (hashable k) then RPanic pk_uncomparable else
    match PM.find m (maps h) with
    | Some kv => ROk unit_val (set_map h m (map_del kv k))
    | None => RErr (SInternal 10)
    end
  | BClearMap, [VMap None] => ROk unit_val h
  | BClearMap, [VMap (Some m)] => ROk unit_val (set_map h m [])
  | BClearSlice zero, [VSlice None _ _ _] => ROk unit_val h
  | BClearSlice zero, [VSlice (Some a) off len _] =>
    match hstore_run h a off (repeatN zero (N.to_nat len)) with
    | Some h' => ROk unit_val h'
    | None => RErr (SInternal 11)
    end
  | BWrapNilChk, VPtr None :: _ => RPanic pk_nil
  | BWrapNilChk, VPtr (Some a) :: _ => ROk (VPtr (Some a)) h
  | _, _ => RErr (SUnsupported 2)
  end.

(* iterators are heap cells:  string: VAgg [VStr s; VInt pos];  map: VAgg [VAgg keys; VInt pos; VMap m] *)
Definition sem_range (k : seqkind) (x : value) (h : heap) : ores :=
  match k, x with
  | SqString, VStr s => let '(c, h') := alloc_cell h (VAgg [x; VInt 0]) in ROk (VPtr (Some (c, []))) h'
  | SqMap, VMap None => let '(c, h') := alloc_cell h (VAgg [VAgg []; VInt 0; x]) in ROk (VPtr (Some (c, []))) h'
  | SqMap, VMap (Some m) =>
    match PM.find m (maps h) with
    | Some kv => let '(c, h') := alloc_cell h (VAgg [VAgg (map fst kv); VInt 0; x]) in ROk (VPtr (Some (c, []))) h'
    | None => RErr (SInternal 12)
    end
  | _, _ => et 25
  end.

Definition sem_next (isstr : bool) (it : value) (h : heap) : ores :=
  match it with
  | VPtr (Some a) =>
    match hload h a with
    | Some (VAgg [VStr s; VInt pos]) =>
      let rest := skipnN (Z.to_nat pos) s in
      match rest with
      | [] => ROk (VAgg [VBool false; VInt 0; VInt 0]) h
      | _ => let '(r, w) := utf8_decode rest in
             match hstore h a (VAgg [VStr s; VInt (pos + Z.of_N w)]) with
             | Some h' => ROk (VAgg [VBool true; VInt pos; VInt r]) h'
             | None => RErr (SInternal 13)
             end
      end
    | Some (VAgg [VAgg keys; VInt pos; VMap mo]) =>
      (* keys deleted during iteration are skipped; entries added during iteration are not visited *)
      let kv := match mo with Some m => match PM.find m (maps h) with Some kv => kv | None => [] end | None => [] end in
      (fix go (ks : list value) (pos : Z) {struct ks} : ores :=
         match ks with
         | [] => ROk (VAgg [VBool false; unit_val; unit_val]) h
         | k :: r => match map_find kv k with
                     | Some v => match hstore h a (VAgg [VAgg keys; VInt (pos + 1); VMap mo]) with
                                 | Some h' => ROk (VAgg [VBool true; k; v]) h'
                                 | None => RErr (SInternal 14)
                                 end
                     | None => go r (pos + 1)
                     end
         end) (skipnN (Z.to_nat pos) keys) pos
    | _ => et 26
    end
  | _ => et 27
  end.

(* Alloc: a "new" alloc creates a fresh cell on every execution; a "local" alloc re-initialises the same
   cell of the frame.  [loc]: the frame's table  register -> cell of local allocs. *)
Definition sem_op (op : opcode) (vs : list value) (h : heap) : ores :=
  match op, vs with
  | OpAlloc _ zero, [] => let '(c, h') := alloc_cell h zero in ROk (VPtr (Some (c, []))) h'
  | OpLoad, [VPtr None] => RPanic pk_nil
  | OpLoad, [VPtr (Some a)] => match hload h a with Some v => ROk v h | None => RErr (SInternal 15) end
  | OpStore, [VPtr None; _] => RPanic pk_nil
  | OpStore, [VPtr (Some a); v] => match hstore h a v with Some h' => ROk unit_val h' | None => RErr (SInternal 16) end
  | OpNop, _ => ROk unit_val h
  | OpBin op k yk, [a; b] => sem_bin op k yk a b h
  | OpUn op k, [a] => sem_un op k a h
  | OpConvert f t, [a] => sem_convert f t a h
  | OpChangeType, [a] => ROk a h
  | OpChangeInterface, [a] => ROk a h
  | OpMakeInterface ty, [a] => ROk (VIface (Some (ty, a))) h
  | OpTypeAssert isif tys ok zero, [x] => sem_typeassert isif tys ok zero x h
  | OpTypeSwitch conds zeros, [x] => sem_typeswitch conds zeros x h
  | OpMakeClosure f, binds => ROk (VClos f binds) h
  | OpMakeSlice zero, [VInt len; VInt cap] =>
    if (0 <=? len) && (len <=? cap) && (cap <? 65536)
    then let '(c, h') := alloc_cell h (VAgg (repeatN zero (Z.to_nat cap))) in
         ROk (VSlice (Some (c, [])) 0 (Z.to_N len) (Z.to_N cap)) h'
    else if (len <? 0) || (cap <? len) then RPanic pk_makeslice else RErr (SUnsupported 3)
  | OpSlice k lo hi mx, _ => sem_slice k lo hi mx vs h
  | OpFieldAddr f, [VPtr None] => RPanic pk_nil
  | OpFieldAddr f, [VPtr (Some a)] => ROk (VPtr (Some (elem_addr a f))) h
  | OpField f, [VAgg fs] => match nthN fs f with Some v => ROk v h | None => RErr (SInternal 17) end
  | OpIndexAddr k, [x; i] => sem_indexaddr k x i h
  | OpIndex k, [x; i] => sem_index k x i h
  | OpStringLookup, [x; i] => sem_index SqString x i h
  | OpExtract i, [VAgg fs] => match nthN fs i with Some v => ROk v h | None => RErr (SInternal 18) end
  | OpComposite, _ => ROk (VAgg vs) h
  | OpBuiltin b, _ => sem_builtin b vs h
  | OpRange k, [x] => sem_range k x h
  | OpNext isstr, [it] => sem_next isstr it h
  | OpMakeMap, _ => let '(c, h') := alloc_map h [] in ROk (VMap (Some c)) h'
  | OpMapLookup ok zero, [VMap mo; k] =>
    if negb (hashable k) then RPanic pk_uncomparable else
    let kv := match mo with Some m => match PM.find m (maps h) with Some kv => kv | None => [] end | None => [] end in
    match map_find kv k with
    | Some v => ROk (if ok then VAgg [v; VBool true] else v) h
    | None => ROk (if ok then VAgg [zero; VBool false] else zero) h
    end
  | OpMapUpdate, [VMap None; _; _] => RPanic pk_nilmap
  | OpMapUpdate, [VMap (Some m); k; v] =>
    if negb (hashable k) then RPanic pk_uncomparable else
    match PM.find m (maps h) with
    | Some kv => ROk unit_val (set_map h m (map_set kv k v))
    | None => RErr (SInternal 19)
    end
  | OpSliceToArrayPtr n, [VSlice base off len _] =>
    if N.ltb len n then RPanic pk_conv
    else match base with
         | None => ROk (VPtr None) h
         | Some a => if N.eqb off 0 then ROk (VPtr (Some a)) h else RErr (SUnsupported 4)
         end
  | OpSliceToArray n, [VSlice base off len cap] =>
    if N.ltb len n then RPanic pk_conv
    else match slice_elems h (VSlice base off n cap) with Some es => ROk (VAgg es) h | None => RErr (SInternal 20) end
  | OpUnsupported w, _ => RErr (SUnsupported w)
  | _, _ => et 28
  end.

(* ------------------------------------------------------------------ the machine *)

Definition env := PM.t value.

Inductive event := EvCall (f : N) (args : list value).

Record dcall := mkDcall { dc_mode : callmode; dc_args : list value }.

Record frame := mkFrame {
  f_fn : N;
  f_blk : N;
  f_code : list instr;          (* rest of the current block *)
  f_env : env;
  f_locals : PM.t positive;     (* cells of "local" allocs, keyed by destination register *)
  f_defers : list dcall;        (* stack of deferred calls *)
  f_rundefers : bool;           (* the frame is popping its deferred calls *)
  f_panic : option value;       (* Some v: the frame is panicking with value v *)
  f_unwinding : bool }.         (* the pop loop was entered because of a panic *)

Record state := mkState { st_stack : list frame; st_heap : heap; st_trace : list event (* reversed *) }.

Inductive outcome :=
| Done (results : list value) (h : heap) (tr : list event)
| Panicked (v : value) (h : heap) (tr : list event)
| OutOfFuel
| Stuck (e : error).

Inductive sres := Next (s : state) | Final (o : outcome).

Definition eval_operand (e : env) (o : operand) : value + error :=
  match o with
  | OReg r => match PM.find r e with Some v => inl v | None => inr (EUndef r) end
  | OConst v => inl v
  | OGlobal g => inl (VPtr (Some (g, [])))
  | OFunc f => inl (VClos f [])
  end.

Fixpoint eval_operands (e : env) (os : list operand) : list value + error :=
  match os with
  | [] => inl []
  | o :: r => match eval_operand e o with
              | inr er => inr er
              | inl v => match eval_operands e r with inl vs => inl (v :: vs) | inr er => inr er end
              end
  end.

Definition set_dst (e : env) (d : option positive) (v : value) : env :=
  match d with Some r => PM.add r v e | None => e end.

Fixpoint bind_regs (e : env) (rs : list positive) (vs : list value) : option env :=
  match rs, vs with
  | [], [] => Some e
  | r :: rs', v :: vs' => bind_regs (PM.add r v e) rs' vs'
  | _, _ => None
  end.

Definition get_func (p : program) (f : N) : option func := nthN (p_funcs p) f.
Definition get_block (fn : func) (b : N) : option block := nthN (fn_blocks fn) b.

Fixpoint split_phis (code : list instr) : (list (positive * list operand) * list instr) :=
  match code with
  | IPhi d es :: r => let '(ps, rest) := split_phis r in ((d, es) :: ps, rest)
  | _ => ([], code)
  end.

(* phis of a block are evaluated together, all reading the environment of the edge's source *)
Fixpoint eval_phis (e : env) (k : N) (ps : list (positive * list operand)) : list (positive * value) + error :=
  match ps with
  | [] => inl []
  | (d, es) :: r =>
    match nthN es k with
    | None => inr (EInternal 21)
    | Some o => match eval_operand e o with
                | inr er => inr er
                | inl v => match eval_phis e k r with inl l => inl ((d, v) :: l) | inr er => inr er end
                end
    end
  end.

Definition assign_all (e : env) (l : list (positive * value)) : env :=
  fold_left (fun e dv => PM.add (fst dv) (snd dv) e) l e.

(* transfer control of frame fr (in function fn) to its succ-th successor *)
Definition goto_succ (fn : func) (fr : frame) (succ : N) : frame + error :=
  match get_block fn (f_blk fr) with
  | None => inr (EInternal 22)
  | Some cur =>
    match nthN (b_succs cur) succ with
    | None => inr (EInternal 23)
    | Some tgt =>
      match get_block fn tgt with
      | None => inr (EInternal 24)
      | Some tb =>
        match index_of (f_blk fr) (b_preds tb) 0 with
        | None => inr (EInternal 25)
        | Some k =>
          let '(ps, rest) := split_phis (b_code tb) in
          match eval_phis (f_env fr) k ps with
          | inr er => inr er
          | inl l => inl (mkFrame (f_fn fr) tgt rest (assign_all (f_env fr) l) (f_locals fr) (f_defers fr)
                                  (f_rundefers fr) (f_panic fr) (f_unwinding fr))
          end
        end
      end
    end
  end.

Definition with_code (fr : frame) (c : list instr) (e : env) : frame :=
  mkFrame (f_fn fr) (f_blk fr) c e (f_locals fr) (f_defers fr) (f_rundefers fr) (f_panic fr) (f_unwinding fr).

Definition rt_panic_value (k : Z) : value := VIface (Some (rt_error_ty, VInt k)).

(* the frame starts popping its deferred calls because of a panic with value v *)
Definition start_panic (fr : frame) (v : value) : frame :=
  mkFrame (f_fn fr) (f_blk fr) (f_code fr) (f_env fr) (f_locals fr) (f_defers fr) true (Some v) true.

Definition new_frame (f : N) (fn : func) (e : env) : option frame :=
  match get_block fn 0 with
  | Some b => Some (mkFrame f 0 (b_code b) e (PM.empty _) [] false None false)
  | None => None
  end.

Fixpoint find_method (ms : list (N * N * N)) (ty m : N) : option N :=
  match ms with
  | [] => None
  | (t, m', f) :: r => if N.eqb t ty && N.eqb m m' then Some f else find_method r ty m
  end.

Inductive callres :=
| CPush (fr : frame)                       (* enter a function with a body *)
| CExtern (f : N) (args : list value)      (* external function: traced, returns () *)
| CPanicNow (v : value)                    (* the call itself panics (nil func, nil receiver of invoke, panic builtin) *)
| CRecovered                               (* recover(): handled by the machine *)
| CDeferStackR                             (* ssa:deferstack(): handled by the machine *)
| CErr (e : error).

Definition enter (p : program) (f : N) (binds args : list value) : callres :=
  match get_func p f with
  | None => CErr (EInternal 26)
  | Some fn =>
    match fn_blocks fn with
    | [] => CExtern (fn_name fn) args
    | _ =>
      match bind_regs (PM.empty _) (fn_params fn) args with
      | None => CErr (EInternal 27)
      | Some e1 =>
        match bind_regs e1 (fn_freevars fn) binds with
        | None => CErr (EInternal 28)
        | Some e2 => match new_frame f fn e2 with Some fr => CPush fr | None => CErr (EInternal 29) end
        end
      end
    end
  end.

Definition resolve_call (p : program) (m : callmode) (vs : list value) : callres :=
  match m, vs with
  | CStatic f, _ => enter p f [] vs
  | CValue, VClos f binds :: args => enter p f binds args
  | CValue, VNilFunc :: _ => CPanicNow (rt_panic_value pk_nilfunc)
  | CInvoke mid, VIface None :: _ => CPanicNow (rt_panic_value pk_nil)
  | CInvoke mid, VIface (Some (ty, recv)) :: args =>
    match find_method (p_methods p) ty mid with
    | Some f => enter p f [] (recv :: args)
    | None => CErr (EInternal 30)
    end
  | CRecover, [] => CRecovered
  | CPanicB, [v] => CPanicNow v
  | CDeferStack, [] => CDeferStackR
  | _, _ => CErr (EType 29)
  end.

(* deliver the result of a finished callee to the frame below it *)
Definition deliver (caller : frame) (result : value) : frame + error :=
  if f_rundefers caller then inl caller          (* a deferred call: result discarded *)
  else match f_code caller with
       | ICall d _ _ :: rest => inl (with_code caller rest (set_dst (f_env caller) d result))
       | _ => inr (EInternal 31)
       end.

Definition result_value (vs : list value) : value :=
  match vs with [v] => v | _ => VAgg vs end.

(* the top frame has finished with results vs *)
Definition do_return (st : state) (rest : list frame) (vs : list value) : sres :=
  match rest with
  | [] => Final (Done vs (st_heap st) (rev (st_trace st)))
  | caller :: below =>
    match deliver caller (result_value vs) with
    | inl c' => Next (mkState (c' :: below) (st_heap st) (st_trace st))
    | inr e => Final (Stuck e)
    end
  end.

(* a panic with value v is raised in the top frame fr *)
Definition raise (st : state) (fr : frame) (rest : list frame) (v : value) : sres :=
  Next (mkState (start_panic fr v :: rest) (st_heap st) (st_trace st)).

(* start a call from the top frame [fr]; on CPush the caller keeps the call instruction at the head of
   its code (it is consumed when the callee returns); [after] is the caller frame to use when the call
   completes immediately *)
Definition do_call (p : program) (st : state) (fr : frame) (rest : list frame)
           (m : callmode) (vs : list value) (after : value -> frame) : sres :=
  match resolve_call p m vs with
  | CPush nf => Next (mkState (nf :: fr :: rest) (st_heap st) (st_trace st))
  | CExtern f args => Next (mkState (after unit_val :: rest) (st_heap st) (EvCall f args :: st_trace st))
  | CPanicNow v => raise st fr rest v
  | CRecovered =>
    (* recover() has an effect only when called directly by a deferred function of a panicking frame *)
    match rest with
    | c :: below =>
      match f_panic c with
      | Some v =>
        let c' := mkFrame (f_fn c) (f_blk c) (f_code c) (f_env c) (f_locals c) (f_defers c) (f_rundefers c) None (f_unwinding c) in
        Next (mkState (after v :: c' :: below) (st_heap st) (st_trace st))
      | None => Next (mkState (after (VIface None) :: rest) (st_heap st) (st_trace st))
      end
    | [] => Next (mkState (after (VIface None) :: rest) (st_heap st) (st_trace st))
    end
  | CDeferStackR => Next (mkState (after (VInt (Z.of_nat (length rest))) :: rest) (st_heap st) (st_trace st))
  | CErr e => Final (Stuck e)
  end.

Definition push_defer (fr : frame) (d : dcall) : frame :=
  mkFrame (f_fn fr) (f_blk fr) (f_code fr) (f_env fr) (f_locals fr) (d :: f_defers fr)
          (f_rundefers fr) (f_panic fr) (f_unwinding fr).

(* push d on the defer stack of the frame at position j of the list (0 = head) *)
Fixpoint push_defer_at (l : list frame) (j : nat) (d : dcall) : option (list frame) :=
  match l, j with
  | [], _ => None
  | fr :: r, O => Some (push_defer fr d :: r)
  | fr :: r, S k => match push_defer_at r k d with Some r' => Some (fr :: r') | None => None end
  end.

Definition switch_target (tag : value) (conds : list (option value)) : option N :=
  (fix go (cs : list (option value)) (i : N) (dflt : option N) {struct cs} : option N :=
     match cs with
     | [] => dflt
     | None :: r => go r (N.succ i) (Some i)
     | Some c :: r => match veq tag c with Some true => Some i | _ => go r (N.succ i) dflt end
     end) conds 0%N None.

Fixpoint eval_opt_operands (e : env) (os : list (option operand)) : list (option value) + error :=
  match os with
  | [] => inl []
  | None :: r => match eval_opt_operands e r with inl l => inl (None :: l) | inr er => inr er end
  | Some o :: r => match eval_operand e o with
                   | inr er => inr er
                   | inl v => match eval_opt_operands e r with inl l => inl (Some v :: l) | inr er => inr er end
                   end
  end.

(* a value operation of the top frame fr (operands already evaluated to vs); code = rest of the block *)
Definition step_op (st : state) (fr : frame) (rest : list frame) (d : option positive) (op : opcode)
           (vs : list value) (code : list instr) : sres :=
  match op, d with
  | OpAlloc false zero, Some r =>
    (* local alloc: the same cell of the frame, re-initialised *)
    match PM.find r (f_locals fr) with
    | Some c =>
      let h' := set_cell (st_heap st) c zero in
      Next (mkState (with_code fr code (PM.add r (VPtr (Some (c, []))) (f_env fr)) :: rest) h' (st_trace st))
    | None =>
      let '(c, h') := alloc_cell (st_heap st) zero in
      let fr' := mkFrame (f_fn fr) (f_blk fr) code (PM.add r (VPtr (Some (c, []))) (f_env fr))
                         (PM.add r c (f_locals fr)) (f_defers fr) false (f_panic fr) (f_unwinding fr) in
      Next (mkState (fr' :: rest) h' (st_trace st))
    end
  | _, _ =>
    match sem_op op vs (st_heap st) with
    | ROk v h' => Next (mkState (with_code fr code (set_dst (f_env fr) d v) :: rest) h' (st_trace st))
    | RPanic k => raise st fr rest (rt_panic_value k)
    | RErr e => Final (Stuck (err_of e))
    end
  end.

Definition step (p : program) (st : state) : sres :=
  match st_stack st with
  | [] => Final (Stuck (EInternal 32))
  | fr :: rest =>
    match get_func p (f_fn fr) with
    | None => Final (Stuck (EInternal 33))
    | Some fn =>
      if f_rundefers fr then
        match f_defers fr with
        | d :: ds =>
          let fr' := mkFrame (f_fn fr) (f_blk fr) (f_code fr) (f_env fr) (f_locals fr) ds true (f_panic fr) (f_unwinding fr) in
          do_call p st fr' rest (dc_mode d) (dc_args d) (fun _ => fr')
        | [] =>
          match f_panic fr with
          | Some v =>
            (* still panicking after the last deferred call: the panic propagates to the caller *)
            match rest with
            | [] => Final (Panicked v (st_heap st) (rev (st_trace st)))
            | caller :: below => Next (mkState (start_panic caller v :: below) (st_heap st) (st_trace st))
            end
          | None =>
            if f_unwinding fr then
              (* recovered: resume at the Recover block, or return zero results *)
              match fn_recover fn with
              | Some rb =>
                match get_block fn rb with
                | Some b => Next (mkState (mkFrame (f_fn fr) rb (b_code b) (f_env fr) (f_locals fr) [] false None false :: rest)
                                          (st_heap st) (st_trace st))
                | None => Final (Stuck (EInternal 34))
                end
              | None => do_return st rest (fn_zero_results fn)
              end
            else
              (* RunDefers completed normally *)
              Next (mkState (mkFrame (f_fn fr) (f_blk fr) (f_code fr) (f_env fr) (f_locals fr) [] false None false :: rest)
                            (st_heap st) (st_trace st))
          end
        end
      else
      match f_code fr with
      | [] => Final (Stuck (EInternal 35))
      | i :: code =>
        match i with
        | IOp d op args =>
          match eval_operands (f_env fr) args with
          | inr e => Final (Stuck e)
          | inl vs => step_op st fr rest d op vs code
          end
        | IPhi _ _ => Final (Stuck (EInternal 36))     (* phis are consumed by the incoming edge *)
        | ICall d m args =>
          match eval_operands (f_env fr) args with
          | inr e => Final (Stuck e)
          | inl vs => do_call p st fr rest m vs (fun v => with_code fr code (set_dst (f_env fr) d v))
          end
        | IDefer m ds args =>
          match eval_operands (f_env fr) args with
          | inr e => Final (Stuck e)
          | inl vs =>
            let own := Z.of_nat (length rest) in
            let tgt := match ds with
                       | None => inl own
                       | Some o => match eval_operand (f_env fr) o with
                                   | inl (VInt d) => inl d
                                   | inl _ => inr (EType 31)
                                   | inr e => inr e
                                   end
                       end in
            match tgt with
            | inr e => Final (Stuck e)
            | inl d =>
              if d =? own then
                Next (mkState (push_defer (with_code fr code (f_env fr)) (mkDcall m vs) :: rest) (st_heap st) (st_trace st))
              else if (0 <=? d) && (d <? own) then
                match push_defer_at rest (Z.to_nat (own - 1 - d)) (mkDcall m vs) with
                | Some rest' => Next (mkState (with_code fr code (f_env fr) :: rest') (st_heap st) (st_trace st))
                | None => Final (Stuck (EInternal 40))
                end
              else Final (Stuck (EInternal 41))
            end
          end
        | IRunDefers =>
          let fr' := mkFrame (f_fn fr) (f_blk fr) code (f_env fr) (f_locals fr) (f_defers fr) true None false in
          Next (mkState (fr' :: rest) (st_heap st) (st_trace st))
        | IJump =>
          match goto_succ fn fr 0 with
          | inl fr' => Next (mkState (fr' :: rest) (st_heap st) (st_trace st))
          | inr e => Final (Stuck e)
          end
        | IIf c =>
          match eval_operand (f_env fr) c with
          | inr e => Final (Stuck e)
          | inl (VBool b) =>
            match goto_succ fn fr (if b then 0 else 1)%N with
            | inl fr' => Next (mkState (fr' :: rest) (st_heap st) (st_trace st))
            | inr e => Final (Stuck e)
            end
          | inl _ => Final (Stuck (EType 30))
          end
        | ISwitch tag conds =>
          match eval_operand (f_env fr) tag with
          | inr e => Final (Stuck e)
          | inl tv =>
            match eval_opt_operands (f_env fr) conds with
            | inr e => Final (Stuck e)
            | inl cvs =>
              match switch_target tv cvs with
              | None => Final (Stuck (EInternal 37))
              | Some k =>
                match goto_succ fn fr k with
                | inl fr' => Next (mkState (fr' :: rest) (st_heap st) (st_trace st))
                | inr e => Final (Stuck e)
                end
              end
            end
          end
        | IReturn rs =>
          match eval_operands (f_env fr) rs with
          | inr e => Final (Stuck e)
          | inl vs => do_return st rest vs
          end
        | IPanic x =>
          match eval_operand (f_env fr) x with
          | inr e => Final (Stuck e)
          | inl v => raise st fr rest v
          end
        | IUnreachable => Final (Stuck (EInternal 38))
        end
      end
    end
  end.

Fixpoint run (fuel : nat) (p : program) (st : state) : outcome :=
  match fuel with
  | O => OutOfFuel
  | S k => match step p st with
           | Final o => o
           | Next st' => run k p st'
           end
  end.

(* the same machine, also counting the steps taken *)
Fixpoint run_steps (fuel : nat) (p : program) (st : state) (acc : N) : outcome * N :=
  match fuel with
  | O => (OutOfFuel, acc)
  | S k => match step p st with
           | Final o => (o, N.succ acc)
           | Next st' => run_steps k p st' (N.succ acc)
           end
  end.

(* initial state: call function f with argument values args in heap h *)
Definition init_state (p : program) (f : N) (args : list value) (h : heap) : state + error :=
  match enter p f [] args with
  | CPush fr => inl (mkState [fr] h [])
  | CErr e => inr e
  | _ => inr (EInternal 39)
  end.

Definition exec (fuel : nat) (p : program) (f : N) (args : list value) (h : heap) : outcome :=
  match init_state p f args h with
  | inl st => run fuel p st
  | inr e => Stuck e
  end.

Definition exec_steps (fuel : nat) (p : program) (f : N) (args : list value) (h : heap) : outcome * N :=
  match init_state p f args h with
  | inl st => run_steps fuel p st 0
  | inr e => (Stuck e, 0%N)
  end.
