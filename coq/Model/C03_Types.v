(* C03: types shared by the generated tables (Gen/C03_Switches.v) and the model. *)
From Coq Require Import List String.

Inductive skind := KType | KValue.           (* type switch | expression switch over strings / token constants *)
Inductive sstyle := SDefault | STrailing.    (* default clause panics | no default, the next statement panics *)

(* one panicking switch of /repo as the translator found it *)
Record switch := mkSwitch {
  sw_id : string;          (* file:function:tag text[#k] *)
  sw_line : string;
  sw_kind : skind;
  sw_style : sstyle;
  sw_tag : string;         (* source text of the switched expression *)
  sw_cases : list string;  (* case types ("*ir.Call", "ir.CallInstruction", "nil") or case values, in source order *)
  sw_how : string          (* the call that panics: panic / lint.ExhaustiveTypeSwitch *)
}.
