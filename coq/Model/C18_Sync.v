(* C18 — models of the two synchronisation idioms the IR builder relies on besides the task graph:
   B. the once-guard of Package.Build (sync.Once.Do(p.build)),
   C. a memo table whose lookup-or-create runs inside one critical section of a mutex
      (Program.methodSets / objectMethods / generic.instances / canonizer),
   and D. the executable lock-discipline check run on the op traces extracted from the source
      (Gen/C18_LockTraces.v).   Definitions only. *)
From Coq Require Import List Arith Bool String.
Import ListNotations.
Require Import Verif.Model.C18_Types Verif.Model.C18.

(* calls, threads, keys and objects of the two small models are plain nat *)
Definition nupd {A} (f : nat -> A) (k : nat) (v : A) : nat -> A :=
  fun k' => if Nat.eqb k' k then v else f k'.

(* ===================== B. once-guard ===================== *)
Inductive ophase := ONew | ORunning (c : nat) | ODone.
Inductive cpc := CIdle | CRunning | CWaiting | CReturned.

Record ostate := mkO {
  o_phase : ophase;
  o_runs : nat;                 (* how often the guarded body has been started *)
  o_pc : nat -> cpc             (* one entry per CALL of Build (a goroutine calling twice = two calls) *)
}.

Definition oinit : ostate := mkO ONew 0 (fun _ => CIdle).

Inductive olabel :=
| OCall (c : nat)               (* call c enters Do: the first one starts the body, all others wait *)
| OBodyEnd (c : nat)            (* the body, run by call c, finishes *)
| OReturn (c : nat).            (* call c returns from Do *)

Definition cpc_eqb (a b : cpc) : bool :=
  match a, b with CIdle, CIdle | CRunning, CRunning | CWaiting, CWaiting | CReturned, CReturned => true | _, _ => false end.

Definition oguard (s : ostate) (l : olabel) : bool :=
  match l with
  | OCall c => cpc_eqb (o_pc s c) CIdle
  | OBodyEnd c => match o_phase s with ORunning c' => Nat.eqb c c' | _ => false end
  | OReturn c =>
      match o_phase s with
      | ODone => cpc_eqb (o_pc s c) CRunning || cpc_eqb (o_pc s c) CWaiting
      | _ => false
      end
  end.

Definition oeffect (s : ostate) (l : olabel) : ostate :=
  match l with
  | OCall c =>
      match o_phase s with
      | ONew => mkO (ORunning c) (S (o_runs s)) (nupd (o_pc s) c CRunning)
      | _ => mkO (o_phase s) (o_runs s) (nupd (o_pc s) c CWaiting)
      end
  | OBodyEnd _ => mkO ODone (o_runs s) (o_pc s)
  | OReturn c => mkO (o_phase s) (o_runs s) (nupd (o_pc s) c CReturned)
  end.

Definition ostep (s : ostate) (l : olabel) : option ostate :=
  if oguard s l then Some (oeffect s l) else None.

Fixpoint orun (s : ostate) (tr : list olabel) : option ostate :=
  match tr with
  | [] => Some s
  | l :: tr' => match ostep s l with Some s' => orun s' tr' | None => None end
  end.

(* ===================== C. memo table under a mutex ===================== *)
Inductive mpc := MIdle | MLocked (k : nat) | MMissing (k : nat) | MGot (k v : nat).

Record mstate := mkM {
  m_lock : option nat;                  (* holder *)
  m_table : nat -> option nat;          (* key -> created object *)
  m_next : nat;                         (* fresh object identities *)
  m_created : list (nat * nat);         (* creation log (key, object) *)
  m_pc : nat -> mpc;
  m_results : list (nat * nat * nat)    (* completed lookups (thread, key, object returned) *)
}.

Definition minit : mstate := mkM None (fun _ => None) 0 [] (fun _ => MIdle) [].

Inductive mlabel :=
| MAcquire (t k : nat)      (* mu.Lock() at the start of lookup-or-create(k) *)
| MLookup (t : nat)         (* v, ok := table[k] *)
| MCreate (t : nat)         (* !ok: v = create(); table[k] = v *)
| MRelease (t : nat).       (* (deferred) mu.Unlock(); return v *)

Definition holds (s : mstate) (t : nat) : bool :=
  match m_lock s with Some t' => Nat.eqb t t' | None => false end.

(* [locked = true] is the discipline established by lock_discipline; [locked = false] is the
   variant in which lock operations are ignored (used only to show the lock is what the theorem needs). *)
Definition mguard (locked : bool) (s : mstate) (l : mlabel) : bool :=
  match l with
  | MAcquire t k =>
      match m_pc s t with
      | MIdle => if locked then match m_lock s with None => true | Some _ => false end else true
      | _ => false
      end
  | MLookup t => match m_pc s t with MLocked _ => if locked then holds s t else true | _ => false end
  | MCreate t => match m_pc s t with MMissing _ => if locked then holds s t else true | _ => false end
  | MRelease t => match m_pc s t with MGot _ _ => if locked then holds s t else true | _ => false end
  end.

Definition meffect (s : mstate) (l : mlabel) : mstate :=
  match l with
  | MAcquire t k => mkM (Some t) (m_table s) (m_next s) (m_created s) (nupd (m_pc s) t (MLocked k)) (m_results s)
  | MLookup t =>
      match m_pc s t with
      | MLocked k =>
          mkM (m_lock s) (m_table s) (m_next s) (m_created s)
              (nupd (m_pc s) t (match m_table s k with Some v => MGot k v | None => MMissing k end)) (m_results s)
      | _ => s
      end
  | MCreate t =>
      match m_pc s t with
      | MMissing k =>
          mkM (m_lock s) (nupd (m_table s) k (Some (m_next s))) (S (m_next s)) ((k, m_next s) :: m_created s)
              (nupd (m_pc s) t (MGot k (m_next s))) (m_results s)
      | _ => s
      end
  | MRelease t =>
      match m_pc s t with
      | MGot k v => mkM None (m_table s) (m_next s) (m_created s) (nupd (m_pc s) t MIdle) ((t, k, v) :: m_results s)
      | _ => s
      end
  end.

Definition mstep (locked : bool) (s : mstate) (l : mlabel) : option mstate :=
  if mguard locked s l then Some (meffect s l) else None.

Fixpoint mrun (locked : bool) (s : mstate) (tr : list mlabel) : option mstate :=
  match tr with
  | [] => Some s
  | l :: tr' => match mstep locked s l with Some s' => mrun locked s' tr' | None => None end
  end.

Definition creations (s : mstate) (k : nat) : nat := count_occ Nat.eq_dec (map fst (m_created s)) k.

(* ===================== D. lock discipline on extracted op traces ===================== *)
Definition guard_entry := (string * string * bool)%type.   (* table field, mutex field, same base required *)

Definition pair_eqb (a b : string * string) : bool := String.eqb (fst a) (fst b) && String.eqb (snd a) (snd b).
Definition pmem (x : string * string) (l : list (string * string)) : bool := existsb (pair_eqb x) l.
Definition premove (x : string * string) (l : list (string * string)) : list (string * string) :=
  filter (fun y => negb (pair_eqb x y)) l.

Definition find_guard (guards : list guard_entry) (f : string) : option (string * bool) :=
  match find (fun g => String.eqb (fst (fst g)) f) guards with
  | Some g => Some (snd (fst g), snd g)
  | None => None
  end.

Definition access_ok (guards : list guard_entry) (held : list (string * string)) (b f : string) : bool :=
  match find_guard guards f with
  | Some (m, same) => existsb (fun h => String.eqb (snd h) m && (negb same || String.eqb (fst h) b)) held
  | None => false
  end.

(* every read/write of a guarded table happens while its mutex is held; no double Lock; Unlock only of
   a held, non-deferred mutex; every Lock is released (Unlock or defer Unlock) by the end of the unit *)
Fixpoint disc (guards : list guard_entry) (held deferred : list (string * string)) (ops : list op) : bool :=
  match ops with
  | [] => forallb (fun h => pmem h deferred) held
  | Lock b m :: r => negb (pmem (b, m) held) && disc guards ((b, m) :: held) deferred r
  | Unlock b m :: r => pmem (b, m) held && negb (pmem (b, m) deferred) && disc guards (premove (b, m) held) deferred r
  | DeferUnlock b m :: r => pmem (b, m) held && negb (pmem (b, m) deferred) && disc guards held ((b, m) :: deferred) r
  | Read b f :: r => access_ok guards held b f && disc guards held deferred r
  | Write b f :: r => access_ok guards held b f && disc guards held deferred r
  end.

Definition lock_discipline (guards : list guard_entry) (traces : list (string * list op)) : bool :=
  forallb (fun t => disc guards [] [] (snd t)) traces.

(* the units violating the discipline (for the report) *)
Definition undisciplined (guards : list guard_entry) (traces : list (string * list op)) : list string :=
  map fst (filter (fun t => negb (disc guards [] [] (snd t))) traces).

Definition is_lock (o : op) : option (string * string) := match o with Lock b m => Some (b, m) | _ => None end.
Definition touches (f : string) (o : op) : bool :=
  match o with Read _ g | Write _ g => String.eqb f g | _ => false end.
Definition writes (f : string) (o : op) : bool :=
  match o with Write _ g => String.eqb f g | _ => false end.

(* a unit takes each mutex at most once: all its table accesses lie in ONE critical section, so a
   lookup followed by a create is atomic (no check-then-act across two sections) *)
Fixpoint locks_once (seen : list (string * string)) (ops : list op) : bool :=
  match ops with
  | [] => true
  | Lock b m :: r => negb (pmem (b, m) seen) && locks_once ((b, m) :: seen) r
  | _ :: r => locks_once seen r
  end.

Definition single_section (traces : list (string * list op)) : bool :=
  forallb (fun t => locks_once [] (snd t)) traces.

(* every guarded table is read somewhere and written somewhere in the extracted traces (the extraction
   is not vacuous) *)
Definition tables_covered (guards : list guard_entry) (traces : list (string * list op)) : bool :=
  forallb (fun g => existsb (fun t => existsb (touches (fst (fst g))) (snd t)) traces
                    && existsb (fun t => existsb (writes (fst (fst g))) (snd t)) traces) guards.

Fixpoint list_string_eqb (a b : list string) : bool :=
  match a, b with
  | [], [] => true
  | x :: a', y :: b' => String.eqb x y && list_string_eqb a' b'
  | _, _ => false
  end.
