(* C05: file-system state machine for lintcmd/cache (cache.go: put, copyFile, putIndexEntry, get, Get,
   GetFile, GetBytes, used, Trim, trimSubdir).  One small step = one system call (or one atomic group
   stated below).  Any number of processes; faults Crash / Truncate / Delete.  Definitions only.

   Atomicity assumed of the OS (listed in design.d/C05.md):
     - a single write(2)/read(2)/ftruncate(2)/stat/open/unlink/utimes on a regular file is atomic w.r.t. the
       other processes' system calls; the index entry (175 bytes) is written by ONE write(2) and read by
       ReadFull whose first read(2) returns the whole file (the file never exceeds 175 bytes in reachable
       states, and is never truncated while a descriptor is open on it - the quiescence premise);
     - process death closes descriptors and leaves written bytes in place (no power loss). *)
From Coq Require Import List NArith ZArith Bool Arith.
Import ListNotations.
Require Import Verif.Model.C05_Types Verif.Model.C05_Codec.
Open Scope N_scope.

Inductive path := FA (k : list N) | FD (o : list N).    (* <hex k>-a , <hex o>-d *)
Definition path_eqb (a b : path) : bool :=
  match a, b with
  | FA k, FA k' => bytes_eqb k k'
  | FD o, FD o' => bytes_eqb o o'
  | _, _ => false
  end.

(* an inode; [fowner] is ghost: the name it was created under (there is no rename/link of -a/-d files) *)
Record file := mkFile { fdata : list N; fmtime : N; fowner : path }.
Record fsys := mkFs { names : list (path * nat); inodes : list file; trimstamp : option N }.

Fixpoint lookup (p : path) (ns : list (path * nat)) : option nat :=
  match ns with
  | [] => None
  | (q, i) :: r => if path_eqb q p then Some i else lookup p r
  end.
Definition unlink (p : path) (ns : list (path * nat)) : list (path * nat) :=
  filter (fun e => negb (path_eqb (fst e) p)) ns.

Fixpoint upd {A} (i : nat) (x : A) (l : list A) : list A :=
  match l, i with
  | [], _ => []
  | _ :: r, O => x :: r
  | y :: r, S i' => y :: upd i' x r
  end.

Definition get_file (fs : fsys) (i : nat) : option file := nth_error (inodes fs) i.
Definition set_file (fs : fsys) (i : nat) (f : file) : fsys := mkFs (names fs) (upd i f (inodes fs)) (trimstamp fs).
Definition fsize (f : file) : N := N.of_nat (length (fdata f)).

(* pwrite: bytes beyond the end leave a hole of zeros *)
Definition write_at (d : list N) (off : nat) (b : list N) : list N :=
  firstn off d ++ repeat 0 (off - length d) ++ b ++ skipn (off + length b) d.
(* ftruncate: shortens, or extends with zeros *)
Definition ftrunc (d : list N) (n : nat) : list N := firstn n d ++ repeat 0 (n - length d).

Definition fs_write (fs : fsys) (i off : nat) (b : list N) (now : N) : option fsys :=
  match get_file fs i with
  | None => None
  | Some f => Some (set_file fs i (mkFile (write_at (fdata f) off b) now (fowner f)))
  end.
Definition fs_ftrunc (fs : fsys) (i n : nat) (now : N) : option fsys :=
  match get_file fs i with
  | None => None
  | Some f => Some (set_file fs i (mkFile (ftrunc (fdata f) n) now (fowner f)))
  end.
(* open(path, O_CREATE): the existing inode, or a fresh empty one *)
Definition open_create (fs : fsys) (p : path) (now : N) : fsys * nat :=
  match lookup p (names fs) with
  | Some i => (fs, i)
  | None => let i := length (inodes fs) in
            (mkFs ((p, i) :: names fs) (inodes fs ++ [mkFile [] now p]) (trimstamp fs), i)
  end.
Definition fs_unlink (fs : fsys) (p : path) : fsys := mkFs (unlink p (names fs)) (inodes fs) (trimstamp fs).
(* os.Chtimes(path, now, now); errors ignored *)
Definition chtimes (fs : fsys) (p : path) (t : N) : fsys :=
  match lookup p (names fs) with
  | None => fs
  | Some i => match get_file fs i with
              | None => fs
              | Some f => set_file fs i (mkFile (fdata f) t (fowner f))
              end
  end.
(* DiskCache.used: touch unless the mtime is less than mtimeInterval (1 time unit = 1 hour) old *)
Definition used (fs : fsys) (p : path) (now : N) : fsys :=
  match lookup p (names fs) with
  | None => fs
  | Some i => match get_file fs i with
              | None => fs
              | Some f => if now <? fmtime f + 1 then fs else set_file fs i (mkFile (fdata f) now (fowner f))
              end
  end.
Definition read_path (fs : fsys) (p : path) : option (list N) :=
  match lookup p (names fs) with
  | None => None
  | Some i => option_map fdata (get_file fs i)
  end.

Definition trim_limit : N := 121.     (* trimLimit + mtimeInterval, hours *)
Definition trim_interval : N := 24.

Inductive mode := MGet | MGetFile | MGetBytes.

Inductive result :=
| RUnit
| RMiss (k : list N)
| RGet (k o : list N) (sz tm : N)          (* Get: entry *)
| RFile (k o : list N) (sz : N) (snap : option (list N))
    (* GetFile: path of <o>-d; snap is ghost: the content of that path at the moment GetFile returned *)
| RBytes (k : list N) (b : list N).        (* GetBytes: data *)

(* program counters; a constructor carrying an inode number holds an open descriptor on it *)
Inductive pc :=
(* Put k x  =  put -> copyFile -> putIndexEntry *)
| PPutStat (k x : list N)                              (* os.Stat(<H x>-d) *)
| PPutVOpen (k x : list N) (sz : N)                    (* size matched: os.Open for the hash check *)
| PPutVRead (k x : list N) (sz : N) (i off : nat) (buf : list N)  (* io.Copy(h, f) in chunks *)
| PPutOpen (k x : list N) (st : option N)              (* os.OpenFile(O_RDWR|O_CREATE [|O_TRUNC]) *)
| PPutCopy (k x : list N) (i off : nat)                (* CopyN of the first size-1 bytes, then the last byte *)
| PPutClose (k x : list N) (i : nat)
| PPutChtimes (k x : list N)
| PPutIdxOpen (k x : list N)                           (* os.OpenFile(<k>-a, O_WRONLY|O_CREATE) *)
| PPutIdxWrite (k x : list N) (j : nat)
| PPutIdxTrunc (k x : list N) (j : nat)
| PPutIdxClose (k x : list N) (j : nat)
| PPutIdxChtimes (k x : list N)
(* Get / GetFile / GetBytes *)
| PGetOpen (k : list N) (m : mode)
| PGetRead (k : list N) (m : mode) (j : nat)
| PGetUsedA (k : list N) (m : mode) (o : list N) (sz tm : N)
| PGetUsedD (k : list N) (m : mode) (o : list N) (sz : N)
| PGFStat (k o : list N) (sz : N)
| PGBOpen (k o : list N)
| PGBRead (k o : list N) (i off : nat) (buf : list N)
(* Trim *)
| PTrimStart
| PTrimLoop (cutoff_now : N)                           (* the [now] captured at the start *)
| PTrimRm (cutoff_now : N) (p : path)
| PDone (r : result)
| PCrashed.

Definition holds (c : pc) (i : nat) : bool :=
  match c with
  | PPutVRead _ _ _ j _ _ | PPutCopy _ _ j _ | PPutClose _ _ j
  | PPutIdxWrite _ _ j | PPutIdxTrunc _ _ j | PPutIdxClose _ _ j
  | PGetRead _ _ j | PGBRead _ _ j _ _ => Nat.eqb i j
  | _ => false
  end.

(* the nondeterministic choices of one step: clock readings, chunk length, Trim's next name / end of scan *)
Record choice := mkCh { c_now : N; c_t : N; c_n : nat; c_path : path; c_fin : bool }.

Inductive op := OpPut (k x : list N) | OpGet (k : list N) | OpGetFile (k : list N) | OpGetBytes (k : list N) | OpTrim.

Inductive label :=
| LSpawn (o : op)
| LStep (p : nat) (c : choice)
| LCrash (p : nat)
| LTrunc (p : path) (n : nat) (now : N)      (* external truncation at a quiescent point of that file *)
| LTruncAny (p : path) (n : nat) (now : N)   (* external truncation at ANY point (outside the premise) *)
| LDelete (p : path)
| LTouch (p : path) (t : N)                  (* external utimes *)
| LSetTrim (t : option N).                   (* external rewrite/removal of trim.txt *)

Definition label_ok (l : label) : bool := match l with LTruncAny _ _ _ => false | _ => true end.

Record state := mkState { st_fs : fsys; st_procs : list pc; st_stored : list (list N * list N) }.

Definition init_state : state := mkState (mkFs [] [] None) [] [].

Section WithH.
Variable H : list N -> list N.     (* sha256 *)

Definition xsize (x : list N) : N := N.of_nat (length x).

(* one step of a process: new file system and program counter *)
Definition pstep (c : choice) (fs : fsys) (p : pc) : option (fsys * pc) :=
  let now := c_now c in
  match p with
  | PPutStat k x =>
    match lookup (FD (H x)) (names fs) with
    | None => Some (fs, PPutOpen k x None)
    | Some i => match get_file fs i with
                | None => None
                | Some f => if fsize f =? xsize x then Some (fs, PPutVOpen k x (fsize f))
                            else Some (fs, PPutOpen k x (Some (fsize f)))
                end
    end
  | PPutVOpen k x sz =>
    match lookup (FD (H x)) (names fs) with
    | None => Some (fs, PPutOpen k x (Some sz))
    | Some i => Some (fs, PPutVRead k x sz i 0 [])
    end
  | PPutVRead k x sz i off buf =>
    match get_file fs i, c_n c with
    | Some f, S _ =>
      match firstn (c_n c) (skipn off (fdata f)) with
      | [] => if bytes_eqb (H buf) (H x) then Some (fs, PPutIdxOpen k x)
              else Some (fs, PPutOpen k x (Some sz))
      | ch => Some (fs, PPutVRead k x sz i (off + length ch) (buf ++ ch))
      end
    | _, _ => None
    end
  | PPutOpen k x st =>
    let trunc := match st with Some sz => xsize x <? sz | None => false end in
    let '(fs1, i) := open_create fs (FD (H x)) now in
    match (if trunc then fs_ftrunc fs1 i 0 now else Some fs1) with
    | None => None
    | Some fs2 => match x with
                  | [] => Some (fs2, PPutIdxOpen k x)
                  | _ => Some (fs2, PPutCopy k x i 0)
                  end
    end
  | PPutCopy k x i off =>
    let last := (length x - 1)%nat in
    if (off <? last)%nat then
      match c_n c with
      | O => None
      | S _ => let ch := firstn (Nat.min (c_n c) (last - off)) (skipn off x) in
               match fs_write fs i off ch now with
               | None => None
               | Some fs' => Some (fs', PPutCopy k x i (off + length ch))
               end
      end
    else
      match fs_write fs i off (firstn 1 (skipn off x)) now with
      | None => None
      | Some fs' => Some (fs', PPutClose k x i)
      end
  | PPutClose k x i => Some (fs, PPutChtimes k x)
  | PPutChtimes k x => Some (chtimes fs (FD (H x)) now, PPutIdxOpen k x)
  | PPutIdxOpen k x =>
    let '(fs1, j) := open_create fs (FA k) now in Some (fs1, PPutIdxWrite k x j)
  | PPutIdxWrite k x j =>
    if max_int64 <? c_t c then None else
    match fs_write fs j 0 (format_entry k (H x) (xsize x) (c_t c)) now with
    | None => None
    | Some fs' => Some (fs', PPutIdxTrunc k x j)
    end
  | PPutIdxTrunc k x j =>
    match fs_ftrunc fs j entry_size now with
    | None => None
    | Some fs' => Some (fs', PPutIdxClose k x j)
    end
  | PPutIdxClose k x j => Some (fs, PPutIdxChtimes k x)
  | PPutIdxChtimes k x => Some (chtimes fs (FA k) now, PDone RUnit)

  | PGetOpen k m =>
    match lookup (FA k) (names fs) with
    | None => Some (fs, PDone (RMiss k))
    | Some j => Some (fs, PGetRead k m j)
    end
  | PGetRead k m j =>
    match get_file fs j with
    | None => None
    | Some f => match parse_entry k (fdata f) with
                | None => Some (fs, PDone (RMiss k))
                | Some (o, sz, tm) => Some (fs, PGetUsedA k m o sz tm)
                end
    end
  | PGetUsedA k m o sz tm =>
    let fs' := used fs (FA k) now in
    match m with
    | MGet => Some (fs', PDone (RGet k o sz tm))
    | _ => Some (fs', PGetUsedD k m o sz)
    end
  | PGetUsedD k m o sz =>
    let fs' := used fs (FD o) now in
    match m with
    | MGetBytes => Some (fs', PGBOpen k o)
    | _ => Some (fs', PGFStat k o sz)
    end
  | PGFStat k o sz =>
    match lookup (FD o) (names fs) with
    | None => Some (fs, PDone (RMiss k))
    | Some i => match get_file fs i with
                | None => None
                | Some f => if fsize f =? sz then Some (fs, PDone (RFile k o sz (Some (fdata f)))) else Some (fs, PDone (RMiss k))
                end
    end
  | PGBOpen k o =>
    match lookup (FD o) (names fs) with
    | None => (* os.ReadFile failed: data = nil, the error is ignored *)
      Some (fs, PDone (if bytes_eqb (H []) o then RBytes k [] else RMiss k))
    | Some i => Some (fs, PGBRead k o i 0 [])
    end
  | PGBRead k o i off buf =>
    match get_file fs i, c_n c with
    | Some f, S _ =>
      match firstn (c_n c) (skipn off (fdata f)) with
      | [] => Some (fs, PDone (if bytes_eqb (H buf) o then RBytes k buf else RMiss k))
      | ch => Some (fs, PGBRead k o i (off + length ch) (buf ++ ch))
      end
    | _, _ => None
    end

  | PTrimStart =>
    match trimstamp fs with
    | Some t => if now <? t + trim_interval then Some (fs, PDone RUnit) else Some (fs, PTrimLoop now)
    | None => Some (fs, PTrimLoop now)
    end
  | PTrimLoop n0 =>
    if c_fin c then Some (mkFs (names fs) (inodes fs) (Some n0), PDone RUnit)
    else match lookup (c_path c) (names fs) with
         | None => Some (fs, PTrimLoop n0)
         | Some i => match get_file fs i with
                     | None => None
                     | Some f => if fmtime f + trim_limit <? n0 then Some (fs, PTrimRm n0 (c_path c))
                                 else Some (fs, PTrimLoop n0)
                     end
         end
  | PTrimRm n0 q => Some (fs_unlink fs q, PTrimLoop n0)
  | PDone _ => None
  | PCrashed => None
  end.

Definition spawn_pc (o : op) : option pc :=
  match o with
  | OpPut k x => if wf_idb k && (xsize x <=? max_int64) then Some (PPutStat k x) else None
  | OpGet k => Some (PGetOpen k MGet)
  | OpGetFile k => Some (PGetOpen k MGetFile)
  | OpGetBytes k => Some (PGetOpen k MGetBytes)
  | OpTrim => Some PTrimStart
  end.

Definition quiescent (procs : list pc) (i : nat) : bool := forallb (fun c => negb (holds c i)) procs.

Definition ext_trunc (check : bool) (s : state) (p : path) (n : nat) (now : N) : option state :=
  let fs := st_fs s in
  match lookup p (names fs) with
  | None => None
  | Some i =>
    match get_file fs i with
    | None => None
    | Some f =>
      if (n <=? length (fdata f))%nat && (negb check || quiescent (st_procs s) i)
      then Some (mkState (set_file fs i (mkFile (firstn n (fdata f)) now (fowner f))) (st_procs s) (st_stored s))
      else None
    end
  end.

Definition step (s : state) (l : label) : option state :=
  match l with
  | LSpawn o =>
    match spawn_pc o with
    | None => None
    | Some c => Some (mkState (st_fs s) (st_procs s ++ [c])
                              (match o with OpPut k x => (k, x) :: st_stored s | _ => st_stored s end))
    end
  | LStep p c =>
    match nth_error (st_procs s) p with
    | None => None
    | Some pcv => match pstep c (st_fs s) pcv with
                  | None => None
                  | Some (fs', pc') => Some (mkState fs' (upd p pc' (st_procs s)) (st_stored s))
                  end
    end
  | LCrash p =>
    match nth_error (st_procs s) p with
    | None => None
    | Some _ => Some (mkState (st_fs s) (upd p PCrashed (st_procs s)) (st_stored s))
    end
  | LTrunc p n now => ext_trunc true s p n now
  | LTruncAny p n now => ext_trunc false s p n now
  | LDelete p => Some (mkState (fs_unlink (st_fs s) p) (st_procs s) (st_stored s))
  | LTouch p t => Some (mkState (chtimes (st_fs s) p t) (st_procs s) (st_stored s))
  | LSetTrim t => Some (mkState (mkFs (names (st_fs s)) (inodes (st_fs s)) t) (st_procs s) (st_stored s))
  end.

Fixpoint exec (s : state) (ls : list label) : option state :=
  match ls with
  | [] => Some s
  | l :: r => match step s l with None => None | Some s' => exec s' r end
  end.

End WithH.
