(* C12: enumerations shared by the generated table Gen/C12_SortKey.v and the model. *)
(* fields a step of the sort closure in printDiagnostics may compare *)
Inductive kfield := KFile | KOff | KLine | KCol | KEFile | KEOff | KELine | KECol
                  | KMsg | KCat | KBuild | KSev | KMergeIf.
(* conjuncts of diagnostic.equal *)
Inductive efield := EPos | EEnd | EMsg | ECat | ECatFolded | ESev | EMergeIf | EBuild.
(* fields copied by diagnostic.descriptor *)
Inductive dfield := DPos | DEnd | DCat | DMsg.
(* lint.MergeStrategy as mergeRuns' switch sees it *)
Inductive strategy := MAny | MAll | MOther.
