(* C08: comparison of the model's entry kinds / symbols pattern / root call symbols / package pre-filter
   with what the real Parser and code.CouldMatchAny computed. Used by cases/C08/*.v (vm_compute). *)
From Coq Require Import List String ZArith NArith Bool.
Import ListNotations.
Require Import Verif.Model.C09_Types Verif.Model.C09 Verif.Model.C08_Types Verif.Model.C08.
Open Scope string_scope.

Fixpoint sympat_eqb (a b : sympat) : bool :=
  match a, b with
  | SNone, SNone | SAny, SAny => true
  | SOr l, SOr l' | SAnd l, SAnd l' =>
      (fix go (l l' : list sympat) : bool :=
         match l, l' with
         | [], [] => true
         | x :: r, y :: r' => sympat_eqb x y && go r r'
         | _, _ => false
         end) l l'
  | SSym p t i, SSym p' t' i' => String.eqb p p' && String.eqb t t' && String.eqb i i'
  | SOther x, SOther y => String.eqb x y
  | _, _ => false
  end.
Fixpoint sympats_eqb (l l' : list sympat) : bool :=
  match l, l' with
  | [], [] => true
  | x :: r, y :: r' => sympat_eqb x y && sympats_eqb r r'
  | _, _ => false
  end.

Record pinfo := mkP {
  pi_pat : pat;                (* Pattern.Root *)
  pi_entry : list string;      (* kinds of Pattern.EntryNodes *)
  pi_sym : sympat;             (* Pattern.SymbolsPattern *)
  pi_roots : list sympat       (* Pattern.RootCallSymbols *)
}.
Inductive pdiff := DEntry | DSym | DRoots | DCould.

Definition pat_mismatch (T : entry_tables) (x : pinfo) : list pdiff :=
  ((if set_eqb (entry_kinds T (pi_pat x)) (pi_entry x) then [] else [DEntry]) ++
   (if sympat_eqb (collect T (pi_pat x) (String.eqb (pat_type (pi_pat x)) "Symbol")) (pi_sym x) then [] else [DSym]) ++
   (if sympats_eqb (root_call_symbols (pi_pat x)) (pi_roots x) then [] else [DRoots]))%list.

(* every IndexSymbol of a symbols pattern, in the order the harness lists them *)
Fixpoint sym_list (s : sympat) : list (string * string * string) :=
  match s with
  | SSym p t i => [(p, t, i)]
  | SOr l | SAnd l => flat_map sym_list l
  | _ => []
  end.
Definition has_of (syms : list (string * string * string)) (has : list bool) (p t i : string) : bool :=
  existsb (fun sh => let '((p', t', i'), h) := sh in String.eqb p p' && String.eqb t t' && String.eqb i i' && h)
          (combine syms has).

Record runinfo := mkRun { r_pat : nat; r_has : list bool; r_could : bool }.
Definition run_mismatch (empty_path_any : bool) (ps : list pinfo) (r : runinfo) : list pdiff :=
  match nth_error ps (r_pat r) with
  | None => [DCould]
  | Some x => if Bool.eqb (could empty_path_any (has_of (sym_list (pi_sym x)) (r_has r)) (pi_sym x)) (r_could r)
              then [] else [DCould]
  end.

Definition numbered {A B} (f : A -> list B) (l : list A) : list (nat * list B) :=
  filter (fun x => match snd x with [] => false | _ => true end) (combine (seq 0 (List.length l)) (map f l)).
