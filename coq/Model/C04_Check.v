(* C04: executable checks used by cases/C04/*.v (vm_compute) and by Examples/C04.v.
   1. the property's predicate on observed runs of the real binary: warm output = cold output;
   2. key correspondence: observations of the real key text against the model's key projection;
   3. a concrete instance of the abstract model (naturals everywhere) and, for a dimension d, the canonical
      history `run; flip d; run` showing a stale result in the MODEL when d is not a key field. *)
From Coq Require Import List String Bool Arith NArith.
Import ListNotations.
Require Import Verif.Model.C04_Types Verif.Gen.C04_CacheKey Verif.Model.C04.
Open Scope string_scope.

Definition dim_name (d : dim) : string :=
  match d with
  | PkgPath => "PkgPath" | Files => "Files" | GoMod => "GoMod" | Tags => "Tags" | GOOS => "GOOS"
  | GOARCH => "GOARCH" | Tests => "Tests" | DepTypes => "DepTypes" | DepFacts => "DepFacts"
  | FlagGo => "FlagGo" | FlagChecks => "FlagChecks" | Cfg f => "Cfg:" ++ f
  | Analyzers => "Analyzers" | Binary => "Binary" | Godebug => "Godebug" | OtherEnv e => "Env:" ++ e
  end.
Definition read_name (r : envread) : string := r_file r ++ ":" ++ r_func r ++ ":" ++ r_call r.

(* ---------- 1. warm vs cold on the implementation ---------- *)
(* outputs are interned by the driver: equal numbers <-> equal (sorted stdout lines, exit status) *)
Record stepobs := mkStep { s_hist : nat; s_idx : nat; s_warm : N; s_cold : N }.
Definition violations (l : list stepobs) : list (nat * nat) :=
  map (fun s => (s_hist s, s_idx s)) (filter (fun s => negb (N.eqb (s_warm s) (s_cold s))) l).

(* ---------- 2. key correspondence ---------- *)
(* one package in one run: the values of its input dimensions (interned) and the real action hash (interned) *)
Record keyobs := mkObs { o_id : nat; o_dims : list (dim * N); o_real : N }.
Fixpoint dval (l : list (dim * N)) (d : dim) : option N :=
  match l with
  | [] => None
  | (d', v) :: t => if dim_eqb d' d then Some v else dval t d
  end.
Definition optN_eqb (a b : option N) : bool :=
  match a, b with Some x, Some y => N.eqb x y | None, None => true | _, _ => false end.
Definition differing (kf : list dim) (a b : keyobs) : list dim :=
  filter (fun d => negb (optN_eqb (dval (o_dims a) d) (dval (o_dims b) d))) kf.
Definition same_proj (kf : list dim) (a b : keyobs) : bool :=
  match differing kf a b with [] => true | _ => false end.

(* equal REAL keys but different model projections: the real key does not determine a dimension the model
   says it covers (reported with the first such pair per real key) *)
Fixpoint key_unsound (kf : list dim) (seen l : list keyobs) : list (nat * nat * list string) :=
  match l with
  | [] => []
  | o :: t =>
    match find (fun s => N.eqb (o_real s) (o_real o)) seen with
    | Some s => (if same_proj kf s o then [] else [(o_id s, o_id o, map dim_name (differing kf s o))])
                ++ key_unsound kf seen t
    | None => key_unsound kf (o :: seen) t
    end
  end.
(* equal model projections but different REAL keys: an input of the real key the model does not track
   (harmless for transparency; informational) *)
Fixpoint key_extra (kf : list dim) (seen l : list keyobs) : list (nat * nat) :=
  match l with
  | [] => []
  | o :: t =>
    match find (fun s => same_proj kf s o) seen with
    | Some s => (if N.eqb (o_real s) (o_real o) then [] else [(o_id s, o_id o)]) ++ key_extra kf seen t
    | None => key_extra kf (o :: seen) t
    end
  end.
(* number of pairs (first occurrence, later occurrence) with equal real keys: the evidence that the
   "equal real key" side of [key_unsound] was exercised *)
Fixpoint key_hits (seen l : list keyobs) : nat :=
  match l with
  | [] => 0
  | o :: t => match find (fun s => N.eqb (o_real s) (o_real o)) seen with
              | Some _ => S (key_hits seen t)
              | None => key_hits (o :: seen) t
              end
  end.

(* ---------- 3. a concrete instance ---------- *)
Definition ivaln := ival nat nat.
Definition ivaln_eq_dec : forall a b : ivaln, {a = b} + {a <> b}.
Proof.
  decide equality; [apply Nat.eq_dec|].
  apply list_eq_dec. decide equality; apply Nat.eq_dec.
Defined.
Definition Kn := list ivaln.
Definition Kn_eq_dec : forall a b : Kn, {a = b} + {a <> b} := list_eq_dec ivaln_eq_dec.
Definition Hn (l : list ivaln) : Kn := l.

Definition valn (i : inp nat nat) (d : dim) : nat :=
  match d with
  | DepFacts => fold_right (fun pf a => fst pf + 3 * snd pf + a) 0 (i_deps i)
  | _ => i_loc i d
  end.
(* depends on exactly the dimensions in L; fails when they sum to zero *)
Definition analyse_n (L : list dim) (i : inp nat nat) : option (nat * nat) :=
  let s := fold_right (fun d a => valn i d + a) 0 L in
  if Nat.eqb s 0 then None else Some (s, 2 * s + 1).

Definition outcome_eqb (a b : outcome nat) : bool :=
  match a, b with
  | OFailed, OFailed | ODep, ODep => true
  | ORes x, ORes y => Nat.eqb x y
  | _, _ => false
  end.
Fixpoint outs_eqb (a b : list (pkgid * outcome nat)) : bool :=
  match a, b with
  | [], [] => true
  | (p, x) :: a', (q, y) :: b' => Nat.eqb p q && outcome_eqb x y && outs_eqb a' b'
  | _, _ => false
  end.

Definition loc1 : dim -> nat := fun _ => 1.
Definition set_dim (d : dim) (v : nat) (f : dim -> nat) : dim -> nat :=
  fun d' => if dim_eqb d' d then v else f d'.
(* leaf <- mid <- target; only target is an initial package *)
Definition world3 (lleaf lmid ltgt : dim -> nat) : world nat :=
  [mkPkg 0 [] false lleaf; mkPkg 1 [0] false lmid; mkPkg 2 [1] true ltgt].
Definition w_base : world nat := world3 loc1 loc1 loc1.
(* flip dimension d: for DepFacts the leaf's sources change (its facts flip), otherwise d changes everywhere *)
Definition w_flip (d : dim) : world nat :=
  match d with
  | DepFacts => world3 (set_dim Files 2 loc1) loc1 loc1
  | _ => world3 (set_dim d 2 loc1) (set_dim d 2 loc1) (set_dim d 2 loc1)
  end.

Definition run_n (kf L : list dim) := run nat nat nat Kn Kn_eq_dec kf Hn (analyse_n L).
(* `run base; flip d; run` leaves a result that differs from the cold one *)
Definition stale_in_model (kf L : list dim) (d : dim) : bool :=
  let c := fst (run_n kf L w_base empty) in
  negb (outs_eqb (snd (run_n kf L (w_flip d) c)) (snd (run_n kf L (w_flip d) empty))).
(* the relevant dimensions for which the model exhibits a stale result with key fields kf *)
Definition model_cex (kf : list dim) : list dim := filter (stale_in_model kf relevant) relevant.
