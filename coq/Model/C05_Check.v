(* C05: executable replay of harness histories on the model, and the property predicate evaluated on what
   the implementation was observed to do.  Used by coq/cases/C05/*.v (vm_compute). *)
From Coq Require Import Ascii String.
From Coq Require Import List NArith ZArith Bool Arith.
Import ListNotations.
Require Import Verif.Model.C05_Types Verif.Model.C05_Codec Verif.Model.C05_FS.
Open Scope N_scope.

(* ---- literals written by the check script ---- *)
Fixpoint bs (s : string) : list N :=
  match s with
  | EmptyString => []
  | String a r => N_of_ascii a :: bs r
  end.
Definition hx (s : string) : list N := match hex_decode (bs s) with Some l => l | None => [] end.

(* sha256 as a finite table (content -> id); anything else hashes to an id nobody uses *)
Definition htab := list (list N * list N).
Fixpoint H_tab (t : htab) (x : list N) : list N :=
  match t with
  | [] => repeat 255 32
  | (y, h) :: r => if bytes_eqb x y then h else H_tab r x
  end.

(* ---- history operations of the harness ---- *)
Inductive hop :=
| HPut (k x : list N) (t : N)             (* complete Put; t = time stamp read back from the entry *)
| HBegin (w : nat) (k x : list N) (t : N) (* writer goroutine started; runs to its first second-pass Read *)
| HAdv (w : nat) (t : N)                  (* the pending Read returns one byte; runs to the next Read / the end *)
| HCrashW (w : nat)                       (* the blocked writer dies *)
| HPutNoIndex (k x : list N)              (* writer dies after copyFile returned, before putIndexEntry *)
| HTrunc (p : path) (n : nat)             (* external truncate (quiescent) *)
| HTruncAny (p : path) (n : nat)          (* external truncate while a writer holds the file (outside the premise) *)
| HDelete (p : path)
| HTouch (p : path) (age : N)             (* mtime := now - age hours *)
| HSetTrim (age : option N)               (* trim.txt := now - age hours / removed *)
| HTrim
| HGet (k : list N) | HGetFile (k : list N) | HGetBytes (k : list N).

Inductive ores :=
| ONone
| OBlocked | OFinished
| OMiss
| OEntry (o : list N) (sz tm : N)
| OFile (o : list N) (sz : N) (data : list N)     (* GetFile: path, entry size, bytes read from the path *)
| OBytes (data : list N).

(* observation after an op: its result and the change of the directory listing (path, Some (bytes, age) | None) *)
Record obs := mkObs { ob_res : ores; ob_diff : list (path * option (list N * N)) }.

Definition NOW : N := 1000000.

Section Replay.
Variable tab : htab.
Let H := H_tab tab.

Definition ch (t : N) (n : nat) : choice := mkCh NOW t n (FA []) false.

(* run process p with a fixed choice until [stop] holds of its pc (checked before each step) or it is done *)
Fixpoint run_until (fuel : nat) (stop : pc -> bool) (c : choice) (s : state) (p : nat) : option state :=
  match fuel with
  | O => None
  | S f =>
    match nth_error (st_procs s) p with
    | None => None
    | Some pcv =>
      match pcv with
      | PDone _ | PCrashed => Some s
      | _ => if stop pcv then Some s else
             match step H s (LStep p c) with
             | None => None
             | Some s' => run_until f stop c s' p
             end
      end
    end
  end.

Definition is_copy (c : pc) : bool := match c with PPutCopy _ _ _ _ => true | _ => false end.
Definition is_idxopen (c : pc) : bool := match c with PPutIdxOpen _ _ => true | _ => false end.
Definition never (c : pc) : bool := false.
Definition FUEL : nat := 4000.

Definition spawn (s : state) (o : op) : option (state * nat) :=
  match step H s (LSpawn o) with
  | None => None
  | Some s' => Some (s', length (st_procs s))
  end.

Definition proc_result (s : state) (p : nat) : option result :=
  match nth_error (st_procs s) p with Some (PDone r) => Some r | _ => None end.

(* Trim: examine every name of a snapshot of the directory once, then finish *)
Fixpoint trim_scan (s : state) (p : nat) (ps : list path) : option state :=
  match ps with
  | [] => Some s
  | q :: r =>
    match nth_error (st_procs s) p with
    | Some (PTrimLoop _) =>
      match step H s (LStep p (mkCh NOW 0 1 q false)) with
      | None => None
      | Some s1 =>
        match nth_error (st_procs s1) p with
        | Some (PTrimRm _ _) => match step H s1 (LStep p (ch 0 1)) with
                                | None => None
                                | Some s2 => trim_scan s2 p r
                                end
        | _ => trim_scan s1 p r
        end
      end
    | _ => Some s
    end
  end.

Definition run_trim (s : state) : option state :=
  match spawn s OpTrim with
  | None => None
  | Some (s0, p) =>
    match step H s0 (LStep p (ch 0 1)) with
    | None => None
    | Some s1 =>
      match trim_scan s1 p (map fst (names (st_fs s1))) with
      | None => None
      | Some s2 =>
        match nth_error (st_procs s2) p with
        | Some (PTrimLoop _) => step H s2 (LStep p (mkCh NOW 0 1 (FA []) true))
        | _ => Some s2
        end
      end
    end
  end.

(* the model's answer to one harness op: new state, writer map, result *)
Definition wmap := list (nat * nat).
Fixpoint wfind (w : nat) (m : wmap) : option nat :=
  match m with [] => None | (a, p) :: r => if Nat.eqb a w then Some p else wfind w r end.

Definition blocked_or_finished (s : state) (p : nat) : ores :=
  match nth_error (st_procs s) p with
  | Some (PDone _) => OFinished
  | Some (PPutCopy _ _ _ _) => OBlocked
  | _ => ONone
  end.

Definition lookup_res (s : state) (p : nat) : ores :=
  match proc_result s p with
  | Some (RMiss _) => OMiss
  | Some (RGet _ o sz tm) => OEntry o sz tm
  | Some (RFile _ o sz (Some d)) => OFile o sz d
  | Some (RBytes _ b) => OBytes b
  | _ => ONone
  end.

Definition do_op (s : state) (m : wmap) (h : hop) : option (state * wmap * ores) :=
  match h with
  | HPut k x t =>
    match spawn s (OpPut k x) with
    | None => None
    | Some (s0, p) =>
      (* result: what the file named by OutputFile(out) holds when Put has returned *)
      option_map (fun s' => (s', m, match read_path (st_fs s') (FD (H x)) with Some d => OBytes d | None => ONone end))
                 (run_until FUEL never (ch t 1) s0 p)
    end
  | HBegin w k x t =>
    match spawn s (OpPut k x) with
    | None => None
    | Some (s0, p) => option_map (fun s' => (s', (w, p) :: m, blocked_or_finished s' p)) (run_until FUEL is_copy (ch t 1) s0 p)
    end
  | HAdv w t =>
    match wfind w m with
    | None => None
    | Some p =>
      match step H s (LStep p (ch t 1)) with
      | None => None
      | Some s1 => option_map (fun s' => (s', m, blocked_or_finished s' p)) (run_until FUEL is_copy (ch t 1) s1 p)
      end
    end
  | HCrashW w =>
    match wfind w m with
    | None => None
    | Some p => option_map (fun s' => (s', m, ONone)) (step H s (LCrash p))
    end
  | HPutNoIndex k x =>
    match spawn s (OpPut k x) with
    | None => None
    | Some (s0, p) =>
      match run_until FUEL is_idxopen (ch 0 1) s0 p with
      | None => None
      | Some s1 => option_map (fun s' => (s', m, ONone)) (step H s1 (LCrash p))
      end
    end
  | HTrunc q n => option_map (fun s' => (s', m, ONone)) (step H s (LTrunc q n NOW))
  | HTruncAny q n => option_map (fun s' => (s', m, ONone)) (step H s (LTruncAny q n NOW))
  | HDelete q => option_map (fun s' => (s', m, ONone)) (step H s (LDelete q))
  | HTouch q age => option_map (fun s' => (s', m, ONone)) (step H s (LTouch q (NOW - age)))
  | HSetTrim a => option_map (fun s' => (s', m, ONone)) (step H s (LSetTrim (option_map (fun a => NOW - a) a)))
  | HTrim => option_map (fun s' => (s', m, ONone)) (run_trim s)
  | HGet k =>
    match spawn s (OpGet k) with
    | None => None
    | Some (s0, p) => option_map (fun s' => (s', m, lookup_res s' p)) (run_until FUEL never (ch 0 3) s0 p)
    end
  | HGetFile k =>
    match spawn s (OpGetFile k) with
    | None => None
    | Some (s0, p) => option_map (fun s' => (s', m, lookup_res s' p)) (run_until FUEL never (ch 0 3) s0 p)
    end
  | HGetBytes k =>
    match spawn s (OpGetBytes k) with
    | None => None
    | Some (s0, p) => option_map (fun s' => (s', m, lookup_res s' p)) (run_until FUEL never (ch 0 3) s0 p)
    end
  end.

(* ---- comparison ---- *)
Definition ores_eqb (a b : ores) : bool :=
  match a, b with
  | ONone, ONone | OBlocked, OBlocked | OFinished, OFinished | OMiss, OMiss => true
  | OEntry o sz tm, OEntry o' sz' tm' => bytes_eqb o o' && (sz =? sz') && (tm =? tm')
  | OFile o sz d, OFile o' sz' d' => bytes_eqb o o' && (sz =? sz') && bytes_eqb d d'
  | OBytes d, OBytes d' => bytes_eqb d d'
  | _, _ => false
  end.

Definition listing := list (path * (list N * N)).
Fixpoint apply_diff (l : listing) (d : list (path * option (list N * N))) : listing :=
  match d with
  | [] => l
  | (p, v) :: r =>
    let l' := filter (fun e => negb (path_eqb (fst e) p)) l in
    apply_diff (match v with None => l' | Some x => (p, x) :: l' end) r
  end.
Definition model_listing (fs : fsys) : listing :=
  flat_map (fun e => match get_file fs (snd e) with
                     | Some f => [(fst e, (fdata f, NOW - fmtime f))]
                     | None => []
                     end) (names fs).
Definition entry_eqb (a b : path * (list N * N)) : bool :=
  path_eqb (fst a) (fst b) && bytes_eqb (fst (snd a)) (fst (snd b)) && (snd (snd a) =? snd (snd b)).
Definition listing_eqb (a b : listing) : bool :=
  Nat.eqb (length a) (length b) && forallb (fun e => existsb (entry_eqb e) b) a && forallb (fun e => existsb (entry_eqb e) a) b.

Inductive mism := MStuck | MResult | MListing.

Fixpoint replay (s : state) (m : wmap) (exp : listing) (i : nat) (h : list (hop * obs)) : list (nat * mism) :=
  match h with
  | [] => []
  | (o, ob) :: r =>
    match do_op s m o with
    | None => [(i, MStuck)]
    | Some (s', m', res) =>
      let exp' := apply_diff exp (ob_diff ob) in
      (if ores_eqb res (ob_res ob) then [] else [(i, MResult)]) ++
      (if listing_eqb (model_listing (st_fs s')) exp' then [] else [(i, MListing)]) ++
      replay s' m' exp' (S i) r
    end
  end.

(* ---- the property on the implementation's observed behaviour (no model involved) ----
   every lookup either misses or yields exactly a content stored under that key earlier in the history;
   a Get entry must be (sha256 x, |x|) of such a content. *)
Definition puts_before (k : list N) (h : list hop) : list (list N) :=
  flat_map (fun o => match o with
                     | HPut k' x _ | HBegin _ k' x _ | HPutNoIndex k' x => if bytes_eqb k k' then [x] else []
                     | _ => []
                     end) h.
Definition mem_bytes (d : list N) (l : list (list N)) : bool := existsb (bytes_eqb d) l.

Definition op_key (o : hop) : option (list N) :=
  match o with HGet k | HGetFile k | HGetBytes k => Some k | _ => None end.

(* Put post-condition (what runner.writeCacheReader relies on): when Put has returned nil, the file named by
   OutputFile(out) holds exactly the stored content *)
Definition put_post (o : hop) (r : ores) : bool :=
  match o with
  | HPut _ x _ => match r with OBytes d => bytes_eqb d x | _ => false end
  | _ => true
  end.

Definition obs_sound (before : list hop) (o : hop) (r : ores) : bool :=
  match op_key o with
  | None => put_post o r
  | Some k =>
    let ps := puts_before k before in
    match r with
    | OMiss => true
    | OEntry oid sz _ => existsb (fun x => bytes_eqb (H x) oid && (sz =? N.of_nat (length x))) ps
    | OFile oid sz d => mem_bytes d ps && bytes_eqb (H d) oid && (sz =? N.of_nat (length d))
    | OBytes d => mem_bytes d ps
    | _ => false
    end
  end.

Fixpoint violations_from (before : list hop) (i : nat) (h : list (hop * obs)) : list (nat * ores) :=
  match h with
  | [] => []
  | (o, ob) :: r =>
    (if obs_sound before o (ob_res ob) then [] else [(i, ob_res ob)]) ++
    violations_from (before ++ [o]) (S i) r
  end.

End Replay.

Definition history := list (hop * obs).
(* premise_ok = false marks histories containing HTruncAny (truncation while a writer holds the file):
   replayed for model faithfulness, not subject to the property *)
Record hcase := mkCase { hc_premise_ok : bool; hc_ops : history }.

Definition case_mismatch (tab : htab) (c : hcase) := replay tab init_state [] [] 0 (hc_ops c).
Definition case_violation (tab : htab) (c : hcase) :=
  if hc_premise_ok c then violations_from tab [] 0 (hc_ops c) else [].

Definition numbered {A} (f : hcase -> list A) (cs : list hcase) : list (nat * list A) :=
  filter (fun x => match snd x with [] => false | _ => true end) (combine (seq 0 (length cs)) (map f cs)).
Definition mismatches tab cs := numbered (case_mismatch tab) cs.
Definition violations tab cs := numbered (case_violation tab) cs.

(* ---- codec cases: bytes put into <k>-a, result of the real Get ---- *)
Record ccase := mkCC { cc_key : list N; cc_bytes : list N; cc_impl : option (list N * N * N);
                       cc_kind : nat (* 0 = arbitrary bytes, 1 = strict prefix of a real entry, 2 = real entry of ANOTHER key,
                                        3 = real entry of this key written by the real Put for (o, sz) = cc_expect *);
                       cc_expect : option (list N * N) }.
(* bytes of a codec case as a recipe over a real entry: optional prefix length, overwritten positions, appended bytes *)
Fixpoint patch_bytes (l : list N) (ps : list (nat * N)) : list N :=
  match ps with
  | [] => l
  | (i, b) :: r => patch_bytes (upd i b l) r
  end.
Definition build_bytes (base : list N) (pre : option nat) (ps : list (nat * N)) (ext : list N) : list N :=
  patch_bytes (match pre with Some n => firstn n base | None => base end) ps ++ ext.

Definition res_eqb (a b : option (list N * N * N)) : bool :=
  match a, b with
  | None, None => true
  | Some (o, sz, tm), Some (o', sz', tm') => bytes_eqb o o' && (sz =? sz') && (tm =? tm')
  | _, _ => false
  end.
Definition codec_mismatches (cs : list ccase) : list nat :=
  flat_map (fun ic => if res_eqb (parse_entry (cc_key (snd ic)) (cc_bytes (snd ic))) (cc_impl (snd ic)) then [] else [fst ic])
           (combine (seq 0 (length cs)) cs).
(* property on the implementation: truncated entries and entries of other keys are misses; a real entry
   is read back as what was stored *)
Definition codec_violation (c : ccase) : bool :=
  match cc_kind c with
  | 1%nat | 2%nat => match cc_impl c with None => false | Some _ => true end
  | 3%nat => match cc_impl c, cc_expect c with
             | Some (o, sz, _), Some (o', sz') => negb (bytes_eqb o o' && (sz =? sz'))
             | _, _ => true
             end
  | _ => false
  end.
Definition codec_violations (cs : list ccase) : list nat :=
  flat_map (fun ic => if codec_violation (snd ic) then [fst ic] else []) (combine (seq 0 (length cs)) cs).
(* the real entry files are byte-identical to format_entry *)
Definition format_mismatches (cs : list (list N * list N * N * N * list N)) : list nat :=
  flat_map (fun ic => match snd ic with
                      | (k, o, sz, tm, e) => if bytes_eqb (format_entry k o sz tm) e then [] else [fst ic]
                      end) (combine (seq 0 (length cs)) cs).

(* ---- concurrent processes: every lookup result against the values ever put under the key ---- *)
(* a GetFile result is the content read from the returned path right afterwards; a strict prefix of a stored
   value can be seen there through the documented GetFile-path/Trim window and is counted separately *)
Definition is_prefix_b (a b : list N) : bool := bytes_eqb a (firstn (length a) b).
(* puts: key -> (content index, bytes) ever put; a lookup's data is given as the index of the known content it
   equals (compared by the harness) or as raw bytes when it equals none *)
Definition stress_class (puts : list (nat * list (nat * list N))) (l : nat * bool * (nat + list N)) : nat :=
  match l with
  | (k, isfile, d) =>
    let ps := flat_map (fun kp => if Nat.eqb (fst kp) k then snd kp else []) puts in
    match d with
    | inl v => if existsb (fun p => Nat.eqb (fst p) v) ps then 0%nat else 2%nat
    | inr raw => if existsb (fun p => bytes_eqb raw (snd p)) ps then 0%nat
                 else if isfile && existsb (fun p => is_prefix_b raw (snd p)) ps then 1%nat else 2%nat
    end
  end.
Definition stress_violations puts (lookups : list (nat * bool * (nat + list N))) : list nat :=
  flat_map (fun il => if Nat.eqb (stress_class puts (snd il)) 2 then [fst il] else []) (combine (seq 0 (length lookups)) lookups).
Definition stress_window puts (lookups : list (nat * bool * (nat + list N))) : list nat :=
  flat_map (fun il => if Nat.eqb (stress_class puts (snd il)) 1 then [fst il] else []) (combine (seq 0 (length lookups)) lookups).
