(* C03: abstract model of a Go switch with a panicking default, over type names / case values (strings).
   Definitions only; generic in the tables.  Model/C03_Registry.v instantiates them with the tables that
   genmodel extracts from /repo and GOROOT on every run; proofs are in Proofs/C03.v. *)
From Coq Require Import List String Bool.
Import ListNotations.
Require Import Verif.Model.C03_Types.
Open Scope string_scope.

Definition mem (s : string) (l : list string) : bool := existsb (String.eqb s) l.

Fixpoint lookup {A : Type} (k : string) (t : list (string * A)) : option A :=
  match t with
  | [] => None
  | (k', v) :: r => if String.eqb k k' then Some v else lookup k r
  end.

(* implementors of interface [k] ([] when k is not an interface of the table, e.g. a concrete type) *)
Definition members (ifaces : list (string * list string)) (k : string) : list string :=
  match lookup k ifaces with Some l => l | None => [] end.

(* `case C:` accepts the dynamic type / value d when C is d itself or an interface that d implements *)
Definition case_matches (ifaces : list (string * list string)) (c d : string) : bool :=
  String.eqb c d || mem d (members ifaces c).

(* Go's switch: the first matching case in source order is taken; otherwise the default clause
   (for style STrailing: control falls out of the switch onto the panic statement). *)
Inductive outcome := Clause (i : nat) | Default.

Fixpoint dispatch_from (ifaces : list (string * list string)) (cases : list string) (d : string) (i : nat) : outcome :=
  match cases with
  | [] => Default
  | c :: r => if case_matches ifaces c d then Clause i else dispatch_from ifaces r d (S i)
  end.
Definition dispatch ifaces cases d := dispatch_from ifaces cases d 0.

(* ---- the decidable coverage obligation ---- *)
Definition covered ifaces (cases : list string) (d : string) : bool :=
  existsb (fun c => case_matches ifaces c d) cases.
(* members of the universe that are neither excluded nor accepted by some case: each is a value on which the
   modelled dispatch reaches the panicking branch *)
Definition uncovered ifaces (cases univ excl : list string) : list string :=
  filter (fun d => negb (mem d excl) && negb (covered ifaces cases d)) univ.
Definition covers ifaces (cases univ excl : list string) : bool :=
  match uncovered ifaces cases univ excl with [] => true | _ => false end.
