(* C10: the property, stated without reference to the loops of the implementation.
   Declarative glob semantics, "directive suppresses problem", "directive must be reported". *)
From Coq Require Import List ZArith Bool String Ascii.
Import ListNotations.
Require Import Verif.Model.C10.
Open Scope string_scope.

(* glob semantics: '*' stands for any string, '?' for any one character *)
Inductive Matches : string -> string -> Prop :=
| M_nil : Matches EmptyString EmptyString
| M_star : forall p k s, Matches p s -> Matches (String star p) (k ++ s)
| M_any : forall p c s, Matches p s -> Matches (String qmark p) (String c s)
| M_lit : forall p c s, c <> star -> c <> qmark -> Matches p s -> Matches (String c p) (String c s).

(* check names are compared case-insensitively, as everywhere in lintcmd *)
Definition name_matches (c cat : string) : Prop := Matches (lower c) (lower cat).

(* the names of a directive: its first argument split at commas *)
Definition dir_names (d : sdir) : list string :=
  match sd_args d with a :: _ => split comma a | [] => [] end.

(* a directive with a reason [has_reason]; (file, line) of the node it is attached to = sd_npos *)
Definition suppresses (d : sdir) (x : diag) : Prop :=
  has_reason (sd_args d) = true /\
  p_file (d_pos x) = p_file (sd_npos d) /\
  ((sd_cmd d = "ignore" /\ p_line (d_pos x) = p_line (sd_npos d)) \/ sd_cmd d = "file-ignore") /\
  exists c, In c (dir_names d) /\ name_matches c (d_cat x).

Definition malformed (d : sdir) : Prop := is_ignore_cmd (sd_cmd d) = true /\ has_reason (sd_args d) = false.

(* "names an enabled check other than U1000" *)
Definition names_enabled_non_u1000 (allowed : allowed_t) (c : string) : Prop :=
  exists a, In (a, true) allowed /\ a <> "u1000" /\ Matches (lower c) a.
(* the directive is not one that "only names disabled checks or U1000" *)
Definition reportable (allowed : allowed_t) (d : sdir) : Prop :=
  exists c, In c (dir_names d) /\ names_enabled_non_u1000 allowed c.
Definition must_report (allowed : allowed_t) (ds : list diag) (d : sdir) : Prop :=
  sd_cmd d = "ignore" /\ has_reason (sd_args d) = true /\
  (forall x, In x ds -> ~ suppresses d x) /\ reportable allowed d.

(* ---- executable counterparts (used on the implementation's observed outputs) ---- *)
Definition suppresses_b (d : sdir) (x : diag) : bool :=
  has_reason (sd_args d) &&
  String.eqb (p_file (d_pos x)) (p_file (sd_npos d)) &&
  ((String.eqb (sd_cmd d) "ignore" && Z.eqb (p_line (d_pos x)) (p_line (sd_npos d))) || String.eqb (sd_cmd d) "file-ignore") &&
  existsb (fun c => glob_match (lower c) (lower (d_cat x))) (dir_names d).
Definition malformed_b (d : sdir) : bool := is_ignore_cmd (sd_cmd d) && negb (has_reason (sd_args d)).
Definition reportable_b (allowed : allowed_t) (d : sdir) : bool :=
  existsb (fun c => existsb (fun kv => snd kv && negb (String.eqb (fst kv) "u1000") && glob_match (lower c) (fst kv)) allowed) (dir_names d).
Definition must_report_b (allowed : allowed_t) (ds : list diag) (d : sdir) : bool :=
  String.eqb (sd_cmd d) "ignore" && has_reason (sd_args d) && negb (existsb (suppresses_b d) ds) && reportable_b allowed d.

(* what the property asks of the output, as a function *)
Definition spec_sev (dirs : list sdir) (x : diag) : sev :=
  if existsb (fun d => suppresses_b d x) dirs then SevIgnored else d_sev x.
Definition spec_main (ds : list diag) (dirs : list sdir) : list diag := map (fun x => set_sev (spec_sev dirs x) x) ds.
Definition spec_extras (ds : list diag) (dirs : list sdir) (allowed : allowed_t) : list diag :=
  flat_map (fun d => if malformed_b d then [malformed_diag d] else []) dirs ++
  flat_map (fun d => if must_report_b allowed ds d then [unmatched_diag (sd_dpos d)] else []) dirs.

(* U1000: an object declared at p counts as used when a directive with a reason whose names match U1000
   is attached to p's line (ignore) or is anywhere in p's file (file-ignore) *)
Definition u1000_suppresses (d : sdir) (p : pos) : Prop :=
  has_reason (sd_args d) = true /\ p_file p = p_file (sd_npos d) /\
  ((sd_cmd d = "ignore" /\ p_line p = p_line (sd_npos d)) \/ sd_cmd d = "file-ignore") /\
  exists c, In c (dir_names d) /\ name_matches c "U1000".
