(* C09/C08: reflective encodings of go/ast values and of parsed pattern nodes, shared by the generated
   tables (Gen/C09_*.v, Gen/C08_*.v), the models and the harness' case files. Definitions only. *)
From Coq Require Import List String ZArith NArith.
Import ListNotations.

(* element type of a Go slice as far as pattern.match distinguishes it *)
Inductive lkind := LExpr | LStmt | LField | LOther.

(* A Go value that can stand on the right-hand side of pattern.match, be stored in Matcher.State, or
   (when recalled) stand on the left-hand side. Struct fields are kept by name, in declaration order,
   without the token.Pos / *ast.Object / *ast.CommentGroup fields (as matchAST skips them). *)
Inductive val :=
| VNil                                            (* untyped nil (nil interface) *)
| VNilPtr (ty : string)                           (* typed nil pointer of type ast.ty *)
| VStr (s : string)
| VTok (t : Z)                                    (* token.Token *)
| VBool (b : bool)
| VInt (z : Z)                                    (* other int-kinded fields (ast.ChanDir) *)
| VList (k : lkind) (isnil : bool) (l : list val) (* slice: element kind, nil-ness, elements *)
| VNode (ty : string) (fs : list (string * val))  (* non-nil pointer to a go/ast struct *)
| VObj (id : Z)                                   (* a types.Object (type-aware matching only) *)
| VConst (s : string)                             (* a types.TypeAndValue whose constant prints as s *)
| VOpaque (tag : string).                         (* anything else (e.g. the reflect.Value matchAST returns) *)

(* A parsed pattern.Node. PNone is the nil interface (List{}'s Head/Tail, a bare name's Node). *)
Inductive pat :=
| PNone
| PAny
| PNil
| PString (s : string)
| PToken (t : Z)
| PBinding (name : string) (idx : nat) (sub : pat)
| PList (hd tl : pat)
| POr (ps : list pat)
| PNot (p : pat)
| PNode (ty : string) (fs : list (string * pat))  (* a struct node that maps to a go/ast node *)
| PTypeAware (k : string) (arg : pat).            (* Symbol, Builtin, Object, IntegerLiteral, TrulyConstantExpression *)

(* Matcher.State: Go map[string]any as an association list with unique keys *)
Definition state := list (string * val).

(* frame-stack operations of the Matcher, as they occur in Or.Match / Not.Match *)
Inductive frameop := OpPush | OpPop | OpMerge.

(* What the translator reads off pattern/match.go (Gen/C09_Matcher.v instantiates it). *)
Record matcher_cfg := mkCfg {
  (* type switch on the left operand of match: (go/ast type, field unwrapped, nil pointer is checked) *)
  cfg_unwrap_left : list (string * string * bool);
  (* type switch on the right operand; an empty field name means "only the nil check" (BasicLit) *)
  cfg_unwrap_right : list (string * string * bool);
  cfg_or_pre : list frameop;        (* Or.Match: before trying an alternative *)
  cfg_or_ok : list frameop;         (* ... after an alternative matched *)
  cfg_or_fail : list frameop;       (* ... after an alternative failed *)
  cfg_not_pre : list frameop;       (* Not.Match: before matching the operand *)
  cfg_not_post : list frameop;      (* ... after it, on both outcomes *)
  cfg_merge_propagates : bool;      (* Matcher.merge ORs the dropped frame into the enclosing one *)
  cfg_tokens : list (string * Z);   (* tokensByString *)
  cfg_expr_types : list string;     (* go/ast types implementing ast.Expr *)
  cfg_stmt_types : list string      (* go/ast types implementing ast.Stmt *)
}.

(* Type-aware matching consults go/types; it enters as an oracle. *)
Record oracle := mkOracle {
  o_objof : val -> option Z;   (* TypesInfo.ObjectOf of an identifier node *)
  (* kind, the node that passed the structural pre-match ->
     None: no match;  Some (res, None): match with result res;
     Some (res, Some v): match iff the argument pattern matches v *)
  o_ta : string -> val -> option (val * option val)
}.
Definition no_oracle : oracle := mkOracle (fun _ => None) (fun _ _ => None).

(* result of a match step *)
Inductive res (M : Type) :=
| RFuel                         (* model ran out of fuel (never compared as a normal outcome) *)
| RPanic                        (* the Go code panics *)
| RDone (ok : bool) (v : val) (m : M).
Arguments RFuel {M}.
Arguments RPanic {M}.
Arguments RDone {M} ok v m.
