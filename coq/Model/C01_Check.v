(* C01: the correspondence layer: building inputs in the model heap, observing results the way the
   compiled Go program prints them, and comparing a model run with the observed behaviour. *)
From Coq Require Import List ZArith NArith PArith Bool FMapPositive.
Import ListNotations.
Require Import Verif.Model.C01_IRSem.
Open Scope Z_scope.

(* what the compiled program prints about a value (pointers are followed, addresses never shown) *)
Inductive obs :=
| OI (z : Z) | OB (b : bool) | OS (s : list N)
| OAgg (l : list obs)
| ONil
| ORef (o : obs)              (* non-nil pointer: the pointee *)
| OSl (l : list obs)          (* non-nil slice: its len elements *)
| OFn                         (* non-nil func *)
| OIf (t : N) (o : obs)       (* non-nil interface: dynamic type id, payload *)
| OMp (kv : list (obs * obs)) (* non-nil map, sorted by key *)
| OX.                         (* not observed (depth exhausted / dangling) *)

Fixpoint obs_eqb (a b : obs) {struct a} : bool :=
  let lst := fix lst (x y : list obs) {struct x} : bool :=
       match x, y with
       | [], [] => true
       | u :: r, v :: s => obs_eqb u v && lst r s
       | _, _ => false
       end in
  match a, b with
  | OI x, OI y => Z.eqb x y
  | OB x, OB y => Bool.eqb x y
  | OS x, OS y => list_eqb N.eqb x y
  | OAgg x, OAgg y => lst x y
  | ONil, ONil => true
  | ORef x, ORef y => obs_eqb x y
  | OSl x, OSl y => lst x y
  | OFn, OFn => true
  | OIf t x, OIf u y => N.eqb t u && obs_eqb x y
  | OMp x, OMp y =>
    (fix go (x y : list (obs * obs)) {struct x} : bool :=
       match x, y with
       | [], [] => true
       | (k, v) :: r, (k', v') :: s => obs_eqb k k' && obs_eqb v v' && go r s
       | _, _ => false
       end) x y
  | OX, OX => true
  | _, _ => false
  end.

(* order used to sort map entries: ints by value, strings lexicographically, bools false<true *)
Definition obs_ltb (a b : obs) : bool :=
  match a, b with
  | OI x, OI y => x <? y
  | OS x, OS y => str_ltb x y
  | OB x, OB y => negb x && y
  | _, _ => false
  end.
Fixpoint kv_insert (k v : obs) (l : list (obs * obs)) : list (obs * obs) :=
  match l with
  | [] => [(k, v)]
  | (k', v') :: r => if obs_ltb k k' then (k, v) :: l else (k', v') :: kv_insert k v r
  end.

Fixpoint observe (d : nat) (h : heap) (v : value) : obs :=
  match d with
  | O => OX
  | S d' =>
    match v with
    | VInt z => OI z
    | VBool b => OB b
    | VStr s => OS s
    | VPtr None => ONil
    | VPtr (Some a) => match hload h a with Some x => ORef (observe d' h x) | None => OX end
    | VAgg vs => OAgg (map (observe d' h) vs)
    | VSlice None _ _ _ => ONil
    | VSlice (Some a) off len _ =>
      match hload_run h a off (N.to_nat len) with Some es => OSl (map (observe d' h) es) | None => OX end
    | VClos _ _ => OFn
    | VNilFunc => ONil
    | VIface None => ONil
    | VIface (Some (t, x)) => OIf t (observe d' h x)
    | VMap None => ONil
    | VMap (Some m) =>
      match PM.find m (maps h) with
      | Some kv => OMp (fold_right (fun e acc => kv_insert (observe d' h (fst e)) (observe d' h (snd e)) acc) [] kv)
      | None => OX
      end
    end
  end.

Definition obs_depth : nat := 6%nat.

(* inputs of a case *)
Inductive input :=
| InVal (v : value)                          (* passed as is (scalars, strings, aggregates, nil) *)
| InPtr (v : value)                          (* pointer to a fresh cell holding v *)
| InSlice (vs : list value) (len cap : N).   (* slice over a fresh array vs (length cap) *)

Fixpoint build_inputs (h : heap) (ins : list input) : heap * list value :=
  match ins with
  | [] => (h, [])
  | i :: r =>
    match i with
    | InVal v => let '(h', vs) := build_inputs h r in (h', v :: vs)
    | InPtr v => let '(c, h1) := alloc_cell h v in
                 let '(h', vs) := build_inputs h1 r in (h', VPtr (Some (c, [])) :: vs)
    | InSlice es len cap => let '(c, h1) := alloc_cell h (VAgg es) in
                            let '(h', vs) := build_inputs h1 r in (h', VSlice (Some (c, [])) 0 len cap :: vs)
    end
  end.

Definition is_ref_input (i : input) : bool := match i with InVal _ => false | _ => true end.

Fixpoint observe_args (h : heap) (ins : list input) (vs : list value) : list obs :=
  match ins, vs with
  | i :: r, v :: s =>
    if is_ref_input i then
      (* slices are shown up to their capacity, so that writes beyond len (append in place) are observed *)
      let v' := match v with VSlice b off _ cap => VSlice b off cap cap | _ => v end in
      observe obs_depth h v' :: observe_args h r s
    else observe_args h r s
  | _, _ => []
  end.

(* how a run ended *)
Inductive pobs := PNone | PRt | PVal (o : obs).
Definition pobs_eqb (a b : pobs) : bool :=
  match a, b with
  | PNone, PNone => true | PRt, PRt => true
  | PVal x, PVal y => obs_eqb x y
  | _, _ => false
  end.

Record expect := mkExpect {
  x_panic : pobs;
  x_results : list obs;
  x_trace : list (N * list obs);
  x_globals : list obs;
  x_args : list obs }.

Definition trace_eqb (a b : list (N * list obs)) : bool :=
  list_eqb (fun x y => N.eqb (fst x) (fst y) && list_eqb obs_eqb (snd x) (snd y)) a b.

Definition expect_eqb (a b : expect) : bool :=
  pobs_eqb (x_panic a) (x_panic b) && list_eqb obs_eqb (x_results a) (x_results b) &&
  trace_eqb (x_trace a) (x_trace b) && list_eqb obs_eqb (x_globals a) (x_globals b) &&
  list_eqb obs_eqb (x_args a) (x_args b).

Record case := mkCase { c_fn : N; c_inputs : list input; c_expect : expect }.

(* the heap before package initialisation: global g_i lives in cell i+1 *)
Definition globals_heap (zeros : list value) : heap :=
  fold_left (fun h z => snd (alloc_cell h z)) zeros (mkHeap (PM.empty _) (PM.empty _) 1%positive).

Fixpoint global_addrs (n : nat) (c : positive) : list value :=
  match n with O => [] | S k => VPtr (Some (c, [])) :: global_addrs k (Pos.succ c) end.

Definition observe_globals (h : heap) (nglobals : nat) : list obs :=
  map (fun a => match a with
                | VPtr (Some ad) => match hload h ad with Some v => observe obs_depth h v | None => OX end
                | _ => OX
                end) (global_addrs nglobals 1%positive).

Definition observe_trace (h : heap) (tr : list event) : list (N * list obs) :=
  map (fun e => match e with EvCall f args => (f, map (observe obs_depth h) args) end) tr.

Definition panic_obs (h : heap) (v : value) : pobs :=
  match v with
  | VIface (Some (t, x)) => if N.eqb t rt_error_ty then PRt else PVal (observe obs_depth h v)
  | _ => PVal (observe obs_depth h v)
  end.

Inductive verdict :=
| VOk
| VMismatch (got : expect)
| VFuel
| VUnsupported (what : N)
| VStuck (e : error).

(* package initialisation: run function [initf] (no arguments) on the globals heap *)
Definition init_heap (fuel : nat) (p : program) (initf : N) (zeros : list value) : heap + outcome :=
  match exec fuel p initf [] (globals_heap zeros) with
  | Done _ h _ => inl h
  | o => inr o
  end.

Definition run_case (fuel : nat) (p : program) (h0 : heap) (nglobals : nat) (c : case) : verdict * N :=
  let '(h1, args) := build_inputs h0 (c_inputs c) in
  let '(o, steps) := exec_steps fuel p (c_fn c) args h1 in
  (match o with
  | Done rs h tr =>
    let got := mkExpect PNone (map (observe obs_depth h) rs) (observe_trace h tr)
                        (observe_globals h nglobals) (observe_args h (c_inputs c) args) in
    if expect_eqb got (c_expect c) then VOk else VMismatch got
  | Panicked v h tr =>
    let got := mkExpect (panic_obs h v) [] (observe_trace h tr)
                        (observe_globals h nglobals) (observe_args h (c_inputs c) args) in
    if expect_eqb got (c_expect c) then VOk else VMismatch got
  | OutOfFuel => VFuel
  | Stuck (EUnsupported w) => VUnsupported w
  | Stuck e => VStuck e
  end, steps).

(* all cases against one serialised form of the program; only the non-OK verdicts are kept *)
Fixpoint run_cases_from (fuel : nat) (p : program) (h0 : heap) (nglobals : nat) (cs : list case) (i : N)
  : list (N * verdict) * N :=
  match cs with
  | [] => ([], 0%N)
  | c :: r => let '(v, steps) := run_case fuel p h0 nglobals c in
              let '(bad, mx) := run_cases_from fuel p h0 nglobals r (N.succ i) in
              match v with
              | VOk => (bad, N.max mx steps)
              | _ => ((i, v) :: bad, mx)
              end
  end.

Inductive form_result :=
| FRInitFailed (o : outcome)
| FRCases (bad : list (N * verdict)) (max_steps_of_agreeing_case : N).

Definition run_form (fuel : nat) (p : program) (initf : N) (zeros : list value) (cs : list case) : form_result :=
  match init_heap fuel p initf zeros with
  | inr o => FRInitFailed o
  | inl h0 => let '(bad, mx) := run_cases_from fuel p h0 (length zeros) cs 0%N in FRCases bad mx
  end.
