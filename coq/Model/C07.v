(* C07 — U1000 is deletion-safe and catches every zero-reference object: definitions (shared graph model: C17_Graph).
   deleted   = the reported (Unused) nodes together with everything declared inside them (owns-star)
   refs      = the identifier uses of the package as triples (a, w, b): the identifier lies in the declaration of a
               (innermost declared object with a node), resolves to b, and w (= a or an owns-ancestor of a, supplied by
               the harness as a hint and CHECKED here) is the node that carries the use edge w -> b. *)
From Coq Require Import List NArith Bool.
Import ListNotations.
Require Import Verif.Model.C17_Graph Verif.Model.C17_Merge Verif.Model.C17_Check.
Open Scope N_scope.

Definition ref := (N * N * N)%type.

(* ---------------------------------------------------------------- specification level *)
Definition deleted (g : graph) (x : node) : Prop :=
  exists u, u < gn g /\ verdict g u = Unused /\ owns_star g u x.

Definition edges_cover_refs (g : graph) (refs : list ref) : Prop :=
  forall a w b, In (a, w, b) refs -> w < gn g /\ b < gn g /\ owns_star g w a /\ In b (guses g w).
(* every quiet node lies inside a reported one (follows from acyclicity of owns: Proofs/C07.v quiet_has_unused_root) *)
Definition rooted (g : graph) : Prop := forall v, v < gn g -> verdict g v = Quiet -> deleted g v.
(* an object that is used although it is declared inside a reported object is referred to only from deleted code *)
Definition inner_refs_local (g : graph) (refs : list ref) : Prop :=
  forall a w b, In (a, w, b) refs -> seen g b -> deleted g b -> deleted g a.
Definition deletion_safe (g : graph) (refs : list ref) : Prop :=
  forall a w b, In (a, w, b) refs -> ~ deleted g a -> ~ deleted g b.

(* ---------------------------------------------------------------- executable *)
Record ctx := mkCtx { cx_seen : vis; cx_quiet : vis; cx_del : vis }.
Definition unused_nodes_of (g : graph) (s q : vis) : list node :=
  filter (fun x => verdict_eqb (verdict_of s q x) Unused) (all_nodes (gn g)).
Definition unused_nodes (g : graph) : list node := unused_nodes_of g (seen_set g) (quiet_set g).
Definition deleted_set (g : graph) : vis := reach_from (gn g) (gowns g) (unused_nodes g).
Definition deletedb (g : graph) (x : node) : bool := vmem x (deleted_set g).
Definition mkctx (g : graph) : ctx :=
  let s := seen_set g in let q := quiet_set_of g s in
  mkCtx s q (reach_from (gn g) (gowns g) (unused_nodes_of g s q)).

Definition wit_okb (g : graph) (r : ref) : bool :=
  match r with (a, w, b) =>
    (w <? gn g) && (b <? gn g) && memN b (guses g w) && vmem a (reach_from (gn g) (gowns g) [w]) end.
Definition edges_cover_refsb (g : graph) (refs : list ref) : bool := forallb (wit_okb g) refs.
Definition rootedb_ctx (g : graph) (c : ctx) : bool :=
  forallb (fun v => negb (verdict_eqb (verdict_of (cx_seen c) (cx_quiet c) v) Quiet) || vmem v (cx_del c)) (all_nodes (gn g)).
Definition rootedb (g : graph) : bool := rootedb_ctx g (mkctx g).
Definition inner_okb_ctx (c : ctx) (refs : list ref) : bool :=
  forallb (fun r => match r with (a, _, b) => negb (vmem b (cx_seen c) && vmem b (cx_del c)) || vmem a (cx_del c) end) refs.
Definition inner_okb (g : graph) (refs : list ref) : bool := inner_okb_ctx (mkctx g) refs.
Definition deletion_safe_b_ctx (c : ctx) (refs : list ref) : bool :=
  forallb (fun r => match r with (a, _, b) => vmem a (cx_del c) || negb (vmem b (cx_del c)) end) refs.
Definition deletion_safe_b (g : graph) (refs : list ref) : bool := deletion_safe_b_ctx (mkctx g) refs.

(* in-degree zero (no use edge from any node, no owner) *)
Definition no_incoming_b (c : cgraph) (v : node) : bool :=
  forallb (fun uo => negb (memN v (fst uo)) && negb (memN v (snd uo))) c.

(* ---------------------------------------------------------------- cases (cases/C07/*.v) *)
Record caseD := mkD {
  d_graph : gcase;            (* exported graph with interned Object labels + unused.Result twice *)
  d_refs : list ref;          (* from types.Info.Uses / Selections *)
  d_wrefs : list ref;         (* identifiers that are only assigned to (x = v, x++): rule 9.7 records no use for them *)
  d_cands : list N            (* labels of the unexported package-level objects without any reference and exemption *)
}.

Inductive ddiag :=
| DModel                       (* model verdicts <> unused.Result *)
| DCover (i : nat)             (* reference i has no use edge from its declaration or an owner of it *)
| DRooted                      (* a quiet node outside every reported object *)
| DInner (i : nat)             (* a used object inside a reported one is referenced from kept code *)
| DSafeModel (i : nat)         (* model-level conclusion fails for reference i *)
| DDangling (i : nat)          (* OBSERVED: identifier i stays, its target is deleted *)
| DDanglingWrite (i : nat)     (* OBSERVED: assignment i stays, the assigned variable is deleted *)
| DNotReported (label : N).    (* OBSERVED: zero-reference object is not in Unused *)

Definition failing {A} (f : A -> bool) (l : list A) : list nat :=
  map fst (filter (fun x => negb (f (snd x))) (indexed l)).

Definition caseD_mismatch (c : caseD) : list ddiag :=
  let cg := strip (g_graph (d_graph c)) in let g := of_cgraph cg in let cx := mkctx g in
  (if gcase_ok (d_graph c) then [] else [DModel]) ++
  map DCover (failing (wit_okb g) (d_refs c)) ++
  (if rootedb_ctx g cx then [] else [DRooted]) ++
  map DInner (failing (fun r => inner_okb_ctx cx [r]) (d_refs c)) ++
  map DSafeModel (failing (fun r => deletion_safe_b_ctx cx [r]) (d_refs c)).

(* the property on the OBSERVED result: delete the objects in Result.Unused and what they own *)
Definition observed_unused_nodes (c : caseD) : list node :=
  match g_res1 (d_graph c) with (_, un, _) =>
    map fst (filter (fun il => negb (fst il =? 0) && memN (fst (snd il)) un)
                    (combine (all_nodes (N.of_nat (length (g_graph (d_graph c))))) (g_graph (d_graph c)))) end.
Definition caseD_violation (c : caseD) : list ddiag :=
  let cg := strip (g_graph (d_graph c)) in let g := of_cgraph cg in
  let del := reach_from (gn g) (gowns g) (observed_unused_nodes c) in
  map DDangling (failing (fun r => match r with (a, _, b) => vmem a del || negb (vmem b del) end) (d_refs c)) ++
  map DDanglingWrite (failing (fun r => match r with (a, _, b) => vmem a del || negb (vmem b del) end) (d_wrefs c)) ++
  match g_res1 (d_graph c) with (_, un, _) =>
    map DNotReported (filter (fun l => negb (memN l un)) (d_cands c)) end.

(* ---------------------------------------------------------------- second half through the real linter path
   l_expected: for every package of a module (several packages share their NAME, file base names and lines), the
   U1000 problems of its zero-reference candidates (computed from go/types per package);
   l_cli: the U1000 problems printed by the staticcheck binary over the whole module. *)
Record caseL := mkL { l_expected : list problem; l_cli : list problem }.
Definition caseL_violation (c : caseL) : list problem := set_diff (l_expected c) (l_cli c).
