(* C14 — dominance queries are exact on every CFG the builder produces.
   Definitions only: the observation record (what go/ir's API answered for one function) and the
   executable checker [tree_check] that compares it with the verified reference dominance of
   Lib/Graphs.v.  go/ir/dom.go (Lengauer-Tarjan) is NOT modelled; its answers are validated. *)
From Coq Require Import List NArith Bool.
Import ListNotations.
Require Import Verif.Lib.Graphs.
Local Open Scope N_scope.

Record dom_obs := mkObs {
  o_dom  : list N;            (* row b = bit set { c | b.Dominates(c) } as answered by go/ir *)
  o_idom : list (option N);   (* b.Idom() (None = nil) *)
  o_kids : list (list N);     (* b.Dominees() *)
  o_pre  : list N;            (* fn.DomPreorder() as block indices *)
  o_post : list N             (* fn.DomPostorder() *)
}.

(* which clause of the property an observation fails *)
Inductive clause :=
| CGraph                (* CFG malformed: edge out of range, block reachable from neither root, recover reachable from entry *)
| CShape                (* observation lists do not have one entry per block *)
| CDominates (b : N)    (* row b of Dominates differs from "every path from the root passes through b" *)
| CIdom (c : N)         (* Idom(c) is not the immediate dominator / a root has an Idom *)
| CDominees (b : N)     (* Dominees(b) is not the inverse of Idom *)
| CPreorder             (* DomPreorder is not a listing of all blocks *)
| CPostorder
| CInterval (b : N)     (* pre/post interval test differs from dominance on row b *)
| CPreRun (b : N)       (* blocks dominated by b are not the contiguous run of DomPreorder starting at b *)
| CPostRun (b : N).     (* ... of DomPostorder ending at b *)

Fixpoint index_of (x : N) (l : list N) : N :=
  match l with
  | [] => 0
  | y :: t => if x =? y then 0 else N.succ (index_of x t)
  end.

Fixpoint memb (x : N) (l : list N) : bool :=
  match l with [] => false | y :: t => (x =? y) || memb x t end.
Fixpoint nodupb (l : list N) : bool :=
  match l with [] => true | y :: t => negb (memb y t) && nodupb t end.

Definition opt_eqb (a b : option N) : bool :=
  match a, b with Some x, Some y => x =? y | None, None => true | _, _ => false end.

Definition is_root (rec : option N) (c : N) : bool :=
  (c =? 0) || match rec with Some rc => c =? rc | None => false end.

Definition idom_ok (n : N) (rec : option N) (rows : list N) (nr : list (N * N)) (c : N) (i : option N) : bool :=
  match i with
  | None => is_root rec c
  | Some d => negb (is_root rec c) && (d <? n) && negb (d =? c) && N.testbit (row rows d) c &&
              forallb (fun br => (fst br =? c) || negb (N.testbit (snd br) c) || N.testbit (snd br) d) nr
  end.

Definition kids_ok (n : N) (idoms : list (option N)) (ni : list (N * option N)) (b : N) (kids : list N) : bool :=
  nodupb kids &&
  forallb (fun c => (c <? n) && opt_eqb (nth (N.to_nat c) idoms None) (Some b)) kids &&
  forallb (fun ci => match snd ci with Some d => negb (d =? b) || memb (fst ci) kids | None => true end) ni.

Definition count_row (nodes : list N) (rb : N) : N :=
  fold_right (fun c acc => if N.testbit rb c then N.succ acc else acc) 0 nodes.

Definition filter_map_idx {A} (f : N -> A -> bool) (mk : N -> clause) (nodes : list N) (l : list A) : list clause :=
  flat_map (fun ca => if f (fst ca) (snd ca) then [] else [mk (fst ca)]) (combine nodes l).

(* the list of failed clauses; [] = accepted *)
Definition tree_diag (g : graph) (rec : option N) (o : dom_obs) : list clause :=
  match cfg_dominance g rec with
  | None => [CGraph]
  | Some d =>
    let n := nnodes g in
    let nodes := node_list g in
    let rows := cd_rows d in
    let len_ok {A} (l : list A) := Nat.eqb (length l) (length g) in
    if negb (len_ok (o_dom o) && len_ok (o_idom o) && len_ok (o_kids o)) then [CShape] else
    let nr := combine nodes rows in
    let ni := combine nodes (o_idom o) in
    let pre_ok := len_ok (o_pre o) && forallb (fun c => index_of c (o_pre o) <? n) nodes in
    let post_ok := len_ok (o_post o) && forallb (fun c => index_of c (o_post o) <? n) nodes in
    filter_map_idx (fun b ob => ob =? row rows b) CDominates nodes (o_dom o) ++
    filter_map_idx (idom_ok n rec rows nr) CIdom nodes (o_idom o) ++
    filter_map_idx (kids_ok n (o_idom o) ni) CDominees nodes (o_kids o) ++
    (if pre_ok then [] else [CPreorder]) ++
    (if post_ok then [] else [CPostorder]) ++
    (if pre_ok && post_ok then
       let num := map (fun c => (c, (index_of c (o_pre o), index_of c (o_post o)))) nodes in
       flat_map (fun bpq =>
         let b := fst bpq in let pb := fst (snd bpq) in let qb := snd (snd bpq) in
         let rb := row rows b in
         let sz := count_row nodes rb in
         (if forallb (fun cpq => Bool.eqb (N.testbit rb (fst cpq))
                        ((pb <=? fst (snd cpq)) && (snd (snd cpq) <=? qb))) num then [] else [CInterval b]) ++
         (if forallb (fun cpq => Bool.eqb (N.testbit rb (fst cpq))
                        ((pb <=? fst (snd cpq)) && (fst (snd cpq) <? pb + sz))) num then [] else [CPreRun b]) ++
         (if forallb (fun cpq => Bool.eqb (N.testbit rb (fst cpq))
                        ((snd (snd cpq) <=? qb) && (qb <? snd (snd cpq) + sz))) num then [] else [CPostRun b]))
         num
     else [])
  end.

Definition tree_check (g : graph) (rec : option N) (o : dom_obs) : bool :=
  match tree_diag g rec o with [] => true | _ => false end.

(* one serialised function: name index, graph, recover, observation *)
Record dom_case := mkCase { c_id : N; c_g : graph; c_rec : option N; c_obs : dom_obs }.

Definition case_diag (c : dom_case) : list clause := tree_diag (c_g c) (c_rec c) (c_obs c).
(* violations: (case id, failed clauses) for every rejected function *)
Definition violations (cs : list dom_case) : list (N * list clause) :=
  flat_map (fun c => match case_diag c with [] => [] | d => [(c_id c, firstn 4 d)] end) cs.
(* a case is non-trivial when some block has at least two predecessors or the graph has a cycle;
   measured on the Go side; here only the number of accepted cases is recomputed *)
Definition accepted (cs : list dom_case) : N :=
  N.of_nat (length (filter (fun c => match case_diag c with [] => true | _ => false end) cs)).

(* ------------------------------------------------------------------ sampled tie for one huge function
   NOT tree_check: for a function far beyond the block limit only sampled ordered pairs (b, c) are read from the
   API, together with the positions of b and c in DomPreorder / DomPostorder, and only necessary conditions that
   need no graph search are evaluated:
     SRoot     the entry block dominates every (reachable) block          [Graphs.dominates_root]
     SRefl     every block dominates itself                               [Graphs.dominates_refl]
     SInterval Dominates(b,c) = (pre b <= pre c /\ post c <= post b) with pre/post = positions in the listings
               (what tree_check_exact gives for an exact observation: ex_interval)
     SAntisym  two different blocks do not dominate each other            [Graphs.dominates_antisym] *)
Record sample := mkS { s_b : N; s_c : N; s_dom : bool; s_preb : N; s_prec : N; s_postb : N; s_postc : N }.
Inductive sclause := SRoot (c : N) | SRefl (b : N) | SInterval (b c : N) | SAntisym (b c : N).
Definition sample_diag (root : N) (l : list sample) : list sclause :=
  flat_map (fun s =>
    (if (s_b s =? root) && negb (s_dom s) then [SRoot (s_c s)] else []) ++
    (if (s_b s =? s_c s) && negb (s_dom s) then [SRefl (s_b s)] else []) ++
    (if Bool.eqb (s_dom s) ((s_preb s <=? s_prec s) && (s_postc s <=? s_postb s)) then [] else [SInterval (s_b s) (s_c s)]) ++
    (if s_dom s && negb (s_b s =? s_c s) &&
        existsb (fun t => (s_b t =? s_c s) && (s_c t =? s_b s) && s_dom t) l then [SAntisym (s_b s) (s_c s)] else [])) l.
