(* C05: types shared by the generated layout table (Gen/C05_CacheLayout.v) and the model. *)
From Coq Require Import List NArith Bool.
Import ListNotations.
Open Scope N_scope.

(* one item of the Sprintf format of putIndexEntry *)
Inductive fmt_item :=
| FLit (s : list N)      (* literal bytes *)
| FHex                   (* %x of a [HashSize]byte *)
| FDec (width : N).      (* %<width>d *)

Record layout := mkLayout {
  l_hash_size : N;                 (* HashSize *)
  l_hex_size : N;                  (* hexSize *)
  l_entry_size : N;                (* entrySize *)
  l_read_len : N;                  (* length of the read buffer of get *)
  l_format : list fmt_item;        (* putIndexEntry: fmt.Sprintf format *)
  l_format_args : list nat;        (* which argument each verb prints: 0=id 1=out 2=size 3=time *)
  l_header : list (N * N);         (* get: (offset, byte that must be there) *)
  l_slices : list (N * N)          (* get: absolute (start, length) of eid, eout, esize, etime *)
}.

(* shape facts of the protocol (put / copyFile / putIndexEntry / GetFile / GetBytes / get) *)
Record protocol := mkProtocol {
  p_data_before_index : bool;      (* put: copyFile (and its error return) precedes putIndexEntry *)
  p_trunc_only_if_larger : bool;   (* copyFile: O_TRUNC only under  err == nil && info.Size() > size *)
  p_skip_only_if_hash_ok : bool;   (* copyFile: early return only when size and hash of the existing file match *)
  p_last_byte_protocol : bool;     (* copyFile: CopyN size-1, hash compared, then the last byte is written *)
  p_index_no_trunc : bool;         (* putIndexEntry: O_WRONLY|O_CREATE, Truncate(len(entry)) after the write *)
  p_getfile_checks_size : bool;    (* GetFile: info.Size() != entry.Size -> miss *)
  p_getbytes_checks_hash : bool;   (* GetBytes: sha256.Sum256(data) != entry.OutputID -> miss *)
  p_get_length_exact : bool;       (* get: n > entrySize -> miss, n < entrySize -> miss *)
  p_get_checks_id : bool;          (* get: buf != id -> miss *)
  p_get_rejects_negative : bool    (* get: size < 0 / tm < 0 -> miss *)
}.

Definition fmt_item_eqb (a b : fmt_item) : bool :=
  match a, b with
  | FLit s, FLit s' => if list_eq_dec N.eq_dec s s' then true else false
  | FHex, FHex => true
  | FDec w, FDec w' => N.eqb w w'
  | _, _ => false
  end.

Fixpoint list_eqb {A} (e : A -> A -> bool) (a b : list A) : bool :=
  match a, b with
  | [], [] => true
  | x :: a', y :: b' => e x y && list_eqb e a' b'
  | _, _ => false
  end.

Definition pairN_eqb (a b : N * N) := N.eqb (fst a) (fst b) && N.eqb (snd a) (snd b).

Definition layout_eqb (a b : layout) : bool :=
  N.eqb (l_hash_size a) (l_hash_size b) && N.eqb (l_hex_size a) (l_hex_size b) &&
  N.eqb (l_entry_size a) (l_entry_size b) && N.eqb (l_read_len a) (l_read_len b) &&
  list_eqb fmt_item_eqb (l_format a) (l_format b) &&
  list_eqb Nat.eqb (l_format_args a) (l_format_args b) &&
  list_eqb pairN_eqb (l_header a) (l_header b) &&
  list_eqb pairN_eqb (l_slices a) (l_slices b).

Definition protocol_eqb (a b : protocol) : bool :=
  Bool.eqb (p_data_before_index a) (p_data_before_index b) &&
  Bool.eqb (p_trunc_only_if_larger a) (p_trunc_only_if_larger b) &&
  Bool.eqb (p_skip_only_if_hash_ok a) (p_skip_only_if_hash_ok b) &&
  Bool.eqb (p_last_byte_protocol a) (p_last_byte_protocol b) &&
  Bool.eqb (p_index_no_trunc a) (p_index_no_trunc b) &&
  Bool.eqb (p_getfile_checks_size a) (p_getfile_checks_size b) &&
  Bool.eqb (p_getbytes_checks_hash a) (p_getbytes_checks_hash b) &&
  Bool.eqb (p_get_length_exact a) (p_get_length_exact b) &&
  Bool.eqb (p_get_checks_id a) (p_get_checks_id b) &&
  Bool.eqb (p_get_rejects_negative a) (p_get_rejects_negative b).
