(* C17 — model of the variant merge in /repo/lintcmd/lint.go:lint
     used := map[unusedKey]bool{}; var unuseds []unusedPair
     for each result (package variant), in runner order:
        for obj in Unused.Used:    used[key(obj)] = true
        if U1000 allowed for that package:
           for obj in Unused.Unused: unuseds = append(unuseds, {key,obj}); if key not in used { used[key] = false }
     for uo in unuseds: if used[uo.key] continue; emit "<kind> <name> is unused" at uo.obj.DisplayPosition
   unusedKey = (pkgPath, filepath.Base(obj.Position.Filename), obj.Position.Line, obj.Name).
   Definitions only. *)
From Coq Require Import String Ascii List NArith Bool.
Import ListNotations.
Local Open Scope string_scope.

Record uobj := mkObj {
  o_file : string;       (* Position.Filename (raw position: what the merge key is built from) *)
  o_line : N;
  o_col : N;
  o_name : string;       (* Object.Name, e.g. "(*T).m" *)
  o_kind : string;
  o_dfile : string;      (* DisplayPosition (differs from Position under //line directives): where the problem is printed *)
  o_dline : N;
  o_dcol : N
}.

Record vresult := mkRes {
  r_pkg : string;        (* res.Package.PkgPath *)
  r_allowed : bool;      (* allowedAnalyzers["U1000"] for this package *)
  r_used : list uobj;    (* resd.Unused.Used *)
  r_unused : list uobj   (* resd.Unused.Unused *)
}.

(* filepath.Base for the paths that occur (absolute, '/'-separated, no trailing slash) *)
Fixpoint basename_aux (s acc : string) : string :=
  match s with
  | EmptyString => acc
  | String c r => if Ascii.eqb c "/"%char then basename_aux r EmptyString
                  else basename_aux r (acc ++ String c EmptyString)
  end.
Definition basename (s : string) : string := basename_aux s EmptyString.

Definition ukey := (string * string * N * string)%type.
Definition key_of (pkg : string) (o : uobj) : ukey := (pkg, basename (o_file o), o_line o, o_name o).
Definition key_eqb (a b : ukey) : bool :=
  match a, b with (p1, f1, l1, n1), (p2, f2, l2, n2) =>
    String.eqb p1 p2 && String.eqb f1 f2 && N.eqb l1 l2 && String.eqb n1 n2 end.

(* the Go map used, as an association list with shadowing *)
Definition umap := list (ukey * bool).
Fixpoint mget (m : umap) (k : ukey) : option bool :=
  match m with [] => None | (k', b) :: r => if key_eqb k k' then Some b else mget r k end.
Definition mset (m : umap) (k : ukey) (b : bool) : umap := (k, b) :: m.
Definition mtrue (m : umap) (k : ukey) : bool := match mget m k with Some true => true | _ => false end.

Definition step_used (pkg : string) (m : umap) (o : uobj) : umap := mset m (key_of pkg o) true.
Definition step_unused (pkg : string) (st : umap * list (ukey * uobj)) (o : uobj) : umap * list (ukey * uobj) :=
  let k := key_of pkg o in
  (match mget (fst st) k with Some _ => fst st | None => mset (fst st) k false end, (snd st ++ [(k, o)])%list).
Definition step_result (st : umap * list (ukey * uobj)) (r : vresult) : umap * list (ukey * uobj) :=
  let m1 := fold_left (step_used (r_pkg r)) (r_used r) (fst st) in
  if r_allowed r then fold_left (step_unused (r_pkg r)) (r_unused r) (m1, snd st) else (m1, snd st).

(* the objects for which lint emits a U1000 problem, in emission order *)
Definition merge_impl (rs : list vresult) : list (ukey * uobj) :=
  let st := fold_left step_result rs ([], []) in
  filter (fun uo => negb (mtrue (fst st) (fst uo))) (snd st).

(* specification: per variant with U1000 enabled, its unused objects whose key no variant lists as used *)
Definition used_somewhere (rs : list vresult) (k : ukey) : bool :=
  existsb (fun r => existsb (fun o => key_eqb k (key_of (r_pkg r) o)) (r_used r)) rs.
Definition unused_pairs (r : vresult) : list (ukey * uobj) :=
  if r_allowed r then map (fun o => (key_of (r_pkg r) o, o)) (r_unused r) else [].
Definition merge_spec (rs : list vresult) : list (ukey * uobj) :=
  filter (fun uo => negb (used_somewhere rs (fst uo))) (flat_map unused_pairs rs).

(* what the CLI prints for one emitted pair: position and message *)
Definition problem := (string * N * N * string)%type.
Definition problem_of (uo : ukey * uobj) : problem :=
  let o := snd uo in (o_dfile o, o_dline o, o_dcol o, o_kind o ++ " " ++ o_name o ++ " is unused").
Definition problem_eqb (a b : problem) : bool :=
  match a, b with (f1, l1, c1, m1), (f2, l2, c2, m2) =>
    String.eqb f1 f2 && N.eqb l1 l2 && N.eqb c1 c2 && String.eqb m1 m2 end.
Definition predicted (rs : list vresult) : list problem := map problem_of (merge_impl rs).

(* differences between the predicted and the observed problem SETS *)
Definition set_diff (a b : list problem) : list problem :=
  filter (fun x => negb (existsb (problem_eqb x) b)) a.
