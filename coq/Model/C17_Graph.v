(* C17 / C07 — shared model of the use/own graph of unused (U1000).
   Definitions only.  Mirrors /repo/unused/unused.go:
     Node{id; obj; uses; owns}              -> graph / cgraph
     SerializedGraph.color (recursive DFS from node 0 along uses)      -> dfs / seen_set
     colorAndQuieten's quieten (owns-closure below every unseen node)  -> quiet_set
     Results (partition of nodes[1:] into Used / Quiet / Unused)       -> verdict / results
   Node ids are N (binary, so that graphs of some thousand nodes evaluate under vm_compute); the visited set is kept
   twice: as a list (what the theorems talk about) and as a PositiveSet mirror used only for the membership test. *)
From Coq Require Import List NArith PArith Bool MSets.MSetPositive.
Import ListNotations.
Open Scope N_scope.

Definition node := N.

Record graph := mkGraph {
  gn : N;                        (* number of nodes; ids are 0 .. gn-1, 0 is the root *)
  guses : node -> list node;
  gowns : node -> list node
}.

(* ---------------------------------------------------------------- visited sets *)
Definition vkey (x : N) : positive := N.succ_pos x.
Definition vis := (list N * PositiveSet.t)%type.
Definition vmem (x : N) (v : vis) : bool := PositiveSet.mem (vkey x) (snd v).
Definition vadd (x : N) (v : vis) : vis := (x :: fst v, PositiveSet.add (vkey x) (snd v)).
Definition vempty : vis := ([], PositiveSet.empty).

(* ---------------------------------------------------------------- reachability
   dfs is SerializedGraph.color: "if seen return; mark seen; for each successor recurse".
   fuel bounds the recursion DEPTH; S n is always enough (Proofs/C17_Graph.v: dfs_spec), so no result of
   reach_from ever depends on the fuel-exhausted branch.  Ids >= n (never produced by the implementation) are ignored. *)
Fixpoint dfs (n : N) (succ : node -> list node) (fuel : nat) (x : node) (v : vis) : vis :=
  match fuel with
  | O => v
  | S f =>
      if negb (x <? n) || vmem x v then v
      else fold_left (fun v' y => dfs n succ f y v') (succ x) (vadd x v)
  end.

Definition reach_from (n : N) (succ : node -> list node) (srcs : list node) : vis :=
  fold_left (fun v y => dfs n succ (S (N.to_nat n)) y v) srcs vempty.

Definition all_nodes (n : N) : list node := map N.of_nat (seq 0 (N.to_nat n)).

Definition seen_set (g : graph) : vis := reach_from (gn g) (guses g) [0].

(* sources of quieting: everything owned by a node that is not seen *)
Definition quiet_sources (g : graph) (seen : vis) : list node :=
  flat_map (fun u => if vmem u seen then [] else gowns g u) (all_nodes (gn g)).
Definition quiet_set_of (g : graph) (seen : vis) : vis := reach_from (gn g) (gowns g) (quiet_sources g seen).
Definition quiet_set (g : graph) : vis := quiet_set_of g (seen_set g).

Definition seenb (g : graph) (x : node) : bool := vmem x (seen_set g).
Definition quietb (g : graph) (x : node) : bool := vmem x (quiet_set g).

Inductive verdictT := Used | Quiet | Unused.
Definition verdict_eqb (a b : verdictT) : bool :=
  match a, b with Used, Used | Quiet, Quiet | Unused, Unused => true | _, _ => false end.

Definition verdict_of (seen quiet : vis) (x : node) : verdictT :=
  if vmem x seen then Used else if vmem x quiet then Quiet else Unused.
Definition verdict (g : graph) (x : node) : verdictT := verdict_of (seen_set g) (quiet_set g) x.

(* all verdicts at once (the two closures are computed once) *)
Definition verdicts (g : graph) : list verdictT :=
  let s := seen_set g in let q := quiet_set_of g s in
  map (verdict_of s q) (all_nodes (gn g)).

(* ---------------------------------------------------------------- concrete graphs (what the hook exports) *)
Definition cgraph := list (list node * list node).       (* index = node id: (uses, owns) *)
Definition cuses (c : cgraph) (x : node) : list node := fst (nth (N.to_nat x) c ([], [])).
Definition cowns (c : cgraph) (x : node) : list node := snd (nth (N.to_nat x) c ([], [])).
Definition of_cgraph (c : cgraph) : graph := mkGraph (N.of_nat (length c)) (cuses c) (cowns c).

Definition memN (x : N) (l : list N) : bool := existsb (N.eqb x) l.
Definition cgraph_wf (c : cgraph) : bool :=
  let n := N.of_nat (length c) in
  negb (n =? 0) && forallb (fun uo => forallb (fun y => y <? n) (fst uo) && forallb (fun y => y <? n) (snd uo)) c.

(* Results(): nodes[1:] in order, each into exactly one of the three lists; objects are given as labels *)
Definition labelled := list (N * (list node * list node)).    (* label of the node's Object, (uses, owns) *)
Definition strip (l : labelled) : cgraph := map snd l.
Definition results (l : labelled) : list N * list N * list N :=
  let vs := verdicts (of_cgraph (strip l)) in
  let lv := tl (combine (map fst l) vs) in
  let pick k := map fst (filter (fun p => verdict_eqb (snd p) k) lv) in
  (pick Used, pick Unused, pick Quiet).

(* ---------------------------------------------------------------- specification-level relations *)
Section Reach.
  Variable n : N.
  Variable succ : node -> list node.
  Variable src : node -> Prop.
  (* reachability inside 0..n-1 from a set of sources *)
  Inductive reachN : node -> Prop :=
  | reach_src : forall x, src x -> x < n -> reachN x
  | reach_step : forall x y, reachN x -> In y (succ x) -> y < n -> reachN y.
End Reach.

Definition seen (g : graph) (x : node) : Prop := reachN (gn g) (guses g) (eq 0) x.
Definition quiet_src (g : graph) (y : node) : Prop := exists u, u < gn g /\ ~ seen g u /\ In y (gowns g u).
(* quiet x  <->  some node that is not seen owns+ x *)
Definition quiet (g : graph) (x : node) : Prop := reachN (gn g) (gowns g) (quiet_src g) x.

(* owns* / owns+ as relations *)
Inductive owns_star (g : graph) : node -> node -> Prop :=
| os_refl : forall x, owns_star g x x
| os_step : forall x y z, owns_star g x y -> In z (gowns g y) -> z < gn g -> owns_star g x z.
Definition owns_plus (g : graph) (u v : node) : Prop :=
  exists w, In w (gowns g u) /\ w < gn g /\ owns_star g w v.
