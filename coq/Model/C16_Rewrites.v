(* C16 rewrite catalogue, definitions: a small typed expression / statement language whose evaluation
   yields (trace of events, final store, result-or-panic).  Sub-expressions may be ARBITRARY
   denotations ([IOp]/[BOp]/[FOp]/[SOp]): any effect on the store, any events, any panic; the
   equivalence lemmas in Proofs/C16_Rewrites.v quantify over them, so evaluation order and the
   number of times a sub-expression runs are observable. *)
From Coq Require Import List Arith Bool ZArith.
Import ListNotations.
Local Open Scope Z_scope.

(* ---------- stores: concrete data, so that equality of outcomes is plain Leibniz equality ---------- *)
Fixpoint upd {A} (d : A) (l : list A) (x : nat) (v : A) : list A :=
  match x, l with
  | O, [] => [v]
  | O, _ :: r => v :: r
  | S k, [] => d :: upd d [] k v
  | S k, a :: r => a :: upd d r k v
  end.

Record store := mkStore {
  si : list Z;            (* integer variables *)
  sb : list bool;         (* boolean variables *)
  sm : list (Z * Z)       (* ONE map variable m : map[int]int, as an association list without order meaning *)
}.
Definition geti (s : store) (x : nat) : Z := nth x (si s) 0.
Definition getb (s : store) (x : nat) : bool := nth x (sb s) false.
Definition seti (s : store) (x : nat) (v : Z) : store := mkStore (upd 0 (si s) x v) (sb s) (sm s).
Definition setb (s : store) (x : nat) (v : bool) : store := mkStore (si s) (upd false (sb s) x v) (sm s).
Fixpoint mlookup (m : list (Z * Z)) (k : Z) : option Z :=
  match m with
  | [] => None
  | (k', v) :: r => if Z.eqb k k' then Some v else mlookup r k
  end.
Definition mdelete (m : list (Z * Z)) (k : Z) : list (Z * Z) := filter (fun kv => negb (Z.eqb k (fst kv))) m.
Definition mset (m : list (Z * Z)) (k v : Z) : list (Z * Z) := (k, v) :: mdelete m k.
Definition setm (s : store) (m : list (Z * Z)) : store := mkStore (si s) (sb s) m.

(* ---------- outcomes ---------- *)
Inductive event := Ev (id : nat) (payload : Z).
Definition trace := list event.
(* result None = run-time panic; the trace and store reached before the panic stay observable *)
Definition den (A : Type) := store -> trace * store * option A.

Definition ret {A} (a : A) : den A := fun s => ([], s, Some a).
Definition bind {A B} (m : den A) (k : A -> den B) : den B :=
  fun s => match m s with
           | (t1, s1, None) => (t1, s1, None)
           | (t1, s1, Some a) => match k a s1 with (t2, s2, r) => (t1 ++ t2, s2, r) end
           end.
Definition panic {A} : den A := fun s => ([], s, None).
Definition deq {A} (m1 m2 : den A) : Prop := forall s, m1 s = m2 s.

(* ---------- "floats": just enough to have an unordered value ---------- *)
Inductive fl := FNaN | FNum (z : Z).
Inductive cmp := Eq | Ne | Lt | Le | Gt | Ge.
Definition cmpZ (o : cmp) (a b : Z) : bool :=
  match o with
  | Eq => a =? b | Ne => negb (a =? b) | Lt => a <? b | Le => a <=? b | Gt => b <? a | Ge => b <=? a
  end.
Definition cmpF (o : cmp) (a b : fl) : bool :=
  match a, b with
  | FNum x, FNum y => cmpZ o x y
  | _, _ => match o with Ne => true | _ => false end     (* IEEE: every comparison with NaN is false, != is true *)
  end.
Definition neg_cmp (o : cmp) : cmp :=
  match o with Eq => Ne | Ne => Eq | Lt => Ge | Ge => Lt | Gt => Le | Le => Gt end.

(* ---------- expressions ---------- *)
Inductive iop := Add | Sub | Mul | Div.
Inductive iexpr :=
| ILit (z : Z)
| IVar (x : nat)
| IOp (d : den Z)                      (* any integer sub-expression with side effects / panics *)
| IBin (o : iop) (a b : iexpr)
| IParen (a : iexpr).
Inductive fexpr := FLit (v : fl) | FOp (d : den fl).
Inductive bexpr :=
| BLit (b : bool)
| BVar (x : nat)
| BOp (d : den bool)                   (* any boolean sub-expression with side effects / panics *)
| BNot (a : bexpr)
| BAnd (a b : bexpr)                   (* short-circuit *)
| BOr (a b : bexpr)
| BCmpI (o : cmp) (a b : iexpr)
| BCmpF (o : cmp) (a b : fexpr)
| BCmpB (eq : bool) (a b : bexpr)      (* a == b (eq = true) or a != b on booleans *)
| BParen (a : bexpr).

Definition arith (o : iop) (a b : Z) : den Z :=
  match o with
  | Add => ret (a + b) | Sub => ret (a - b) | Mul => ret (a * b)
  | Div => if b =? 0 then panic else ret (Z.quot a b)
  end.

(* operands are evaluated left to right (Go spec: order of evaluation of calls / receives / logical ops) *)
Fixpoint ieval (e : iexpr) : den Z :=
  match e with
  | ILit z => ret z
  | IVar x => fun s => ([], s, Some (geti s x))
  | IOp d => d
  | IBin o a b => bind (ieval a) (fun x => bind (ieval b) (fun y => arith o x y))
  | IParen a => ieval a
  end.
Definition feval (e : fexpr) : den fl := match e with FLit v => ret v | FOp d => d end.
Fixpoint beval (e : bexpr) : den bool :=
  match e with
  | BLit b => ret b
  | BVar x => fun s => ([], s, Some (getb s x))
  | BOp d => d
  | BNot a => bind (beval a) (fun x => ret (negb x))
  | BAnd a b => bind (beval a) (fun x => if x then beval b else ret false)
  | BOr a b => bind (beval a) (fun x => if x then ret true else beval b)
  | BCmpI o a b => bind (ieval a) (fun x => bind (ieval b) (fun y => ret (cmpZ o x y)))
  | BCmpF o a b => bind (feval a) (fun x => bind (feval b) (fun y => ret (cmpF o x y)))
  | BCmpB eq a b => bind (beval a) (fun x => bind (beval b) (fun y => ret (if eq then Bool.eqb x y else xorb x y)))
  | BParen a => beval a
  end.

(* ---------- the rewriting functions of the analyzers, transcribed ---------- *)
(* go/ast/astutil.NegateDeMorgan (used by QF1001 and QF1006) *)
Fixpoint negate (recursive : bool) (e : bexpr) : bexpr :=
  match e with
  | BCmpI o a b => BCmpI (neg_cmp o) a b
  | BCmpF o a b => BCmpF (neg_cmp o) a b
  | BCmpB eq a b => BCmpB (negb eq) a b
  | BAnd a b => BOr (negate recursive a) (negate recursive b)
  | BOr a b => BAnd (negate recursive a) (negate recursive b)
  | BParen a => if recursive then BParen (negate recursive a) else BNot (BParen a)
  | BNot a => a
  | other => BNot other
  end.
(* QF1001 refuses expressions with any float-typed sub-expression (hasFloats); QF1006 does not *)
Fixpoint no_float_cmp (e : bexpr) : bool :=
  match e with
  | BCmpF _ _ _ => false
  | BNot a | BParen a => no_float_cmp a
  | BAnd a b | BOr a b | BCmpB _ a b => no_float_cmp a && no_float_cmp b
  | _ => true
  end.

(* S1002: "!" is prepended for (== false) / (!= true), then pairs of leading "!" are cancelled *)
Fixpoint strip_nots (e : bexpr) : nat * bexpr :=
  match e with
  | BNot a => let (n, c) := strip_nots a in (S n, c)
  | _ => (O, e)
  end.
Definition s1002_fix (eqop val : bool) (other : bexpr) : bexpr :=
  let e := if Bool.eqb eqop val then other else BNot other in
  let (n, c) := strip_nots e in
  if Nat.odd n then BNot c else c.

(* SimplifyParentheses (QF1001 "& simplify", QF1005): a op (b op c)  ~>  (a op b) op c for EVERY operator *)
Definition rotate_i (o : iop) (a b c : iexpr) : iexpr * iexpr :=
  (IBin o a (IParen (IBin o b c)), IBin o (IBin o a b) c).

(* "TrulyConstantExpression": literals combined without division *)
Fixpoint iconst (e : iexpr) : bool :=
  match e with
  | ILit _ => true
  | IBin Div _ _ => false
  | IBin _ a b => iconst a && iconst b
  | IParen a => iconst a
  | _ => false
  end.
(* no opaque sub-expression and no division: evaluation has no event, no store change, no panic *)
Fixpoint ipure (e : iexpr) : bool :=
  match e with
  | ILit _ | IVar _ => true
  | IOp _ => false
  | IBin Div _ _ => false
  | IBin _ a b => ipure a && ipure b
  | IParen a => ipure a
  end.

(* ---------- statements ---------- *)
Inductive sres := RNormal | RBreak | RReturnB (b : bool) | RReturnI (z : Z) | ROutOfFuel.
Inductive stmt :=
| SSkip
| SOp (d : den sres)                   (* any statement *)
| SExprI (e : iexpr)                   (* expression statement, value dropped *)
| SBlankI (e : iexpr)                  (* _ = e *)
| SAssignI (x : nat) (e : iexpr)
| SAssignB (x : nat) (e : bexpr)
| SIncr (x : nat)                      (* x++ *)
| SAddAssign (x : nat) (e : iexpr)     (* x += e *)
| SSeq (a b : stmt)
| SIf (c : bexpr) (t e : stmt)
| SReturnB (e : bexpr)
| SBreak
| SFor (fuel : nat) (c : option bexpr) (body : stmt)        (* for c { body } / for { body }, at most fuel iterations *)
| SDelete (k : iexpr)                                       (* delete(m, k) *)
| SGuardedDelete (k : iexpr)                                (* if _, ok := m[k]; ok { delete(m, k) } *)
| SMapIncr (k : iexpr)                                      (* m[k]++ *)
| SGuardedMapIncr (k : iexpr).                              (* if _, ok := m[k]; ok { m[k]++ } else { m[k] = 1 } *)

Definition seqr (r : sres) (k : den sres) : den sres :=
  match r with RNormal => k | _ => ret r end.

Fixpoint loop (fuel : nat) (cond : den bool) (body : den sres) : den sres :=
  match fuel with
  | O => ret ROutOfFuel
  | S n => bind cond (fun c => if c then bind body (fun r => match r with
                                                             | RNormal => loop n cond body
                                                             | RBreak => ret RNormal
                                                             | _ => ret r
                                                             end)
                              else ret RNormal)
  end.

Definition map_incr (k : Z) : den sres :=
  fun s => ([], setm s (mset (sm s) k (match mlookup (sm s) k with Some v => v + 1 | None => 1 end)), Some RNormal).

Fixpoint sexec (st : stmt) : den sres :=
  match st with
  | SSkip => ret RNormal
  | SOp d => d
  | SExprI e => bind (ieval e) (fun _ => ret RNormal)
  | SBlankI e => bind (ieval e) (fun _ => ret RNormal)
  | SAssignI x e => bind (ieval e) (fun v s => ([], seti s x v, Some RNormal))
  | SAssignB x e => bind (beval e) (fun v s => ([], setb s x v, Some RNormal))
  | SIncr x => fun s => ([], seti s x (geti s x + 1), Some RNormal)
  | SAddAssign x e => bind (fun s => ([], s, Some (geti s x))) (fun old => bind (ieval e) (fun v s => ([], seti s x (old + v), Some RNormal)))
  | SSeq a b => bind (sexec a) (fun r => seqr r (sexec b))
  | SIf c t e => bind (beval c) (fun b => if b then sexec t else sexec e)
  | SReturnB e => bind (beval e) (fun b => ret (RReturnB b))
  | SBreak => ret RBreak
  | SFor fuel c body => loop fuel (match c with Some c => beval c | None => ret true end) (sexec body)
  | SDelete k => bind (ieval k) (fun kv s => ([], setm s (mdelete (sm s) kv), Some RNormal))
  | SGuardedDelete k =>
      bind (ieval k) (fun k1 s =>
        match mlookup (sm s) k1 with
        | Some _ => bind (ieval k) (fun k2 s' => ([], setm s' (mdelete (sm s') k2), Some RNormal)) s
        | None => ([], s, Some RNormal)
        end)
  | SMapIncr k => bind (ieval k) map_incr
  | SGuardedMapIncr k =>
      bind (ieval k) (fun k1 s =>
        match mlookup (sm s) k1 with
        | Some _ => bind (ieval k) map_incr s
        | None => bind (ieval k) (fun k2 s' => ([], setm s' (mset (sm s') k2 1), Some RNormal)) s
        end)
  end.

(* a boolean expression that neither reads nor writes boolean variable x (semantic statement, so that it
   also covers opaque sub-expressions) *)
Definition indep_b (c : bexpr) (x : nat) : Prop :=
  forall s v, beval c (setb s x v) = match beval c s with (t, s', r) => (t, setb s' x v, r) end.
Definition indep_i (e : iexpr) (x : nat) : Prop :=
  forall s v, ieval e (seti s x v) = match ieval e s with (t, s', r) => (t, seti s' x v, r) end.
