(* C01: abbreviations used by the serialiser (harness/cmd/hc01/ser.go) to keep the generated program
   terms small; plain definitions, unfolded by computation. *)
From Coq Require Import List ZArith NArith PArith Bool.
Import ListNotations.
Require Import Verif.Model.C01_IRSem.

Definition r (n : positive) : operand := OReg n.
Definition ci (z : Z) : operand := OConst (VInt z).
Definition ct : operand := OConst (VBool true).
Definition cf : operand := OConst (VBool false).
Definition cs (s : list N) : operand := OConst (VStr s).
Definition cv (v : value) : operand := OConst v.
Definition gl (g : positive) : operand := OGlobal g.
Definition fu (f : N) : operand := OFunc f.

Definition i64 := KInt (IK true 64).
Definition i32 := KInt (IK true 32).
Definition i16 := KInt (IK true 16).
Definition i8 := KInt (IK true 8).
Definition u64 := KInt (IK false 64).
Definition u32 := KInt (IK false 32).
Definition u16 := KInt (IK false 16).
Definition u8 := KInt (IK false 8).

Definition za (n : N) (z : value) : value := VAgg (repeatN z (N.to_nat n)).
Definition zi (n : N) : value := za n (VInt 0).
Definition vnil : value := VPtr None.
Definition snil : value := VSlice None 0 0 0.

Definition o (d : positive) (op : opcode) (args : list operand) : instr := IOp (Some d) op args.
Definition e (op : opcode) (args : list operand) : instr := IOp None op args.
Definition bin (d : positive) (b : binop) (k yk : okind) (x y : operand) : instr := IOp (Some d) (OpBin b k yk) [x; y].
Definition un (d : positive) (u : unop) (k : okind) (x : operand) : instr := IOp (Some d) (OpUn u k) [x].
Definition ld (d : positive) (a : operand) : instr := IOp (Some d) OpLoad [a].
Definition st (a v : operand) : instr := IOp None OpStore [a; v].
Definition al (d : positive) (h : bool) (z : value) : instr := IOp (Some d) (OpAlloc h z) [].
Definition fa (d : positive) (f : N) (x : operand) : instr := IOp (Some d) (OpFieldAddr f) [x].
Definition fd (d : positive) (f : N) (x : operand) : instr := IOp (Some d) (OpField f) [x].
Definition ia (d : positive) (k : seqkind) (x i : operand) : instr := IOp (Some d) (OpIndexAddr k) [x; i].
Definition ix (d : positive) (k : seqkind) (x i : operand) : instr := IOp (Some d) (OpIndex k) [x; i].
Definition ex (d : positive) (i : N) (x : operand) : instr := IOp (Some d) (OpExtract i) [x].
Definition cnv (d : positive) (f t : ckind) (x : operand) : instr := IOp (Some d) (OpConvert f t) [x].
Definition bi (d : positive) (b : builtin) (args : list operand) : instr := IOp (Some d) (OpBuiltin b) args.
Definition cl (d : positive) (f : N) (args : list operand) : instr := ICall (Some d) (CStatic f) args.
Definition cvl (d : positive) (args : list operand) : instr := ICall (Some d) CValue args.
Definition ph (d : positive) (edges : list operand) : instr := IPhi d edges.
Definition jp : instr := IJump.
Definition br (c : operand) : instr := IIf c.
Definition rt (rs : list operand) : instr := IReturn rs.
Definition blk (preds succs : list N) (code : list instr) : block := mkBlock preds succs code.
