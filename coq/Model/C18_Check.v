(* C18 — executable checks: replay of recorded event logs, the property predicate on observed logs,
   shape obligations on the extracted statements. Definitions only. *)
From Coq Require Import List Arith NArith Bool String.
Import ListNotations.
Require Import Verif.Model.C18_Types Verif.Model.C18 Verif.Model.C18_Sync.

(* ---------- replay: is the recorded log a run of the model? ---------- *)
Fixpoint first_rejected (s : state) (tr : list label) (i : nat) : option (nat * label) :=
  match tr with
  | [] => None
  | l :: r => if guard s l then first_rejected (effect s l) r (S i) else Some (i, l)
  end.

Definition apply_all (s : state) (tr : list label) : state := fold_left effect tr s.

(* ---------- the property predicate evaluated on the log itself (guards are NOT consulted):
   when a wait on x returns, every task reachable from x in the FINAL edge relation is done at that
   moment, and every shared function ever owned by such a task is built at that moment. ---------- *)
Fixpoint add_new (seen : list task) (ys : list task) : list task * list task :=
  match ys with
  | [] => (seen, [])
  | y :: r => if memb y seen then add_new seen r
              else let '(seen', new) := add_new (seen ++ [y]) r in (seen', y :: new)
  end.

Fixpoint bfs (E : task -> list task) (fuel : nat) (work seen : list task) : list task :=
  match fuel with
  | 0 => seen
  | S n =>
      match work with
      | [] => seen
      | u :: r => let '(seen', new) := add_new seen (E u) in bfs E n (r ++ new) seen'
      end
  end.

Definition reachable (E : task -> list task) (fuel : nat) (x : task) : list task := bfs E fuel [x] [x].

Inductive viol :=
| VUndone (ev : nat) (w : id) (x : task) (undone : list task)        (* wait returned, these reachable tasks were not done *)
| VUnbuilt (ev : nat) (w : id) (x : task) (unbuilt : list id)       (* ... these shared functions of reachable builders were not built *)
| VBuiltTwice (ev : nat) (f : id)                                     (* a function body was built a second time *)
| VEdgeAfterDone (ev : nat) (x y : task).                              (* an edge was added to a task already done: it can be missed by a waiter *)

Fixpoint scan (final : state) (fuel : nat) (s : state) (tr : list label) (i : nat) : list viol :=
  match tr with
  | [] => []
  | l :: r =>
      let here :=
        match l with
        | LWaitFast w x | LWaitClosed w x =>
            let rs := reachable (edges final) fuel x in
            let undone := filter (fun y => negb (done s y)) rs in
            let unbuilt := map fst (filter (fun ft => negb (built s (fst ft))) (filter (fun ft => memb (snd ft) rs) (fns final))) in
            (if match undone with [] => true | _ => false end then [] else [VUndone i w x undone]) ++
            (if match unbuilt with [] => true | _ => false end then [] else [VUnbuilt i w x unbuilt])
        | LBuilt f => if built s f then [VBuiltTwice i f] else []
        | LAddEdge x y => if done s x then [VEdgeAfterDone i x y] else []
        | _ => []
        end in
      here ++ scan final fuel (effect s l) r (S i)
  end.

Definition trace_violations (tr : list label) : list viol :=
  scan (apply_all init tr) (S (List.length tr)) init tr 0.

(* a package's guarded build body ran more than once *)
Fixpoint dups (l : list id) : list id :=
  match l with
  | [] => []
  | x :: r => if memb x r then x :: dups r else dups r
  end.

Record obs := mkObs {
  o_trace : list label;          (* task/builder events of one program build, in log order *)
  o_pkgbuilds : list id         (* package numbers, one entry per run of Package.build's body *)
}.

Definition mismatches (cases : list obs) : list (nat * nat * label) :=
  flat_map (fun ic => match first_rejected init (o_trace (snd ic)) 0 with
                      | Some (i, l) => [(fst ic, i, l)]
                      | None => []
                      end)
           (combine (seq 0 (List.length cases)) cases).

Definition violations (cases : list obs) : list (nat * list viol * list id) :=
  flat_map (fun ic => let v := trace_violations (o_trace (snd ic)) in
                      let d := dups (o_pkgbuilds (snd ic)) in
                      match v, d with [], [] => [] | _, _ => [(fst ic, v, d)] end)
           (combine (seq 0 (List.length cases)) cases).

(* number of wait returns that had to cross at least one edge: the non-trivial part of the logs *)
Definition nontrivial_waits (cases : list obs) : nat :=
  list_sum (map (fun c => List.length (filter (fun l => match l with LWaitObserve _ _ (_ :: _) => true | _ => false end) (o_trace c))) cases).

(* ---------- shape obligations on the extracted statements ---------- *)
Definition contains (pat s : string) : bool :=
  match index 0 pat s with Some _ => true | None => false end.

(* (p *Package) Build() { p.buildOnce.Do(p.build) }, buildOnce is a sync.Once, nothing else refers to p.build *)
Definition once_guard_ok (stmts : list string) (recv oncety : string) (refs : nat) : bool :=
  list_string_eqb stmts [(recv ++ ".buildOnce.Do(" ++ recv ++ ".build)")%string]
  && String.eqb oncety "sync.Once" && Nat.eqb refs 1.

(* iterate: build everything enqueued, THEN markDone, THEN wait; buildFunction: body, then done() *)
Definition iterate_ok (stmts calls : list string) : bool :=
  match stmts with
  | [loop; md; wt] =>
      prefix "for " loop && contains "b.buildFunction(" loop
      && String.eqb md "b.buildshared.markDone()" && String.eqb wt "b.buildshared.wait()"
  | _ => false
  end
  && list_string_eqb calls ["fn.build(b, fn)"; "fn.done()"]%string.

(* go/ir/task.go as transcribed by Model/C18.v: struct task and its five functions, statement by statement
   (verif hook calls removed, comments dropped). [guard]/[effect] mirror exactly this text:
   - isTransitivelyDone: nil task or flag                      -> trans (task 0 is transitively done in init)
   - addEdge: early return iff x == y or y transitively done   -> LAddSkip; panic when x is done -> guard of LAddEdge
   - markDone: close(x.done)                                   -> LMarkDone
   - wait: fast path; loop over work with skip / <-u.done / enqueue of u.edges; then transitive.Store -> LWait*  *)
Open Scope string_scope.
Definition expected_task_source : list (string * list string) :=
  [ ("isTransitivelyDone", ["return x == nil || x.transitive.Load()"]);
    ("addEdge", ["if x == y || y.isTransitivelyDone() { return }"; "select { case <-x.done: panic(""cannot add an edge to a done task"") default: }"; "if x.edges == nil { x.edges = make(map[*task]unit) }"; "x.edges[y] = unit{}"]);
    ("markDone", ["if x != nil { close(x.done) }"]);
    ("wait", ["if x.isTransitivelyDone() { return }"; "work := []*task{x}"; "enqueued := map[*task]unit{x: {}}"; "for i := 0; i < len(work); i++ { u := work[i] if u.isTransitivelyDone() { work[i] = nil continue } <-u.done for v := range u.edges { if _, ok := enqueued[v]; !ok { enqueued[v] = unit{} work = append(work, v) } } }"; "for _, u := range work { if u != nil { x.transitive.Store(true) } }"]);
    ("type task", ["done chan unit"; "edges map[*task]unit"; "transitive atomic.Bool"]) ].

Close Scope string_scope.

Definition entry_eqb (a b : string * list string) : bool :=
  String.eqb (fst a) (fst b) && list_string_eqb (snd a) (snd b).

Fixpoint entries_eqb (a b : list (string * list string)) : bool :=
  match a, b with
  | [], [] => true
  | x :: a', y :: b' => entry_eqb x y && entries_eqb a' b'
  | _, _ => false
  end.

Definition task_source_ok (src : list (string * list string)) : bool := entries_eqb src expected_task_source.

(* the functions of task.go whose text is not the transcribed one (for the report) *)
Definition task_source_diff (src : list (string * list string)) : list string :=
  map fst (filter (fun e => negb (existsb (entry_eqb e) expected_task_source)) src) ++
  map fst (filter (fun e => negb (existsb (entry_eqb e) src)) expected_task_source).
