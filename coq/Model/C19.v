(* C19: executable model of
     go/gcsizes/sizes.go            (Sizeof, Alignof, Offsetsof, align)
     cmd/structlayout/main.go       (sizes)
     cmd/structlayout-optimize      (combine, byAlignAndSize.Less, optimize, offsetsof, pad, size)
   and, independently, the layout rules of the gc compiler (cmd/compile/internal/types.CalcSize) as the
   reference specification.  Definitions only; proofs are in Proofs/C19*.v. *)
From Coq Require Import List ZArith Bool.
Import ListNotations.
Require Import Verif.Model.C19_Types Verif.Gen.C19_BasicSizes Verif.Gen.C19_Optimize.
Open Scope Z_scope.

(* ---------------------------------------------------------------------------------------------- tables *)
Record tables := mkT { t_basic : list (basic * Z); t_string : Z; t_slice : Z; t_iface : Z; t_catchall : Z }.
Definition gen_tables : tables :=
  mkT gen_basic_sizes gen_string_words gen_slice_words gen_iface_words gen_catchall_words.
(* what the source says today; Props/C19.v re-checks gen_tables = std_tables on every run *)
Definition std_tables : tables :=
  mkT [(KBool, 1); (KInt8, 1); (KInt16, 2); (KInt32, 4); (KInt64, 8); (KUint8, 1); (KUint16, 2); (KUint32, 4);
       (KUint64, 8); (KFloat32, 4); (KFloat64, 8); (KComplex64, 8); (KComplex128, 16)] 2 3 2 1.

Definition basic_idx (k : basic) : Z :=
  match k with
  | KBool => 1 | KInt => 2 | KInt8 => 3 | KInt16 => 4 | KInt32 => 5 | KInt64 => 6
  | KUint => 7 | KUint8 => 8 | KUint16 => 9 | KUint32 => 10 | KUint64 => 11 | KUintptr => 12
  | KFloat32 => 13 | KFloat64 => 14 | KComplex64 => 15 | KComplex128 => 16 | KString => 17 | KUnsafePointer => 18
  end.
Definition basic_eqb (a b : basic) : bool := basic_idx a =? basic_idx b.
Fixpoint lookup_basic (k : basic) (tbl : list (basic * Z)) : option Z :=
  match tbl with
  | [] => None
  | (k', s) :: r => if basic_eqb k k' then Some s else lookup_basic k r
  end.
Definition tables_eqb (x y : tables) : bool :=
  (fix eq (a b : list (basic * Z)) : bool :=
     match a, b with
     | [], [] => true
     | (k, s) :: a', (k', s') :: b' => basic_eqb k k' && (s =? s') && eq a' b'
     | _, _ => false
     end) (t_basic x) (t_basic y)
  && (t_string x =? t_string y) && (t_slice x =? t_slice y) && (t_iface x =? t_iface y) && (t_catchall x =? t_catchall y).

(* ---------------------------------------------------------------------------------------------- gcsizes *)
Definition arch := (Z * Z)%type.           (* (WordSize, MaxAlign) *)
Definition wordsize (a : arch) : Z := fst a.
Definition maxalign (a : arch) : Z := snd a.

(* align returns the smallest y >= x such that y % a == 0   (operands are never negative: Go's % = mod) *)
Definition align_up (x a : Z) : Z := let y := x + a - 1 in y - y mod a.

Definition is_complex (k : basic) : bool := match k with KComplex64 | KComplex128 => true | _ => false end.
Definition is_string (k : basic) : bool := match k with KString => true | _ => false end.

(* Sizeof, case *types.Basic, and the fall-through to the catch-all *)
Definition basic_size (T : tables) (a : arch) (k : basic) : Z :=
  let other := if is_string k then wordsize a * t_string T else wordsize a * t_catchall T in
  match lookup_basic k (t_basic T) with
  | Some s => if 0 <? s then s else other
  | None => other
  end.

(* Alignof, after the switch: a := Sizeof(T); a < 1 -> 1; complex halves; a > MaxAlign -> MaxAlign *)
Definition leaf_align (a : arch) (z : Z) (cplx : bool) : Z :=
  if z <? 1 then 1
  else let z' := if cplx then z / 2 else z in
       if maxalign a <? z' then maxalign a else z'.

(* Offsetsof over (size, align) pairs; o is the running offset *)
Fixpoint offsets_from (o : Z) (l : list (Z * Z)) : list Z :=
  match l with
  | [] => []
  | (z, al) :: r => let o' := align_up o al in o' :: offsets_from (o' + z) r
  end.
(* offsets[n-1] + Sizeof(fields[n-1]) *)
Fixpoint end_from (o : Z) (l : list (Z * Z)) : Z :=
  match l with
  | [] => o
  | (z, al) :: r => end_from (align_up o al + z) r
  end.
Definition struct_align (l : list (Z * Z)) : Z := fold_right (fun x m => Z.max (snd x) m) 1 l.
Definition last_size (l : list (Z * Z)) : Z := fst (last l (1, 1)).
Definition struct_size (l : list (Z * Z)) : Z :=
  match l with
  | [] => 0
  | _ => let z := end_from 0 l in
         let z := if (last_size l =? 0) && negb (z =? 0) then z + 1 else z in
         align_up z (struct_align l)
  end.

(* (Sizeof t, Alignof t) *)
Fixpoint sa (T : tables) (a : arch) (t : ty) : Z * Z :=
  match t with
  | TBasic k => let z := basic_size T a k in (z, leaf_align a z (is_complex k))
  | TPtr => let z := wordsize a * t_catchall T in (z, leaf_align a z false)
  | TSlice => let z := wordsize a * t_slice T in (z, leaf_align a z false)
  | TIface => let z := wordsize a * t_iface T in (z, leaf_align a z false)
  | TArray n e => let '(z, al) := sa T a e in
                  ((if n =? 0 then 0 else align_up z al * (n - 1) + z), al)
  | TStruct fs => let l := map (sa T a) fs in (struct_size l, struct_align l)
  end.
Definition sizeof T a t := fst (sa T a t).
Definition alignof T a t := snd (sa T a t).
Definition fields_of (t : ty) : list ty := match t with TStruct fs => fs | _ => [] end.
Definition offsetsof T a (t : ty) : list Z := offsets_from 0 (map (sa T a) (fields_of t)).

(* ---------------------------------------------------------------------------------------------- gc *)
(* The compiler's rules, written from cmd/compile/internal/types/size.go, independently of the code above.
   ptr = PtrSize, reg = RegSize. *)
Definition roundup (o a : Z) : Z := ((o + a - 1) / a) * a.
Definition gc_basic (ptr reg : Z) (k : basic) : Z * Z :=
  match k with
  | KBool | KInt8 | KUint8 => (1, 1)
  | KInt16 | KUint16 => (2, 2)
  | KInt32 | KUint32 | KFloat32 => (4, 4)
  | KInt64 | KUint64 | KFloat64 => (8, reg)
  | KComplex64 => (8, 4)
  | KComplex128 => (16, reg)
  | KInt | KUint | KUintptr | KUnsafePointer => (ptr, ptr)
  | KString => (2 * ptr, ptr)
  end.
Fixpoint gc_offsets (o : Z) (l : list (Z * Z)) : list Z :=
  match l with
  | [] => []
  | (w, al) :: r => roundup o al :: gc_offsets (roundup o al + w) r
  end.
Fixpoint gc_end (o : Z) (l : list (Z * Z)) : Z :=
  match l with
  | [] => o
  | (w, al) :: r => gc_end (roundup o al + w) r
  end.
Definition gc_maxalign (l : list (Z * Z)) : Z := fold_right (fun x m => Z.max (snd x) m) 1 l.
Definition gc_struct (l : list (Z * Z)) : Z * Z :=
  let o := gc_end 0 l in
  (* a non-zero-sized struct that ends in a zero-sized field gets one byte of padding (issue 9401) *)
  let o := if (0 <? o) && (fst (last l (1, 1)) =? 0) then o + 1 else o in
  (roundup o (gc_maxalign l), gc_maxalign l).
Fixpoint gc_sa (ptr reg : Z) (t : ty) : Z * Z :=
  match t with
  | TBasic k => gc_basic ptr reg k
  | TPtr => (ptr, ptr)
  | TSlice => (3 * ptr, ptr)
  | TIface => (2 * ptr, ptr)
  | TArray n e => let '(w, al) := gc_sa ptr reg e in (n * w, al)
  | TStruct fs => gc_struct (map (gc_sa ptr reg) fs)
  end.
Definition gc_sizeof (a : arch) t := fst (gc_sa (fst a) (snd a) t).
Definition gc_alignof (a : arch) t := snd (gc_sa (fst a) (snd a) t).
Definition gc_offsetsof (a : arch) t := gc_offsets 0 (map (gc_sa (fst a) (snd a)) (fields_of t)).

Definition expands (t : ty) : bool := match t with TStruct (_ :: _) => true | _ => false end.

(* absolute (path, offset, size, align) of every leaf: nested structs with at least one field are expanded *)
Fixpoint gc_leaves (ptr reg : Z) (t : ty) (rpath : list nat) (base : Z) {struct t} : list (list nat * Z * Z * Z) :=
  match t with
  | TStruct fs =>
      (fix go (fs : list ty) (i : nat) (o : Z) {struct fs} : list (list nat * Z * Z * Z) :=
         match fs with
         | [] => []
         | f :: fs' =>
             let '(w, al) := gc_sa ptr reg f in
             let off := roundup o al in
             (if expands f then gc_leaves ptr reg f (i :: rpath) (base + off)
              else [(rev (i :: rpath), base + off, w, al)])
             ++ go fs' (S i) (off + w)
         end) fs 0%nat 0
  | _ => []
  end.

(* ---------------------------------------------------------------------------------------------- structlayout *)
Definition mkpad (s e : Z) : entry := mkE [] s e (e - s) 0 true.

(* the tail of `sizes`: the last entry, when zero-sized inside a non-zero-sized struct (nonzero = Sizeof(typ) != 0), is
   shown as occupying the byte the compiler adds; then padding up to the end of the struct (endz = base + Sizeof) *)
Fixpoint finish (out : list entry) (nonzero : bool) (endz : Z) : list entry :=
  match out with
  | [] => []
  | [l] =>
      let l' := if (e_size l =? 0) && nonzero
                then mkE (e_path l) (e_start l) (e_end l + 1) 1 (e_align l) (e_pad l) else l in
      if e_end l' <? endz then [l'; mkpad (e_end l') endz] else [l']
  | e :: r => e :: finish r nonzero endz
  end.

(* sizes(typ, prefix, base, out): returns what the call appends to out.  rpath = reversed index path of typ. *)
Fixpoint lay (T : tables) (a : arch) (t : ty) (rpath : list nat) (base : Z) {struct t} : list entry :=
  match t with
  | TStruct fs =>
      let body :=
        (fix go (fs : list ty) (i : nat) (o : Z) (pos : Z) {struct fs} : list entry :=
           match fs with
           | [] => []
           | f :: fs' =>
               let '(sz, al) := sa T a f in
               let off := base + align_up o al in                    (* offsets[i] (already += base) *)
               let padl := if pos <? off then [mkpad pos off] else [] in
               let pos1 := if pos <? off then off else pos in
               let here := if expands f then lay T a f (i :: rpath) pos1
                           else [mkE (rev (i :: rpath)) off (off + sz) sz al false] in
               padl ++ here ++ go fs' (S i) (align_up o al + sz) (pos1 + sz)
           end) fs 0%nat 0 base in
      finish body (negb (fst (sa T a t) =? 0)) (base + fst (sa T a t))
  | _ => []
  end.
Definition layout (T : tables) (a : arch) (t : ty) : list entry := lay T a t [] 0.

(* ---------------------------------------------------------------------------------------------- optimize *)
Definition ofield_get (f : ofield) (e : entry) : Z := match f with OSize => e_size e | OAlign => e_align e end.
(* byAlignAndSize.Less(i, j) with the chain read from the source *)
Fixpoint less_chain (c : list cmpstep) (x y : entry) : bool :=
  match c with
  | [] => false
  | CZeroFirst f :: r =>
      if (ofield_get f x =? 0) && negb (ofield_get f y =? 0) then true
      else if (ofield_get f y =? 0) && negb (ofield_get f x =? 0) then false
      else less_chain r x y
  | CDesc f :: r => if negb (ofield_get f x =? ofield_get f y) then ofield_get f y <? ofield_get f x else less_chain r x y
  | CAsc f :: r => if negb (ofield_get f x =? ofield_get f y) then ofield_get f x <? ofield_get f y else less_chain r x y
  end.
Definition std_chain : list cmpstep := [CZeroFirst OSize; CDesc OAlign; CDesc OSize].
Definition cmpstep_eqb (x y : cmpstep) : bool :=
  let f a b := match a, b with OSize, OSize | OAlign, OAlign => true | _, _ => false end in
  match x, y with
  | CZeroFirst a, CZeroFirst b | CDesc a, CDesc b | CAsc a, CAsc b => f a b
  | _, _ => false
  end.
Fixpoint chain_eqb (x y : list cmpstep) : bool :=
  match x, y with
  | [], [] => true
  | a :: x', b :: y' => cmpstep_eqb a b && chain_eqb x' y'
  | _, _ => false
  end.

(* sort.Sort is not stable and its algorithm is not modelled: the theorems hold for EVERY permutation that is
   sorted w.r.t. Less.  Insertion sort is the model's representative (used to run the model). *)
Fixpoint insert (lt : entry -> entry -> bool) (x : entry) (l : list entry) : list entry :=
  match l with
  | [] => [x]
  | y :: r => if lt y x then y :: insert lt x r else x :: y :: r
  end.
Definition sort_units (lt : entry -> entry -> bool) (l : list entry) : list entry := fold_right (insert lt) [] l.

(* combine: one unit per top-level field (name prefix = first two components = index of the top-level field) *)
Definition grp (e : entry) : nat := hd 0%nat (e_path e).
Definition open_unit (e : entry) : entry := mkE [grp e] (e_start e) (e_end e) (e_size e) (e_align e) false.
Definition extend_unit (u e : entry) : entry :=
  let al := if e_align u <? e_align e then e_align e else e_align u in
  let en := align_up (e_end e) al in
  mkE (e_path u) (e_start u) en (en - e_start u) al false.
Fixpoint combine_go (cur : option entry) (l : list entry) : list entry :=
  match l with
  | [] => match cur with Some u => [u] | None => [] end
  | e :: r =>
      if e_pad e then combine_go cur r
      else match cur with
           | Some u => if Nat.eqb (grp e) (grp u) then combine_go (Some (extend_unit u e)) r
                       else u :: combine_go (Some (open_unit e)) r
           | None => combine_go (Some (open_unit e)) r
           end
  end.
Definition combine (l : list entry) : list entry := combine_go None l.

(* offsetsof + pad: pos and the running offset of offsetsof coincide at every loop head (both start at 0 and
   pos <= align(o, a)), so one accumulator stands for both *)
Fixpoint pad_go (l : list entry) (o : Z) : list entry :=
  match l with
  | [] => []
  | f :: r =>
      let off := align_up o (e_align f) in
      (if o <? off then [mkpad o off] else [])
        ++ mkE (e_path f) off (off + e_size f) (e_size f) (e_align f) false :: pad_go r (off + e_size f)
  end.
Definition sum_sizes (l : list entry) : Z := fold_right (fun e s => e_size e + s) 0 l.
Definition units_align (l : list entry) : Z := fold_right (fun e m => Z.max (e_align e) m) 1 l.
Definition end_of (l : list entry) : Z := e_end (last l (mkpad 0 0)).
Definition pad_units (l : list entry) : list entry :=
  match l with
  | [] => []
  | _ => let out := pad_go l 0 in
         let sz := sum_sizes out in
         let p := align_up sz (units_align l) - sz in
         if 0 <? p then out ++ [mkpad (end_of out) (end_of out + p)] else out
  end.
Definition nonpad (l : list entry) : list entry := filter (fun e => negb (e_pad e)) l.
(* what main does between decoding and printing; recurse = the -r flag *)
Definition units_of (recurse : bool) (inp : list entry) : list entry :=
  nonpad (if recurse then inp else combine inp).
Definition optimize (chain : list cmpstep) (recurse : bool) (inp : list entry) : list entry :=
  match inp with
  | [] => []
  | _ => pad_units (sort_units (less_chain chain) (units_of recurse inp))
  end.
