(* C09: executable comparison of model / reference semantics with what the implementation did.
   Used by cases/C09/*.v written by the harness (vm_compute). Definitions only. *)
From Coq Require Import List String ZArith NArith Bool.
Import ListNotations.
Require Import Verif.Model.C09_Types Verif.Model.C09.
Open Scope string_scope.

Fixpoint val_eqb (a b : val) : bool :=
  match a, b with
  | VNil, VNil => true
  | VNilPtr x, VNilPtr y => String.eqb x y
  | VStr x, VStr y => String.eqb x y
  | VTok x, VTok y => Z.eqb x y
  | VBool x, VBool y => Bool.eqb x y
  | VInt x, VInt y => Z.eqb x y
  | VList k n l, VList k' n' l' =>
      lkind_eqb k k' && Bool.eqb n n' &&
      (fix go (l l' : list val) : bool :=
         match l, l' with
         | [], [] => true
         | x :: r, y :: r' => val_eqb x y && go r r'
         | _, _ => false
         end) l l'
  | VNode t fs, VNode t' fs' =>
      String.eqb t t' &&
      (fix go (l l' : list (string * val)) : bool :=
         match l, l' with
         | [], [] => true
         | (n, x) :: r, (n', y) :: r' => String.eqb n n' && val_eqb x y && go r r'
         | _, _ => false
         end) fs fs'
  | VObj x, VObj y => Z.eqb x y
  | VConst x, VConst y => String.eqb x y
  | VOpaque x, VOpaque y => String.eqb x y
  | _, _ => false
  end.

Fixpoint pat_eqb (a b : pat) : bool :=
  match a, b with
  | PNone, PNone | PAny, PAny | PNil, PNil => true
  | PString x, PString y => String.eqb x y
  | PToken x, PToken y => Z.eqb x y
  | PBinding n i s, PBinding n' i' s' => String.eqb n n' && Nat.eqb i i' && pat_eqb s s'
  | PList h t, PList h' t' => pat_eqb h h' && pat_eqb t t'
  | POr l, POr l' =>
      (fix go (l l' : list pat) : bool :=
         match l, l' with
         | [], [] => true
         | x :: r, y :: r' => pat_eqb x y && go r r'
         | _, _ => false
         end) l l'
  | PNot x, PNot y => pat_eqb x y
  | PNode t fs, PNode t' fs' =>
      String.eqb t t' &&
      (fix go (l l' : list (string * pat)) : bool :=
         match l, l' with
         | [], [] => true
         | (n, x) :: r, (n', y) :: r' => String.eqb n n' && pat_eqb x y && go r r'
         | _, _ => false
         end) fs fs'
  | PTypeAware k x, PTypeAware k' y => String.eqb k k' && pat_eqb x y
  | _, _ => false
  end.

(* states as finite maps: same size and every entry of b is in a *)
Definition state_eqb (a b : state) : bool :=
  Nat.eqb (List.length a) (List.length b) &&
  forallb (fun kv => match lookup (fst kv) a with Some v => val_eqb v (snd kv) | None => false end) b.
Fixpoint strs_eqb (a b : list string) : bool :=
  match a, b with [] , [] => true | x :: a', y :: b' => String.eqb x y && strs_eqb a' b' | _, _ => false end.

Inductive outcome := OOk | OFail | OPanicRebound | OPanicOther.
Definition outcome_eqb (a b : outcome) : bool :=
  match a, b with OOk, OOk | OFail, OFail | OPanicRebound, OPanicRebound | OPanicOther, OPanicOther => true | _, _ => false end.

Record obs := mkObs {
  o_map : list string;   (* Pattern.Bindings *)
  o_pat : pat;           (* Pattern.Root with the idx the parser assigned *)
  o_out : outcome;       (* what pattern.Match did *)
  o_state : state        (* Matcher.State afterwards (sorted by name) *)
}.
Record case := mkCase {
  c_tree : val;
  c_main : obs;
  c_flip : option obs    (* the same pattern with every binding in the other spelling *)
}.

Definition AF : nat := 400.
Definition FUEL : nat := 400.

Inductive diff :=
| DFlag          (* model and implementation disagree on success / failure / panic *)
| DState         (* both succeed, different State *)
| DFuel          (* the model ran out of fuel *)
| DLeak          (* PROPERTY: implementation succeeded but the reference semantics gives another State / no match *)
| DSpelling      (* PROPERTY: the two spellings parse to different patterns *)
| DSpellingRun.  (* PROPERTY: the two spellings behave differently *)

(* correspondence: the transcription (with the regenerated cfg and the idx as assigned) vs the implementation *)
Definition obs_mismatch (cfg : matcher_cfg) (t : val) (o : obs) : list diff :=
  match run_impl cfg no_oracle (o_map o) AF FUEL (o_pat o) t with
  | RFuel => [DFuel]
  | RPanic => match o_out o with OPanicRebound | OPanicOther => [] | _ => [DFlag] end
  | RDone true _ s => match o_out o with
                      | OOk => if state_eqb s (o_state o) then [] else [DState]
                      | _ => [DFlag]
                      end
  | RDone false _ _ => match o_out o with OFail => [] | _ => [DFlag] end
  end.
Definition case_mismatch (cfg : matcher_cfg) (c : case) : list diff :=
  obs_mismatch cfg (c_tree c) (c_main c) ++
  match c_flip c with Some o => obs_mismatch cfg (c_tree c) o | None => [] end.

(* the property on the implementation's observable behaviour: whenever the implementation reports
   success, the reference semantics yields the same State (one direction only); the reference semantics
   never looks at idx, the frame stack or the cfg's frame operations *)
Definition obs_violation (cfg : matcher_cfg) (t : val) (o : obs) : list diff :=
  match o_out o with
  | OOk => match run_spec cfg no_oracle AF FUEL (o_pat o) t with
           | RDone true _ s => if state_eqb s (o_state o) then [] else [DLeak]
           | RFuel => []
           | _ => [DLeak]
           end
  | _ => []
  end.
(* erase the bit indices: what the two spellings must agree on besides the indices *)
Definition case_violation (cfg : matcher_cfg) (c : case) : list diff :=
  obs_violation cfg (c_tree c) (c_main c) ++
  match c_flip c with
  | None => []
  | Some o =>
      obs_violation cfg (c_tree c) o ++
      (if pat_eqb (norm_pat (o_pat (c_main c))) (norm_pat (o_pat o)) && strs_eqb (o_map (c_main c)) (o_map o) then [] else [DSpelling]) ++
      (if outcome_eqb (o_out (c_main c)) (o_out o) &&
          (match o_out o with OOk => state_eqb (o_state (c_main c)) (o_state o) | _ => true end)
       then [] else [DSpellingRun])
  end.

Definition numbered {A} (f : case -> list A) (cases : list case) : list (nat * list A) :=
  filter (fun x => match snd x with [] => false | _ => true end)
         (combine (seq 0 (List.length cases)) (map f cases)).
Definition mismatches cfg cases := numbered (case_mismatch cfg) cases.
Definition violations cfg cases := numbered (case_violation cfg) cases.
(* premise idx_inj evaluated on what the parser really did *)
Definition idx_not_inj cases :=
  numbered (fun c => app (if idx_inj_b (o_map (c_main c)) (o_pat (c_main c)) then [] else [true])
                     (match c_flip c with Some o => if idx_inj_b (o_map o) (o_pat o) then [] else [false] | None => [] end)) cases.

(* ---- model-level counterexample search, used when cfg_ok (the transcribed code shape) breaks:
   small patterns over two names, each the canonical witness of one premise, against `a + b`,
   `(a*b) + c` and `a + f(1)`; a candidate is a counterexample when the implementation model succeeds
   with a State other than the reference semantics' one. *)
Definition id_ (s : string) : val := VNode "Ident" [("Name", VStr s)].
Definition bin_ (x : val) (op : Z) (y : val) : val := VNode "BinaryExpr" [("X", x); ("Op", VTok op); ("Y", y)].
Definition paren_ (x : val) : val := VNode "ParenExpr" [("X", x)].
Definition call_ (f : val) (args : list val) : val := VNode "CallExpr" [("Fun", f); ("Args", VList LExpr false args)].
Definition lit_ (s : string) : val := VNode "BasicLit" [("Kind", VTok 5); ("Value", VStr s)].
Definition t_a_plus_b := bin_ (id_ "a") 12 (id_ "b").
Definition t_ab_plus_c := bin_ (paren_ (bin_ (id_ "a") 14 (id_ "b"))) 12 (id_ "c").
Definition t_a_plus_f1 := bin_ (id_ "a") 12 (call_ (id_ "f") [lit_ "1"]).

Definition pid_ (p : pat) : pat := PNode "Ident" [("Name", p)].
Definition pbin_ (x op y : pat) : pat := PNode "BinaryExpr" [("X", x); ("Op", op); ("Y", y)].
Definition pcall_ (f a : pat) : pat := PNode "CallExpr" [("Fun", f); ("Args", a)].
Definition bx (sub : pat) := PBinding "x" 0 sub.
Definition by_ (sub : pat) := PBinding "y" 1 sub.

Definition cex_candidates : list (list string * pat * val) :=
  [ (* Not leaks *)
    (["x"; "y"], pbin_ (PNot (pbin_ (bx (pid_ PAny)) (PString "-") PAny)) (PString "+") PAny, t_ab_plus_c);
    (* failed alternative not popped *)
    (["x"; "y"], POr [pbin_ (bx PNone) (PString "-") PAny; pbin_ PAny (PString "+") (by_ PNone)], t_a_plus_b);
    (* inner successful Or inside a failing outer alternative (merge must propagate) *)
    (["x"; "y"], POr [pbin_ (POr [bx (pid_ PAny)]) (PString "-") PAny; pbin_ PAny (PString "+") (by_ PNone)], t_a_plus_b);
    (* binding before the Or must survive the pop of a failed alternative *)
    (["x"; "y"], pbin_ (bx (pid_ PAny)) (PString "+") (POr [pcall_ (by_ (pid_ PAny)) (PList PNone PNone); pcall_ PAny PAny]), t_a_plus_f1);
    (* double negation *)
    (["x"; "y"], pbin_ (PNot (PNot (pbin_ (bx PNone) (PString "*") PAny))) (PString "+") (by_ PNone), t_ab_plus_c);
    (* successful alternative keeps its bindings *)
    (["x"; "y"], POr [pbin_ (bx PNone) (PString "-") PAny; pbin_ (bx PNone) (PString "+") (by_ PNone)], t_a_plus_b)
  ].
Definition is_cex (cfg : matcher_cfg) (c : list string * pat * val) : bool :=
  let '(mapping, p, t) := c in
  match run_impl cfg no_oracle mapping AF FUEL p t with
  | RDone true _ s =>
      match run_spec cfg no_oracle AF FUEL p t with
      | RDone true _ s' => negb (state_eqb s s')
      | _ => true
      end
  | _ => false
  end.
Definition find_cex (cfg : matcher_cfg) : list nat :=
  map fst (filter (fun ic => is_cex cfg (snd ic)) (combine (seq 0 (List.length cex_candidates)) cex_candidates)).
