(* C04: cache transparency.  Definitions only (proofs: Proofs/C04.v).

   Part 1  interpretation of the transcribed cache key (Gen/C04_CacheKey.v): which input dimensions the
           components written into the action hash cover  ->  [key_fields]; which dimensions the analysis may
           depend on -> [relevant]; classification of every environment read of the linked code.
   Part 2  the cache protocol of lintcmd/runner/runner.go:subrunner.do over an abstract analysis function:
           worlds (what `go list` + config.Load + the flags deliver), package DAG processed bottom-up, key =
           hash of the projection of a package's inputs on the key fields, lookup of vetx/results, store;
           histories of edits, runs and cache trimming; the cache-less reference semantics. *)
From Coq Require Import List String Bool Arith.
Import ListNotations.
Require Import Verif.Model.C04_Types Verif.Gen.C04_CacheKey.
Open Scope string_scope.

(* ------------------------------------------------------------------------------------------------ *)
(* Part 1: the key, interpreted                                                                      *)
(* ------------------------------------------------------------------------------------------------ *)

Definition dim_eqb (a b : dim) : bool :=
  match a, b with
  | PkgPath, PkgPath | Files, Files | GoMod, GoMod | Tags, Tags | GOOS, GOOS | GOARCH, GOARCH
  | Tests, Tests | DepTypes, DepTypes | DepFacts, DepFacts | FlagGo, FlagGo | FlagChecks, FlagChecks
  | Analyzers, Analyzers | Binary, Binary | Godebug, Godebug => true
  | Cfg x, Cfg y => String.eqb x y
  | OtherEnv x, OtherEnv y => String.eqb x y
  | _, _ => false
  end.
Definition dmem (d : dim) (l : list dim) : bool := existsb (dim_eqb d) l.
Definition dsubset (a b : list dim) : bool := forallb (fun d => dmem d b) a.
Definition smem (s : string) (l : list string) : bool := existsb (String.eqb s) l.
Definition slist_eqb (a b : list string) : bool :=
  (List.length a =? List.length b)%nat && forallb (fun p => String.eqb (fst p) (snd p)) (combine a b).

(* first assignment to [x] in source order *)
Fixpoint lookup_def (defs : list (string * string)) (x : string) : option string :=
  match defs with
  | [] => None
  | (l, r) :: t => if String.eqb l x then Some r else lookup_def t x
  end.
Fixpoint resolve (fuel : nat) (defs : list (string * string)) (x : string) : string :=
  match fuel with
  | O => x
  | S n => match lookup_def defs x with Some y => if String.eqb y x then x else resolve n defs y | None => x end
  end.
Definition has_def (defs : list (string * string)) (l r : string) : bool :=
  existsb (fun p => String.eqb (fst p) l && String.eqb (snd p) r) defs.

(* os.Getenv("X") -> Some "X" *)
Definition getenv_var (call : string) : option string :=
  let pre := "os.Getenv(""" in
  if prefix pre call then
    let rest := substring (String.length pre) (String.length call - String.length pre) call in
    match index 0 """" rest with
    | Some n => if String.eqb (substring n (String.length rest - n) rest) """)" then Some (substring 0 n rest) else None
    | None => None
    end
  else None.
Definition env_dim (name : string) : dim := if String.eqb name "GODEBUG" then Godebug else OtherEnv name.

(* --- the package hash (go/loader/hash.go:computeHash) --- *)
(* EXTERNAL (cmd/go): the action-ID half of an export file's build ID changes whenever a compiled file, the
   language version of go.mod, the target GOOS/GOARCH or the set of files selected by tags / test variant
   changes.  This is what lets the single `files %s` component stand for these dimensions. *)
Definition build_id_dims : list dim := [Files; GoMod; Tags; GOOS; GOARCH; Tests].

Definition pkg_arg_dims (c : comp) (arg : string) : list dim :=
  if String.eqb arg "pkg.PkgPath" && slist_eqb (c_ctx c) [] then [PkgPath]
  else if String.eqb arg "id[:idx]"
          && slist_eqb (c_ctx c) ["if pkg.ExportFile != """""; "if err == nil"; "if idx > -1"]
          && has_def gen_pkg_defs "id" "getBuildid(pkg.ExportFile)" then build_id_dims
  else if String.eqb arg "h" && slist_eqb (c_ctx c) ["if !success"; "for range pkg.CompiledGoFiles"]
          && has_def gen_pkg_defs "h" "cache.FileHash(f)" then [Files]
  else if String.eqb arg "h" && prefix "file " (c_fmt c) && smem "pkg.Module.GoMod" (c_args c)
          && has_def gen_pkg_defs "h" "cache.FileHash(pkg.Module.GoMod)" then [GoMod]
  else if String.eqb arg "id" && smem "for range imps" (c_ctx c) && smem "dep.PkgPath" (c_args c)
          && has_def gen_pkg_defs "id" "getBuildid(dep.ExportFile)" then [DepTypes]
  else [].
Definition pkg_key_dims : list dim := flat_map (fun c => flat_map (pkg_arg_dims c) (c_args c)) gen_pkg_key.

(* --- the action hash (lintcmd/runner/runner.go:subrunner.do) --- *)
Definition cfg_source : string := "a.Package.Config.Merge(r.cfg)".
(* the merged Checks list is package configuration merged with the -checks flag *)
Definition cfg_field_dims (f : string) : list dim :=
  if String.eqb f "Checks" then [Cfg "Checks"; FlagChecks] else [Cfg f].
(* `hashCfg.F = ...` before hashing removes field F from what `%#v` prints *)
Definition overridden (var field : string) : bool :=
  existsb (fun p => String.eqb (fst p) (var ++ "." ++ field)) gen_action_defs.

Definition dep_loop : list string := ["for range a.deps"].

Definition action_arg_dims (c : comp) (arg : string) : list dim :=
  let src := resolve 6 gen_action_defs arg in
  if slist_eqb (c_ctx c) [] then
    if String.eqb src cfg_source then
      if has_def gen_spec_defs "spec.Config" "cfg" && has_def gen_spec_defs "cfg" "config.Load(cdir)" then
        flat_map (fun f => if overridden arg f then [] else cfg_field_dims f) gen_config_fields
      else []
    else if String.eqb src "a.Package.Hash" then
      if has_def gen_spec_defs "spec.Hash" "computeHash(spec)" then pkg_key_dims else []
    else if String.eqb src "r.analyzerNames" then [Analyzers]
    else if String.eqb src "r.GoVersion" then [FlagGo]
    else match getenv_var src with Some v => [env_dim v] | None => [] end
  else if slist_eqb (c_ctx c) dep_loop then
    if String.eqb src "cache.FileHash(dep.vetx)" && smem "dep.Package.PkgPath" (c_args c) then [DepFacts] else []
  else [].

(* the salt: NewHash writes hashSalt into every hash; SetSalt(b) sets it; newLinter calls SetSalt(computeSalt())
   and computeSalt reads the build ID of the running executable *)
Definition salt_dims : list dim :=
  if smem "hashSalt" gen_newhash_writes
     && has_def gen_setsalt_assigns "hashSalt" "b"
     && has_def gen_salt_calls "newLinter" "salt"
     && has_def gen_newlinter_defs "salt" "computeSalt()"
     && smem "os.Executable" gen_computesalt_calls && smem "buildid.ReadFile" gen_computesalt_calls
  then [Binary] else [].

Definition key_fields : list dim :=
  salt_dims ++ flat_map (fun c => flat_map (action_arg_dims c) (c_args c)) gen_action_key.

(* --- what the cache stores and where --- *)
(* every sub-key hangs off the action hash; what is stored under a kind is looked up under the same kind;
   the stored record holds the UNFILTERED diagnostics and the unused result *)
Definition protocol_shape_ok : bool :=
  has_def gen_action_defs "a.hash" "cache.ActionID(h.Sum())"
  && forallb (fun p => String.eqb (fst p) "a.hash") gen_subkeys
  && forallb (fun s => smem (fst s) (map snd gen_subkeys)) gen_stores
  && smem """vetx""" (map snd gen_subkeys) && smem """results""" (map snd gen_subkeys)
  && has_def gen_stored_fields "out.Diagnostics" "result.diags"
  && has_def gen_stored_fields "out.Unused" "result.unused".

(* The action hash does not say whether a package was analysed as initial package or merely as a dependency
   (a.factsOnly); the two are told apart only by WHICH sub-keys exist.  So a facts-only analysis must store
   nothing but "vetx": every store of another kind comes after `if a.factsOnly { return nil }` in the same or
   an enclosing block, and the other kinds are looked up only under `if !a.factsOnly`. *)
Fixpoint list_prefix (a b : list string) : bool :=
  match a, b with
  | [], _ => true
  | x :: a', y :: b' => String.eqb x y && list_prefix a' b'
  | _ :: _, [] => false
  end.
Definition is_vetx (kind : string) : bool := String.eqb kind """vetx""".
Fixpoint stores_guarded (g : option (list string)) (evs : list (string * string * list string)) : bool :=
  match evs with
  | [] => true
  | (k, d, ctx) :: t =>
    if String.eqb k "return-nil-if" then
      if String.eqb d "a.factsOnly"
      then stores_guarded (match g with Some _ => g | None => Some ctx end) t
      else stores_guarded g t
    else if String.eqb k "store" then
      (is_vetx d || match g with Some c => list_prefix c ctx | None => false end) && stores_guarded g t
    else stores_guarded g t
  end.
Definition factsonly_ok : bool :=
  stores_guarded None gen_store_events
  && existsb (fun e => String.eqb (fst (fst e)) "store" && is_vetx (snd (fst e))) gen_store_events
  && existsb (fun e => String.eqb (fst (fst e)) "store" && String.eqb (snd (fst e)) """results""") gen_store_events
  && forallb (fun l => if is_vetx (fst l) then slist_eqb (snd l) [] else smem "if !a.factsOnly" (snd l)) gen_lookup_ctx.

(* --- environment reads --- *)
Inductive envclass :=
| EnvKeyed (d : dim)        (* the very call is an argument of a key component *)
| EnvAllowed (why : string) (* cannot influence what is analysed or stored *)
| EnvNeeds (d : dim).       (* analysis-time read: the dimension must be in the key *)

Definition read_is (r : envread) (file func call : string) : bool :=
  String.eqb (r_file r) file && String.eqb (r_func r) func && String.eqb (r_call r) call.
Definition is_key_arg (call : string) : bool :=
  existsb (fun c => smem call (c_args c) && slist_eqb (c_ctx c) []) gen_action_key.

(* directory functions of package os and the variables they consult on unix *)
Definition dirfunc_dim (call : string) : option dim :=
  if String.eqb call "os.UserCacheDir()" then Some (OtherEnv "XDG_CACHE_HOME|HOME")
  else if String.eqb call "os.UserConfigDir()" then Some (OtherEnv "XDG_CONFIG_HOME|HOME")
  else if String.eqb call "os.UserHomeDir()" then Some (OtherEnv "HOME")
  else if String.eqb call "os.TempDir()" then Some (OtherEnv "TMPDIR")
  else None.

Definition classify (r : envread) : envclass :=
  if read_is r "lintcmd/runner/runner.go" "do" (r_call r) && is_key_arg (r_call r) then
    match getenv_var (r_call r) with Some v => EnvKeyed (env_dim v) | None => EnvNeeds (OtherEnv (r_call r)) end
  else if read_is r "lintcmd/cache/cache.go" "initEnv" "os.Getenv(""GODEBUG"")" then
    EnvAllowed "debug switches of the cache (gocacheverify/gocachehash/gocachetest); GODEBUG is keyed anyway"
  else if read_is r "lintcmd/cache/default.go" "DefaultDir" "os.Getenv(""STATICCHECK_CACHE"")"
       || read_is r "lintcmd/cache/default.go" "DefaultDir" "os.UserCacheDir()" then
    EnvAllowed "location of the cache directory"
  else if read_is r "lintcmd/cache/default.go" "initDefaultCache" "os.Getenv(""GOCACHEPROG"")" then
    EnvAllowed "cache backend selection"
  else if read_is r "lintcmd/lint.go" "computeSalt" "os.Executable()" then
    EnvAllowed "path of the running binary whose build ID is the salt"
  else if read_is r "lintcmd/lint.go" "run" "os.Environ()" then
    EnvAllowed "passed to `go list` (packages.Config.Env) only; what go list makes of it reaches the key through the package hash"
  else if read_is r "lintcmd/cmd.go" "lint" "os.Getwd()"
       || read_is r "lintcmd/format.go" "shortPath" "os.Getwd()"
       || read_is r "lintcmd/sarif.go" "Format" "os.Getwd()" then
    EnvAllowed "output formatting, applied after results are loaded from the cache"
  else if read_is r "config/config.go" "Dir" "os.UserCacheDir()" then
    EnvAllowed "selects the directory whose staticcheck.conf is loaded (same function at key time and at analysis time); the loaded configuration is keyed"
  else
    match getenv_var (r_call r) with
    | Some v => EnvNeeds (env_dim v)
    | None => match dirfunc_dim (r_call r) with
              | Some d => EnvNeeds d
              | None => EnvNeeds (OtherEnv (r_call r))
              end
    end.

Definition read_dims (r : envread) : list dim :=
  match classify r with EnvNeeds d => [d] | EnvKeyed d => [d] | EnvAllowed _ => [] end.

(* --- the dimensions an analysis result may depend on --- *)
(* everything except the check selection, which lintcmd/lint.go applies to the LOADED results *)
Definition base_relevant : list dim :=
  [PkgPath; Files; GoMod; Tags; GOOS; GOARCH; Tests; DepTypes; DepFacts; FlagGo; Analyzers; Binary; Godebug].
Definition cfg_relevant : list dim :=
  flat_map (fun f => if String.eqb f "Checks" then [] else [Cfg f]) gen_config_fields.
Definition env_relevant : list dim := flat_map read_dims gen_env_reads.
Definition relevant : list dim := base_relevant ++ cfg_relevant ++ env_relevant.

(* Recorded finding (known_findings.txt): SA9007 puts os.UserCacheDir()/UserConfigDir()/UserHomeDir() of the
   ANALYSING process into the related message of its diagnostic; those are cached, the variables are not keyed. *)
Definition known_env_finding (r : envread) : bool :=
  String.eqb (r_file r) "staticcheck/sa9007/sa9007.go" && String.eqb (r_func r) "run"
  && match dirfunc_dim (r_call r) with Some _ => true | None => false end.
Definition known_finding_dims : list dim :=
  flat_map (fun r => if known_env_finding r then read_dims r else []) gen_env_reads.
(* what the instantiated theorem assumes the analysis to depend on: [relevant] minus the recorded finding *)
Definition relevant_assumed : list dim := filter (fun d => negb (dmem d known_finding_dims)) relevant.

Definition read_covered (r : envread) : bool :=
  match classify r with
  | EnvAllowed _ => true
  | EnvKeyed d => dmem d key_fields
  | EnvNeeds d => dmem d key_fields
  end.
(* full statement of the environment obligation (does NOT hold on the pinned tree: SA9007); the proved
   one is Props/C04.v env_reads_covered_partial *)
Definition env_reads_full_statement : Prop := forallb read_covered gen_env_reads = true.
Definition uncovered_reads : list envread := filter (fun r => negb (read_covered r)) gen_env_reads.
Definition missing_dims : list dim := filter (fun d => negb (dmem d key_fields)) relevant.

(* ------------------------------------------------------------------------------------------------ *)
(* Part 2: the protocol                                                                              *)
(* ------------------------------------------------------------------------------------------------ *)
Section CacheModel.
  Variables V F R O K : Type.  (* input values; fact blobs (vetx); stored per-package results; output; action IDs *)
  Variable K_eq_dec : forall a b : K, {a = b} + {a <> b}.
  Variable KF : list dim.       (* the dimensions that enter the key *)

  Definition pkgid := nat.
  (* the value of one dimension for one package *)
  Inductive ival := IV (v : V) | IFacts (l : list (pkgid * F)).
  Record inp := mkInp { i_loc : dim -> V; i_deps : list (pkgid * F) }.
  Definition get (i : inp) (d : dim) : ival :=
    match d with DepFacts => IFacts (i_deps i) | _ => IV (i_loc i d) end.

  Variable H : list ival -> K.                 (* salted SHA-256 of the rendered components *)
  Definition key (i : inp) : K := H (map (get i) KF).

  (* loading + type-checking + all analyzers on one package: facts and the record stored under "results";
     None = the package failed (never cached).  In factsOnly mode the runner computes only the facts; that
     they equal the facts of a full run is part of this abstraction. *)
  Variable analyse : inp -> option (F * R).

  (* what `go list`, config.Load and the flags deliver, dependencies first *)
  Record pkg := mkPkg { p_id : pkgid; p_deps : list pkgid; p_initial : bool; p_loc : dim -> V }.
  Definition world := list pkg.

  Record cache := mkCache { c_vetx : K -> option F; c_res : K -> option R }.
  Definition empty : cache := mkCache (fun _ => None) (fun _ => None).
  Definition put_vetx (k : K) (f : F) (c : cache) : cache :=
    mkCache (fun k' => if K_eq_dec k' k then Some f else c_vetx c k') (c_res c).
  Definition put_res (k : K) (r : R) (c : cache) : cache :=
    mkCache (c_vetx c) (fun k' => if K_eq_dec k' k then Some r else c_res c k').

  (* facts of the packages processed so far in this run (dep.vetx); None = failed *)
  Definition done_t := list (pkgid * option F).
  Fixpoint find_done (dn : done_t) (p : pkgid) : option (option F) :=
    match dn with
    | [] => None
    | (q, f) :: t => if Nat.eqb q p then Some f else find_done t p
    end.
  Fixpoint dep_facts (dn : done_t) (ds : list pkgid) : option (list (pkgid * F)) :=
    match ds with
    | [] => Some []
    | d :: r => match find_done dn d with
                | Some (Some f) => option_map (cons (d, f)) (dep_facts dn r)
                | _ => None
                end
    end.

  Inductive outcome := OFailed | ODep | ORes (r : R).

  (* subrunner.do for one package *)
  Definition step (c : cache) (dn : done_t) (p : pkg) : cache * option F * outcome :=
    match dep_facts dn (p_deps p) with
    | None => (c, None, OFailed)                       (* a dependency failed: not executed *)
    | Some df =>
      let i := mkInp (p_loc p) df in
      let k := key i in
      if p_initial p then
        match c_vetx c k, c_res c k with
        | Some f, Some r => (c, Some f, ORes r)        (* both sub-keys found *)
        | _, _ => match analyse i with
                  | None => (c, None, OFailed)
                  | Some (f, r) => (put_res k r (put_vetx k f c), Some f, ORes r)
                  end
        end
      else
        match c_vetx c k with
        | Some f => (c, Some f, ODep)
        | None => match analyse i with
                  | None => (c, None, OFailed)
                  | Some (f, _) => (put_vetx k f c, Some f, ODep)
                  end
        end
    end.

  Fixpoint run_pkgs (c : cache) (dn : done_t) (ps : list pkg) : cache * list (pkgid * outcome) :=
    match ps with
    | [] => (c, [])
    | p :: t => match step c dn p with
                | (c', f, o) => let (c'', os) := run_pkgs c' ((p_id p, f) :: dn) t in (c'', (p_id p, o) :: os)
                end
    end.
  Definition run (w : world) (c : cache) : cache * list (pkgid * outcome) := run_pkgs c [] w.

  (* number of analyses a run performs (cache misses on analysable packages + failing packages) *)
  Definition step_analyses (c : cache) (dn : done_t) (p : pkg) : nat :=
    match dep_facts dn (p_deps p) with
    | None => 0
    | Some df =>
      let k := key (mkInp (p_loc p) df) in
      if p_initial p then match c_vetx c k, c_res c k with Some _, Some _ => 0 | _, _ => 1 end
      else match c_vetx c k with Some _ => 0 | None => 1 end
    end.
  Fixpoint analyses_pkgs (c : cache) (dn : done_t) (ps : list pkg) : nat :=
    match ps with
    | [] => 0
    | p :: t => match step c dn p with
                | (c', f, _) => step_analyses c dn p + analyses_pkgs c' ((p_id p, f) :: dn) t
                end
    end.
  Definition analyses (w : world) (c : cache) : nat := analyses_pkgs c [] w.

  (* the cache-less reference: analyse everything bottom-up *)
  Definition ref_step (dn : done_t) (p : pkg) : option F * outcome :=
    match dep_facts dn (p_deps p) with
    | None => (None, OFailed)
    | Some df => match analyse (mkInp (p_loc p) df) with
                 | None => (None, OFailed)
                 | Some (f, r) => (Some f, if p_initial p then ORes r else ODep)
                 end
    end.
  Fixpoint ref_pkgs (dn : done_t) (ps : list pkg) : list (pkgid * outcome) :=
    match ps with
    | [] => []
    | p :: t => let (f, o) := ref_step dn p in (p_id p, o) :: ref_pkgs ((p_id p, f) :: dn) t
    end.
  Definition ref_run (w : world) : list (pkgid * outcome) := ref_pkgs [] w.

  (* lintcmd/lint.go + cmd.go after the runner returns: check selection (merged Checks of each package, i.e.
     Cfg "Checks" and FlagChecks of the world), ignore directives, U1000 merging, sorting, formatting *)
  Variable post : world -> list (pkgid * outcome) -> O.
  Definition output (w : world) (c : cache) : O := post w (snd (run w c)).

  (* histories: arbitrary edits of the world (sources, configuration, flags, environment, reverts, touches),
     runs sharing the cache, and trimming (lintcmd/cache.Trim may drop any entry) *)
  Inductive hop := HEdit (e : world -> world) | HRun | HTrim (keep_vetx keep_res : K -> bool).
  Definition trim (kv kr : K -> bool) (c : cache) : cache :=
    mkCache (fun k => if kv k then c_vetx c k else None) (fun k => if kr k then c_res c k else None).
  Fixpoint after (h : list hop) (w : world) (c : cache) : world * cache :=
    match h with
    | [] => (w, c)
    | HEdit e :: t => after t (e w) c
    | HRun :: t => after t w (fst (run w c))
    | HTrim kv kr :: t => after t w (trim kv kr c)
    end.

  (* the invariant: an entry can only be what analysing ANY input with that key yields *)
  Definition cache_inv (c : cache) : Prop :=
    (forall k f, c_vetx c k = Some f -> forall i, key i = k -> exists r, analyse i = Some (f, r)) /\
    (forall k r, c_res c k = Some r -> forall i, key i = k -> exists f, analyse i = Some (f, r)).

  (* two inputs that differ at most in the check selection *)
  Definition same_but_checks (i i' : inp) : Prop :=
    i_deps i = i_deps i' /\
    forall d, d <> Cfg "Checks" -> d <> FlagChecks -> i_loc i d = i_loc i' d.
End CacheModel.

Arguments IV {V F}. Arguments IFacts {V F}.
Arguments mkInp {V F}. Arguments i_loc {V F}. Arguments i_deps {V F}.
Arguments get {V F}. Arguments key {V F K}.
Arguments mkPkg {V}. Arguments p_id {V}. Arguments p_deps {V}. Arguments p_initial {V}. Arguments p_loc {V}.
Arguments mkCache {F R K}. Arguments c_vetx {F R K}. Arguments c_res {F R K}.
Arguments empty {F R K}.
Arguments OFailed {R}. Arguments ODep {R}. Arguments ORes {R}.
Arguments HEdit {V K}. Arguments HRun {V K}. Arguments HTrim {V K}.
