(* C16: executable comparison of the model / the property with what the implementation reported.
   Used by cases/C16/*.v written by the harness (vm_compute).  Numbers arrive as N and are converted. *)
From Coq Require Import List Arith Bool NArith String Ascii.
Import ListNotations.
Require Import Verif.Model.C16.

(* ---------- file bytes arrive as a hex string ---------- *)
Definition hexval (a : ascii) : N :=
  let n := N_of_ascii a in
  if (N.leb 48 n && N.leb n 57)%bool then (n - 48)%N
  else if (N.leb 97 n && N.leb n 102)%bool then (n - 87)%N
  else 0%N.
Fixpoint unhex (s : string) : list N :=
  match s with
  | String a (String b r) => (16 * hexval a + hexval b)%N :: unhex r
  | _ => []
  end.

(* file contents arrive as a string in which printable ASCII stands for itself and every other byte
   (and the double quote and the backslash) is written \hh *)
Fixpoint unesc (s : string) : list N :=
  match s with
  | EmptyString => []
  | String c r =>
      if N.eqb (N_of_ascii c) 92 then
        match r with
        | String a (String b r') => (16 * hexval a + hexval b)%N :: unesc r'
        | _ => []
        end
      else N_of_ascii c :: unesc r
  end.

(* a position as the runner serialises it: line, column, byte offset *)
Record rpos := mkP { p_line : N; p_col : N; p_off : N }.
Definition lc (p : rpos) : nat * nat := (N.to_nat (p_line p), N.to_nat (p_col p)).

(* ---------- diagnostics (and their related positions) ---------- *)
Record dcase := mkD {
  d_file : nat;                      (* index into the table of files of this shard *)
  d_pos : rpos;
  d_end : option (bool * rpos)       (* None: the problem has no end.  bool: end lies in the same file *)
}.
Inductive dviol := VStart | VEndFile | VEndPos | VEndBeforeStart.
Inductive dmism := MStartOffset | MEndOffset.

Definition getfile (files : list file) (i : nat) : file := nth i files [].

Definition diag_violation (files : list file) (d : dcase) : list dviol :=
  let f := getfile files (d_file d) in
  (if valid_pos_b f (lc (d_pos d)) then [] else [VStart]) ++
  match d_end d with
  | None => []
  | Some (same, e) =>
      if negb same then [VEndFile]
      else if negb (valid_pos_b f (lc e)) then [VEndPos]
      else if pos_le (lc (d_pos d)) (lc e) then [] else [VEndBeforeStart]
  end.

Definition off_agrees (f : file) (p : rpos) : bool :=
  match offset_of f (lc p) with
  | Some o => Nat.eqb o (N.to_nat (p_off p))
  | None => true          (* an invalid position is a violation, not a model mismatch *)
  end.
Definition diag_mismatch (files : list file) (d : dcase) : list dmism :=
  let f := getfile files (d_file d) in
  (if off_agrees f (d_pos d) then [] else [MStartOffset]) ++
  match d_end d with
  | Some (true, e) => if off_agrees f e then [] else [MEndOffset]
  | _ => []
  end.

(* ---------- suggested fixes ---------- *)
Record ecase := mkE { ec_start : rpos; ec_end : rpos; ec_new : string (* hex *) }.
Record fcase := mkF {
  f_file : nat;
  f_onefile : bool;                  (* every edit (start and end) names this one file *)
  f_edits : list ecase;              (* in an order chosen by the harness (shuffled) *)
  f_prefix : N;                      (* harness result = first f_prefix bytes of the file *)
  f_middle : string;                 (*                  ++ these bytes (hex) *)
  f_suffix : N                       (*                  ++ last f_suffix bytes of the file *)
}.
Inductive fviol := VEditFile | VEditPos | VEditsOverlapOrBounds.
Inductive fmism := MEditOffset | MResult.

Definition edit_of (f : file) (e : ecase) : option edit :=
  match offset_of f (lc (ec_start e)), offset_of f (lc (ec_end e)) with
  | Some s, Some t => Some (mkEdit s t (unhex (ec_new e)))
  | _, _ => None
  end.
Fixpoint edits_of (f : file) (l : list ecase) : option (list edit) :=
  match l with
  | [] => Some []
  | e :: r => match edit_of f e, edits_of f r with
              | Some x, Some xs => Some (x :: xs)
              | _, _ => None
              end
  end.

Definition fix_violation (files : list file) (c : fcase) : list fviol :=
  let f := getfile files (f_file c) in
  if negb (f_onefile c) then [VEditFile]
  else match edits_of f (f_edits c) with
       | None => [VEditPos]
       | Some es => if edits_ok_b (List.length f) es then [] else [VEditsOverlapOrBounds]
       end.

Fixpoint list_eqb (a b : list N) : bool :=
  match a, b with
  | [], [] => true
  | x :: a', y :: b' => N.eqb x y && list_eqb a' b'
  | _, _ => false
  end.

Definition expected (f : file) (c : fcase) : list N :=
  firstn (N.to_nat (f_prefix c)) f ++ unhex (f_middle c) ++ skipn (List.length f - N.to_nat (f_suffix c)) f.

Definition fix_mismatch (files : list file) (c : fcase) : list fmism :=
  let f := getfile files (f_file c) in
  if negb (f_onefile c) then []
  else
    (if forallb (fun e => off_agrees f (ec_start e) && off_agrees f (ec_end e)) (f_edits c) then [] else [MEditOffset]) ++
    match edits_of f (f_edits c) with
    | None => []
    | Some es => match apply_edits f es with
                 | None => []          (* rejected edits are a violation, reported there *)
                 | Some r => if list_eqb r (expected f c) then [] else [MResult]
                 end
    end.

Definition numbered {A B} (f : A -> list B) (l : list A) : list (nat * list B) :=
  filter (fun x => match snd x with [] => false | _ => true end) (combine (seq 0 (List.length l)) (map f l)).

Definition diag_violations files ds := numbered (diag_violation files) ds.
Definition diag_mismatches files ds := numbered (diag_mismatch files) ds.
Definition fix_violations files fs := numbered (fix_violation files) fs.
Definition fix_mismatches files fs := numbered (fix_mismatch files) fs.

(* everything about one file in one evaluation (the file literal is then interpreted only once) *)
Definition check_file (f : file) (ds : list dcase) (fs : list fcase) :=
  let files := [f] in
  (diag_violations files ds, diag_mismatches files ds, fix_violations files fs, fix_mismatches files fs).
