(* C18 — model of go/ir/task.go (task graph with done flags, edges, transitive flag, wait as BFS)
   together with the builder bookkeeping that decides when a task may be marked done
   (builder.enqueue / buildFunction / iterate).

   The model is a labelled transition system whose step function is executable: a label carries the
   non-deterministic choices (who acts, in which order map iteration delivered the edges), so the
   same [step] is (a) what the theorems quantify over — every label sequence = every interleaving of
   any number of builders and waiters — and (b) what replays the event log recorded from the real
   implementation (hook go/ir/verif_c18.go) inside coqc.

   Definitions only; proofs are in Proofs/C18_Task.v. *)
From Coq Require Import List Arith NArith Bool.
Import ListNotations.

Definition id := N.              (* tasks, waiters and functions are numbered by binary naturals (cheap to compare) *)
Definition task := id.
Bind Scope N_scope with id task.          (* 0 is the nil *task: "always considered done" *)

Definition upd {A} (f : id -> A) (k : id) (v : A) : id -> A :=
  fun k' => if N.eqb k' k then v else f k'.

(* local state of one execution of (x *task).wait() *)
Record wstate := mkW {
  w_root : task;                 (* x *)
  w_work : list task;            (* work; enqueued = its element set *)
  w_seen : list task;            (* the elements of work already processed (work[0..i)); the ORDER in which
                                    the loop takes them is abstracted: any enqueued, unprocessed task may be next *)
  w_closed : bool                (* loop finished (or fast path taken): wait returns *)
}.

Record state := mkS {
  done : task -> bool;           (* channel closed *)
  edges : task -> list task;     (* x.edges *)
  trans : task -> bool;          (* x.transitive *)
  waiter : id -> option wstate;
  fns : list (id * task);       (* shared functions enqueued so far, with the task of their builder (fn.buildshared) *)
  built : id -> bool            (* fn.build == nil *)
}.

Definition init : state :=
  mkS (fun t => N.eqb t 0) (fun _ => []) (fun t => N.eqb t 0) (fun _ => None) [] (fun _ => false).

Inductive label :=
| LAddEdge (x y : task)                        (* x.addEdge(y) inserted y into x.edges *)
| LAddSkip (x y : task)                        (* x.addEdge(y) returned early *)
| LMarkDone (x : task)                         (* x.markDone() *)
| LWaitStart (w : id) (x : task)              (* x.wait() entered *)
| LWaitFast (w : id) (x : task)               (* ... and returned at once: x transitively done *)
| LWaitSkip (w : id) (u : task)               (* work[i] found transitively done *)
| LWaitObserve (w : id) (u : task) (ys : list task)   (* <-work[i].done returned; ys = u.edges in iteration order *)
| LWaitClosed (w : id) (x : task)             (* loop ended; x.transitive.Store(true); return *)
| LEnqueue (x : task) (f : id)                (* b.enqueue(fn) with fn.buildshared = x (0: not shared) *)
| LBuilt (f : id).                            (* buildFunction finished fn (fn.build = nil) *)

Definition memb (x : id) (l : list id) : bool := existsb (N.eqb x) l.
Definition inclb (a b : list id) : bool := forallb (fun x => memb x b) a.

(* append to the work list those of ys not yet enqueued, in the order given *)
Fixpoint enqueue (work ys : list task) : list task :=
  match ys with
  | [] => work
  | y :: ys' => enqueue (if memb y work then work else work ++ [y]) ys'
  end.

(* u has been enqueued and not processed yet *)
Definition pending (ws : wstate) (u : task) : bool := memb u (w_work ws) && negb (memb u (w_seen ws)).

Definition owned_built (s : state) (x : task) : bool :=
  forallb (fun ft => negb (N.eqb (snd ft) x) || built s (fst ft)) (fns s).

Definition guard (s : state) (l : label) : bool :=
  match l with
  | LAddEdge x y => negb (done s x)                      (* edges are added only before markDone *)
  | LAddSkip x y => N.eqb x y || trans s y
  | LMarkDone x => negb (done s x) && owned_built s x    (* iterate: every enqueued function is built first *)
  | LWaitStart w x => match waiter s w with None => true | Some _ => false end
  | LWaitFast w x =>
      match waiter s w with
      | Some ws => negb (w_closed ws) && N.eqb (w_root ws) x && trans s x
      | None => false
      end
  | LWaitSkip w u =>
      match waiter s w with
      | Some ws => negb (w_closed ws) && pending ws u && trans s u
      | None => false
      end
  | LWaitObserve w u ys =>
      match waiter s w with
      | Some ws => negb (w_closed ws) && pending ws u && done s u   (* blocks until u is done *)
                   && inclb ys (edges s u) && inclb (edges s u) ys  (* then reads u.edges *)
      | None => false
      end
  | LWaitClosed w x =>
      match waiter s w with
      | Some ws => negb (w_closed ws) && N.eqb (w_root ws) x && inclb (w_work ws) (w_seen ws)   (* i = len(work) *)
      | None => false
      end
  | LEnqueue x f =>
      N.eqb x 0 || (negb (done s x) && negb (existsb (fun ft => N.eqb (fst ft) f) (fns s)))
  | LBuilt f => negb (built s f)                         (* a function body is built once *)
  end.

Definition set_waiter (s : state) (w : id) (ws : wstate) : state :=
  mkS (done s) (edges s) (trans s) (upd (waiter s) w (Some ws)) (fns s) (built s).

Definition effect (s : state) (l : label) : state :=
  match l with
  | LAddEdge x y =>
      mkS (done s) (upd (edges s) x (if memb y (edges s x) then edges s x else y :: edges s x))
          (trans s) (waiter s) (fns s) (built s)
  | LAddSkip _ _ => s
  | LMarkDone x => mkS (upd (done s) x true) (edges s) (trans s) (waiter s) (fns s) (built s)
  | LWaitStart w x => set_waiter s w (mkW x [x] [] false)
  | LWaitFast w _ =>
      match waiter s w with
      | Some ws => set_waiter s w (mkW (w_root ws) (w_work ws) (w_seen ws) true)
      | None => s
      end
  | LWaitSkip w u =>
      match waiter s w with
      | Some ws => set_waiter s w (mkW (w_root ws) (w_work ws) (u :: w_seen ws) false)
      | None => s
      end
  | LWaitObserve w u ys =>
      match waiter s w with
      | Some ws => set_waiter s w (mkW (w_root ws) (enqueue (w_work ws) ys) (u :: w_seen ws) false)
      | None => s
      end
  | LWaitClosed w x =>
      match waiter s w with
      | Some ws =>
          mkS (done s) (edges s) (upd (trans s) x true)
              (upd (waiter s) w (Some (mkW (w_root ws) (w_work ws) (w_seen ws) true))) (fns s) (built s)
      | None => s
      end
  | LEnqueue x f =>
      if N.eqb x 0 then s
      else mkS (done s) (edges s) (trans s) (waiter s) ((f, x) :: fns s) (built s)
  | LBuilt f => mkS (done s) (edges s) (trans s) (waiter s) (fns s) (upd (built s) f true)
  end.

Definition step (s : state) (l : label) : option state :=
  if guard s l then Some (effect s l) else None.

Fixpoint run (s : state) (tr : list label) : option state :=
  match tr with
  | [] => Some s
  | l :: tr' => match step s l with Some s' => run s' tr' | None => None end
  end.

(* reachability through the edge relation of a state *)
Inductive reach (s : state) : task -> task -> Prop :=
| reach_refl : forall x, reach s x x
| reach_step : forall x y z, In y (edges s x) -> reach s y z -> reach s x z.

(* x and everything x can reach is done *)
Definition closed_done (s : state) (x : task) : Prop :=
  forall y, reach s x y -> done s y = true.

(* every shared function owned by a task reachable from x is fully built *)
Definition closed_built (s : state) (x : task) : Prop :=
  forall y f, reach s x y -> In (f, y) (fns s) -> built s f = true.

Definition returned (s : state) (w : id) (x : task) : Prop :=
  exists ws, waiter s w = Some ws /\ w_closed ws = true /\ w_root ws = x.
