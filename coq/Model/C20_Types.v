(* C20: types shared by the generated tables (Gen/C20_ReportOpts.v) and the model. *)
From Coq Require Import ZArith.
Inductive bound := BMinLang | BMaxLang | BMinStd | BMaxStd.   (* what the caller asks for: the setter's NAME *)
Inductive field := FMinLang | FMaxLang | FMinStd | FMaxStd.   (* the Options field actually written / read *)
Inductive vkind := VLang | VStd.                              (* which effective version a gate compares against *)
Definition version := (Z * Z)%type.                           (* go<major>.<minor> *)
