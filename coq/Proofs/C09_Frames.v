(* C09: lemmas about the State association list and the frame bit masks (Matcher.set / pop / merge). *)
From Coq Require Import List String ZArith NArith Bool Lia.
Import ListNotations.
Require Import Verif.Model.C09_Types Verif.Model.C09.
Open Scope string_scope.
Open Scope list_scope.

Lemma str_eqb_eq a b : String.eqb a b = true <-> a = b.
Proof. apply String.eqb_eq. Qed.
Lemma str_eqb_neq a b : String.eqb a b = false <-> a <> b.
Proof. apply String.eqb_neq. Qed.

(* ---------------------------------------------------------------- lookup / keys *)
Lemma lookup_none_notin n (s : state) : lookup n s = None <-> ~ In n (keys s).
Proof.
  unfold lookup, keys. induction s as [|[k w] s IH]; simpl.
  - split; auto.
  - destruct (String.eqb k n) eqn:E.
    + apply str_eqb_eq in E. subst. split; [discriminate|]. intro H. exfalso. apply H. auto.
    + apply str_eqb_neq in E. rewrite IH. split.
      * intros H [H1|H1]; [apply E; exact H1 | apply H; exact H1].
      * intros H H1. apply H. right. exact H1.
Qed.

Lemma keys_app (a b : state) : keys (a ++ b) = (keys a ++ keys b)%list.
Proof. unfold keys. apply map_app. Qed.

Lemma set_st_app_notin n v (b a : state) :
  ~ In n (keys b) -> set_st n v (b ++ a) = (b ++ set_st n v a)%list.
Proof.
  induction b as [|[k w] b IH]; simpl; intro H; [reflexivity|].
  destruct (String.eqb k n) eqn:E.
  - apply str_eqb_eq in E. exfalso. apply H. left. exact E.
  - rewrite IH; [reflexivity|]. intro H1. apply H. right. exact H1.
Qed.

Lemma keys_set_st_in n v (a : state) : In n (keys a) -> keys (set_st n v a) = keys a.
Proof.
  induction a as [|[k w] a IH]; simpl; intro H; [contradiction|].
  destruct (String.eqb k n) eqn:E; simpl; [reflexivity|].
  apply str_eqb_neq in E. destruct H as [H|H]; [contradiction|]. rewrite IH by exact H. reflexivity.
Qed.
Lemma keys_set_st_notin n v (a : state) : ~ In n (keys a) -> keys (set_st n v a) = (keys a ++ [n])%list.
Proof.
  induction a as [|[k w] a IH]; simpl; intro H; [reflexivity|].
  destruct (String.eqb k n) eqn:E.
  - apply str_eqb_eq in E. exfalso. apply H. left. exact E.
  - simpl. rewrite IH; [reflexivity|]. intro H1. apply H. right. exact H1.
Qed.
Lemma in_keys_set_st n v (a : state) m : In m (keys (set_st n v a)) <-> m = n \/ In m (keys a).
Proof.
  destruct (in_dec string_dec n (keys a)) as [Hi|Hn].
  - rewrite keys_set_st_in by exact Hi. split; [auto|]. intros [->|H]; assumption.
  - rewrite keys_set_st_notin by exact Hn. rewrite in_app_iff. simpl. split.
    + intros [H|[H|[]]]; auto.
    + intros [->|H]; auto.
Qed.

Lemma nodup_snoc {A} (l : list A) (x : A) : NoDup l -> ~ In x l -> NoDup (l ++ [x]).
Proof.
  induction l as [|y l IH]; simpl; intros H Hn.
  - constructor; [intros []|constructor].
  - inversion H; subst. constructor.
    + rewrite in_app_iff. simpl. intros [H1|[H1|[]]]; [contradiction|]. apply Hn. left. symmetry. exact H1.
    + apply IH; [assumption|]. intro H1. apply Hn. right. exact H1.
Qed.

Lemma nodup_keys_set_st n v (a : state) : NoDup (keys a) -> NoDup (keys (set_st n v a)).
Proof.
  intro H. destruct (in_dec string_dec n (keys a)) as [Hi|Hn].
  - rewrite keys_set_st_in by exact Hi. exact H.
  - rewrite keys_set_st_notin by exact Hn. apply nodup_snoc; assumption.
Qed.

(* ---------------------------------------------------------------- bits *)
Lemma testbit_bit idx i : idx < 64 -> N.testbit (bit idx) (N.of_nat i) = Nat.eqb idx i.
Proof.
  intro H. unfold bit. destruct (Nat.ltb idx 64) eqn:E; [|apply Nat.ltb_ge in E; lia].
  rewrite N.shiftl_1_l, N.pow2_bits_eqb.
  destruct (Nat.eqb idx i) eqn:E1.
  - apply Nat.eqb_eq in E1. subst. apply N.eqb_refl.
  - apply Nat.eqb_neq in E1. apply N.eqb_neq. intro H1. apply E1. apply Nat2N.inj. exact H1.
Qed.

(* ---------------------------------------------------------------- pop as a filter *)
Section Frames.
Variable mapping : list string.
Hypothesis Hnodup : NoDup mapping.

Definition in_frame (f : N) (n : string) : bool :=
  existsb (fun i => N.testbit f (N.of_nat i) &&
                    match nth_error mapping i with Some k => String.eqb k n | None => false end)
          (seq 0 (List.length mapping)).

Lemma filter_filter {A} (p q : A -> bool) l : filter p (filter q l) = filter (fun x => q x && p x) l.
Proof.
  induction l as [|x l IH]; simpl; [reflexivity|].
  destruct (q x); simpl; [destruct (p x); rewrite IH; reflexivity | exact IH].
Qed.

Lemma filter_all {A} (p : A -> bool) l : (forall x, In x l -> p x = true) -> filter p l = l.
Proof.
  induction l as [|x l IH]; simpl; intro H; [reflexivity|].
  rewrite (H x (or_introl eq_refl)). rewrite IH; [reflexivity|]. intros y Hy. apply H. right. exact Hy.
Qed.
Lemma filter_none {A} (p : A -> bool) l : (forall x, In x l -> p x = false) -> filter p l = [].
Proof.
  induction l as [|x l IH]; simpl; intro H; [reflexivity|].
  rewrite (H x (or_introl eq_refl)). apply IH. intros y Hy. apply H. right. exact Hy.
Qed.
Lemma nodup_app_disjoint {A} (l1 l2 : list A) x : NoDup (l1 ++ l2) -> In x l1 -> In x l2 -> False.
Proof.
  induction l1 as [|y l1 IH]; simpl; intros H H1 H2; [contradiction|].
  apply NoDup_cons_iff in H as [Hy Hn]. destruct H1 as [->|H1].
  - apply Hy. apply in_or_app. right. exact H2.
  - apply IH; assumption.
Qed.

Lemma pop_fold_filter (f : N) (L : list nat) (s : state) :
  fold_left (fun s i => if N.testbit f (N.of_nat i)
                        then match nth_error mapping i with Some k => del_st k s | None => s end
                        else s) L s =
  filter (fun kv => negb (existsb (fun i => N.testbit f (N.of_nat i) &&
                     match nth_error mapping i with Some k => String.eqb k (fst kv) | None => false end) L)) s.
Proof.
  revert s. induction L as [|i L IH]; intro s; simpl.
  - symmetry. apply filter_all. reflexivity.
  - rewrite IH. destruct (N.testbit f (N.of_nat i)); simpl.
    + destruct (nth_error mapping i) as [k|]; simpl.
      * unfold del_st. rewrite filter_filter. apply filter_ext. intro kv.
        rewrite (String.eqb_sym k (fst kv)). rewrite negb_orb. reflexivity.
      * reflexivity.
    + reflexivity.
Qed.

Lemma pop_state_filter f s : pop_state mapping f s = filter (fun kv => negb (in_frame f (fst kv))) s.
Proof. unfold pop_state, in_frame. apply pop_fold_filter. Qed.

Lemma in_frame_true f n :
  in_frame f n = true <-> exists i, N.testbit f (N.of_nat i) = true /\ nth_error mapping i = Some n.
Proof.
  unfold in_frame. rewrite existsb_exists. split.
  - intros [i [_ H]]. apply andb_true_iff in H as [H1 H2]. exists i. split; [exact H1|].
    destruct (nth_error mapping i) as [k|]; [|discriminate]. apply String.eqb_eq in H2. subst. reflexivity.
  - intros [i [H1 H2]]. exists i. split.
    + apply in_seq. split; [lia|]. simpl. apply nth_error_Some. rewrite H2. discriminate.
    + rewrite H1, H2. simpl. apply String.eqb_refl.
Qed.

(* The frame invariant: the State is the State at push time [B] followed by the bindings made since, and
   the frame's bits are exactly the indices of the names bound since. *)
Definition frame_inv (B S : state) (f : N) : Prop :=
  exists A, S = B ++ A /\ NoDup (keys S) /\
    (forall n, In n (keys A) -> exists i, N.testbit f (N.of_nat i) = true /\ nth_error mapping i = Some n) /\
    (forall i, N.testbit f (N.of_nat i) = true -> exists n, nth_error mapping i = Some n /\ In n (keys A)).

Lemma frame_inv_push S : NoDup (keys S) -> frame_inv S S 0%N.
Proof.
  intro H. exists []. rewrite app_nil_r. repeat split; auto.
  - intros n [].
  - intros i Hi. rewrite N.bits_0 in Hi. discriminate.
Qed.

Lemma frame_inv_nodup B S f : frame_inv B S f -> NoDup (keys S).
Proof. intros [A [_ [H _]]]. exact H. Qed.

Lemma frame_inv_base_keys B S f n : frame_inv B S f -> In n (keys B) -> In n (keys S).
Proof. intros [A [-> _]] H. rewrite keys_app. apply in_or_app. left. exact H. Qed.

(* Matcher.pop restores the State at push time *)
Lemma frame_inv_pop B S f : frame_inv B S f -> pop_state mapping f S = B.
Proof.
  intros [A [-> [Hnd [H1 H2]]]]. rewrite pop_state_filter, filter_app.
  rewrite keys_app in Hnd.
  rewrite (filter_all _ B), (filter_none _ A); [apply app_nil_r | |].
  - intros kv Hkv. assert (E : in_frame f (fst kv) = true).
    { apply in_frame_true. apply H1. apply in_map. exact Hkv. }
    rewrite E. reflexivity.
  - intros kv Hkv. destruct (in_frame f (fst kv)) eqn:E; [|reflexivity]. exfalso.
    apply in_frame_true in E as [i [Hi Hn]]. destruct (H2 i Hi) as [n [Hn' Hin]].
    rewrite Hn in Hn'. inversion Hn'; subst n.
    apply (nodup_app_disjoint _ _ (fst kv) Hnd); [apply in_map; exact Hkv | exact Hin].
Qed.

(* Matcher.set of a name that was unbound at push time, with the index of that name *)
Lemma frame_inv_set B S f n idx v :
  frame_inv B S f -> ~ In n (keys B) -> nth_error mapping idx = Some n -> idx < 64 ->
  frame_inv B (set_st n v S) (N.lor f (bit idx)).
Proof.
  intros [A [-> [Hnd [H1 H2]]]] HnB Hidx H64.
  exists (set_st n v A). split; [apply set_st_app_notin; exact HnB|]. split.
  - apply nodup_keys_set_st. exact Hnd.
  - split.
    + intros m Hm. apply in_keys_set_st in Hm as [->|Hm].
      * exists idx. split; [|exact Hidx]. rewrite N.lor_spec, testbit_bit by exact H64.
        rewrite Nat.eqb_refl. apply orb_true_r.
      * destruct (H1 m Hm) as [i [Hi Hn]]. exists i. split; [|exact Hn]. rewrite N.lor_spec, Hi. reflexivity.
    + intros i Hi. rewrite N.lor_spec in Hi. apply orb_true_iff in Hi as [Hi|Hi].
      * destruct (H2 i Hi) as [m [Hm Hin]]. exists m. split; [exact Hm|]. apply in_keys_set_st. right. exact Hin.
      * rewrite testbit_bit in Hi by exact H64. apply Nat.eqb_eq in Hi. subst i.
        exists n. split; [exact Hidx|]. apply in_keys_set_st. left. reflexivity.
Qed.

(* Matcher.merge (propagating): the bindings of the inner frame now belong to the enclosing frame *)
Lemma frame_inv_merge B S f S1 f1 :
  frame_inv B S f -> frame_inv S S1 f1 -> frame_inv B S1 (N.lor f f1).
Proof.
  intros [A [-> [_ [H1 H2]]]] [A1 [-> [Hnd [H3 H4]]]].
  exists (A ++ A1). split; [symmetry; apply app_assoc|]. split; [exact Hnd|]. split.
  - intros n Hn. rewrite keys_app in Hn. apply in_app_or in Hn as [Hn|Hn].
    + destruct (H1 n Hn) as [i [Hi Hm]]. exists i. split; [|exact Hm]. rewrite N.lor_spec, Hi. reflexivity.
    + destruct (H3 n Hn) as [i [Hi Hm]]. exists i. split; [|exact Hm]. rewrite N.lor_spec, Hi. apply orb_true_r.
  - intros i Hi. rewrite N.lor_spec in Hi. apply orb_true_iff in Hi as [Hi|Hi].
    + destruct (H2 i Hi) as [n [Hn Hin]]. exists n. split; [exact Hn|]. rewrite keys_app. apply in_or_app. left. exact Hin.
    + destruct (H4 i Hi) as [n [Hn Hin]]. exists n. split; [exact Hn|]. rewrite keys_app. apply in_or_app. right. exact Hin.
Qed.
End Frames.
