(* C03: proofs about the abstract dispatch model (Model/C03.v) and its instantiation with the registry. *)
From Coq Require Import List String Bool Lia.
Import ListNotations.
Require Import Verif.Model.C03_Types Verif.Gen.C03_Switches Verif.Model.C03 Verif.Model.C03_Registry.
Open Scope string_scope.

Lemma mem_In s l : mem s l = true <-> In s l.
Proof.
  unfold mem. rewrite existsb_exists. split.
  - intros [x [Hin He]]. apply String.eqb_eq in He. subst. exact Hin.
  - intro H. exists s. split; [exact H | apply String.eqb_refl].
Qed.

Lemma mem_false_not_In s l : mem s l = false <-> ~ In s l.
Proof.
  split.
  - intros H Hin. apply mem_In in Hin. rewrite Hin in H. discriminate.
  - intro H. destruct (mem s l) eqn:E; [|reflexivity]. apply mem_In in E. contradiction.
Qed.

(* ---------- dispatch: first-match semantics ---------- *)
Lemma dispatch_from_default ifaces cases d : forall i,
  dispatch_from ifaces cases d i = Default <-> covered ifaces cases d = false.
Proof.
  induction cases as [|c r IH]; intro i; simpl.
  - split; reflexivity.
  - destruct (case_matches ifaces c d); simpl.
    + split; discriminate.
    + apply IH.
Qed.

Lemma dispatch_default_iff ifaces cases d :
  dispatch ifaces cases d = Default <-> covered ifaces cases d = false.
Proof. apply dispatch_from_default. Qed.

(* the clause taken is the FIRST one (in source order) that accepts d *)
Lemma dispatch_from_clause ifaces cases d : forall i k,
  dispatch_from ifaces cases d i = Clause k ->
  i <= k /\ exists c, nth_error cases (k - i) = Some c /\ case_matches ifaces c d = true /\
  forall j c', j < k - i -> nth_error cases j = Some c' -> case_matches ifaces c' d = false.
Proof.
  induction cases as [|c r IH]; intros i k H; simpl in H; [discriminate|].
  destruct (case_matches ifaces c d) eqn:E.
  - inversion H; subst. split; [lia|]. exists c. replace (k - k) with 0 by lia. simpl.
    repeat split; [exact E|]. intros j c' Hj. lia.
  - apply IH in H as [Hle [c0 [Hn [Hm Hfirst]]]]. split; [lia|]. exists c0.
    replace (k - i) with (S (k - S i)) by lia. simpl. repeat split; [exact Hn | exact Hm |].
    intros j c' Hj Hnth. destruct j as [|j]; simpl in Hnth.
    + inversion Hnth; subst. exact E.
    + apply (Hfirst j c'); [lia | exact Hnth].
Qed.

Theorem dispatch_first_match ifaces cases d k :
  dispatch ifaces cases d = Clause k ->
  exists c, nth_error cases k = Some c /\ case_matches ifaces c d = true /\
  forall j c', j < k -> nth_error cases j = Some c' -> case_matches ifaces c' d = false.
Proof.
  intro H. apply dispatch_from_clause in H as [_ [c H]]. replace (k - 0) with k in H by lia.
  exists c. exact H.
Qed.

(* ---------- coverage implies the panic branch is unreachable ---------- *)
Lemma uncovered_nil ifaces cases univ excl :
  uncovered ifaces cases univ excl = [] ->
  forall d, In d univ -> mem d excl = false -> covered ifaces cases d = true.
Proof.
  unfold uncovered. intros H d Hin Hex.
  destruct (covered ifaces cases d) eqn:E; [reflexivity|].
  assert (Hf : In d (filter (fun d => negb (mem d excl) && negb (covered ifaces cases d)) univ)).
  { apply filter_In. split; [exact Hin|]. rewrite Hex, E. reflexivity. }
  rewrite H in Hf. destruct Hf.
Qed.

(* The general lemma: if the case list covers the universe minus the exclusions, the modelled dispatch
   function never reaches its panicking default for any non-excluded member of the universe. *)
Theorem covers_total ifaces cases univ excl :
  covers ifaces cases univ excl = true ->
  forall d, In d univ -> ~ In d excl -> dispatch ifaces cases d <> Default.
Proof.
  unfold covers. intros H d Hin Hex Hd.
  destruct (uncovered ifaces cases univ excl) eqn:E; [|discriminate].
  apply dispatch_default_iff in Hd.
  rewrite (uncovered_nil ifaces cases univ excl E d Hin) in Hd; [discriminate|].
  apply mem_false_not_In. exact Hex.
Qed.

(* ... and conversely every reported witness really sends the model to the default: witnesses are not noise *)
Theorem uncovered_is_default ifaces cases univ excl d :
  In d (uncovered ifaces cases univ excl) ->
  In d univ /\ ~ In d excl /\ dispatch ifaces cases d = Default.
Proof.
  unfold uncovered. intro H. apply filter_In in H as [Hin Hb].
  apply andb_true_iff in Hb as [Hex Hc]. apply negb_true_iff in Hex, Hc.
  repeat split; [exact Hin | apply mem_false_not_In; exact Hex | apply dispatch_default_iff; exact Hc].
Qed.

(* ---------- the registry ---------- *)
Theorem reg_ok_total (r : reg) :
  reg_ok r = true ->
  exists sw u, find_switch (r_id r) = Some sw /\ universe_of r = Some u /\
    forall d, In d u -> ~ In d (excluded r) -> dispatch gen_universes (sw_cases sw) d <> Default.
Proof.
  unfold reg_ok, reg_witnesses. intro H.
  destruct (find_switch (r_id r)) as [sw|] eqn:Es; [|discriminate].
  destruct (universe_of r) as [u|] eqn:Eu; [|discriminate].
  exists sw, u. repeat split.
  apply covers_total. unfold covers.
  destruct (uncovered gen_universes (sw_cases sw) u (excluded r)); [reflexivity | discriminate].
Qed.

Theorem registry_total_generic :
  forallb reg_ok registry = true ->
  forall r, In r registry ->
  exists sw u, find_switch (r_id r) = Some sw /\ universe_of r = Some u /\
    forall d, In d u -> ~ In d (excluded r) -> dispatch gen_universes (sw_cases sw) d <> Default.
Proof.
  intros H r Hin. rewrite forallb_forall in H. apply reg_ok_total. apply H. exact Hin.
Qed.

(* named instance: look a registered switch up by id *)
Definition total_on (id : string) (univ excl : list string) : Prop :=
  exists sw, find_switch id = Some sw /\
    forall d, In d univ -> ~ In d excl -> dispatch gen_universes (sw_cases sw) d <> Default.

Lemma total_on_intro id univ excl :
  (match find_switch id with
   | Some sw => covers gen_universes (sw_cases sw) univ excl
   | None => false end) = true ->
  total_on id univ excl.
Proof.
  unfold total_on. destruct (find_switch id) as [sw|]; [|discriminate].
  intro H. exists sw. split; [reflexivity|]. apply covers_total. exact H.
Qed.

Lemma total_on_chk id univ excl : chk id univ excl = true -> total_on id univ excl.
Proof. exact (total_on_intro id univ excl). Qed.

(* found switches are members of the generated table with that id *)
Lemma find_switch_sound id sw : find_switch id = Some sw -> In sw gen_switches /\ sw_id sw = id.
Proof.
  unfold find_switch. intro H. apply find_some in H as [Hin He].
  apply String.eqb_eq in He. split; assumption.
Qed.
