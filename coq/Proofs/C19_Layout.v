(* C19: structlayout's `sizes` — the printed lines tile the struct, every leaf is where the compiler puts it, and the
   invariants that make structlayout-optimize's result never larger than its input. *)
From Coq Require Import List ZArith Bool Lia Znumtheory Permutation.
Import ListNotations.
Require Import Verif.Model.C19_Types Verif.Model.C19 Verif.Proofs.C19 Verif.Proofs.C19_Optimize.
Open Scope Z_scope.

(* the loop of `sizes`, as a top-level function *)
Fixpoint lay_fields (T : tables) (a : arch) (rpath : list nat) (base : Z) (fs : list ty) (i : nat) (o pos : Z)
  : list entry :=
  match fs with
  | [] => []
  | f :: fs' =>
      let '(sz, al) := sa T a f in
      let off := base + align_up o al in
      let padl := if pos <? off then [mkpad pos off] else [] in
      let pos1 := if pos <? off then off else pos in
      let here := if expands f then lay T a f (i :: rpath) pos1
                  else [mkE (rev (i :: rpath)) off (off + sz) sz al false] in
      padl ++ here ++ lay_fields T a rpath base fs' (S i) (align_up o al + sz) (pos1 + sz)
  end.

Lemma lay_fields_eq T a rp base fs : forall i o pos,
  (fix go (fs : list ty) (i : nat) (o : Z) (pos : Z) {struct fs} : list entry :=
     match fs with
     | [] => []
     | f :: fs' =>
         let '(sz, al) := sa T a f in
         let off := base + align_up o al in
         let padl := if pos <? off then [mkpad pos off] else [] in
         let pos1 := if pos <? off then off else pos in
         let here := if expands f then lay T a f (i :: rp) pos1
                     else [mkE (rev (i :: rp)) off (off + sz) sz al false] in
         padl ++ here ++ go fs' (S i) (align_up o al + sz) (pos1 + sz)
     end) fs i o pos = lay_fields T a rp base fs i o pos.
Proof.
  induction fs as [|f fs' IH]; intros i o pos; [reflexivity|].
  cbn [lay_fields]. destruct (sa T a f) as [sz al]. cbv zeta. rewrite IH. reflexivity.
Qed.

Lemma lay_struct T a fs rp base :
  lay T a (TStruct fs) rp base =
  finish (lay_fields T a rp base fs 0%nat 0 base) (negb (fst (sa T a (TStruct fs)) =? 0)) (base + fst (sa T a (TStruct fs))).
Proof. cbn [lay]. rewrite lay_fields_eq. reflexivity. Qed.

Fixpoint gc_leaves_fields (ptr reg : Z) (rpath : list nat) (base : Z) (fs : list ty) (i : nat) (o : Z)
  : list (list nat * Z * Z * Z) :=
  match fs with
  | [] => []
  | f :: fs' =>
      let '(w, al) := gc_sa ptr reg f in
      let off := roundup o al in
      (if expands f then gc_leaves ptr reg f (i :: rpath) (base + off) else [(rev (i :: rpath), base + off, w, al)])
        ++ gc_leaves_fields ptr reg rpath base fs' (S i) (off + w)
  end.
Lemma gc_leaves_fields_eq ptr reg rp base fs : forall i o,
  (fix go (fs : list ty) (i : nat) (o : Z) {struct fs} : list (list nat * Z * Z * Z) :=
     match fs with
     | [] => []
     | f :: fs' =>
         let '(w, al) := gc_sa ptr reg f in
         let off := roundup o al in
         (if expands f then gc_leaves ptr reg f (i :: rp) (base + off)
          else [(rev (i :: rp), base + off, w, al)])
         ++ go fs' (S i) (off + w)
     end) fs i o = gc_leaves_fields ptr reg rp base fs i o.
Proof.
  induction fs as [|f fs' IH]; intros i o; [reflexivity|].
  cbn [gc_leaves_fields]. destruct (gc_sa ptr reg f) as [w al]. cbv zeta. rewrite IH. reflexivity.
Qed.
Lemma gc_leaves_struct ptr reg fs rp base :
  gc_leaves ptr reg (TStruct fs) rp base = gc_leaves_fields ptr reg rp base fs 0%nat 0.
Proof. cbn [gc_leaves]. rewrite gc_leaves_fields_eq. reflexivity. Qed.

(* ---------------------------------------------------------------------------------------------- finish *)
Definition dummy : entry := mkpad 0 0.
Definition fudge (l : entry) : entry := mkE (e_path l) (e_start l) (e_end l + 1) 1 (e_align l) (e_pad l).

Lemma finish_cons e r nz endz : r <> [] -> finish (e :: r) nz endz = e :: finish r nz endz.
Proof. destruct r; [contradiction | reflexivity]. Qed.

Lemma finish_app l1 l2 nz endz : l2 <> [] -> finish (l1 ++ l2) nz endz = l1 ++ finish l2 nz endz.
Proof.
  intro H. induction l1 as [|e r IH]; [reflexivity|].
  simpl app. rewrite finish_cons; [f_equal; exact IH|]. destruct r; simpl; [exact H | discriminate].
Qed.

Lemma finish_tiles out nz endz lo p :
  tiles out lo p -> out <> [] -> p <= endz ->
  (e_size (last out dummy) = 0 -> nz = true -> p + 1 <= endz) ->
  tiles (finish out nz endz) lo endz.
Proof.
  revert lo. induction out as [|e r IH]; intros lo Ht Hne Hp Hf; [contradiction|].
  destruct r as [|e' r'].
  - simpl in Ht. destruct Ht as (A & B & C & D). simpl in Hf. unfold finish.
    destruct ((e_size e =? 0) && nz) eqn:E.
    + apply andb_true_iff in E as [E1 E2]. apply Z.eqb_eq in E1. specialize (Hf E1 E2).
      cbv zeta. simpl e_end. destruct (e_end e + 1 <? endz) eqn:E3.
      * apply Z.ltb_lt in E3. simpl. repeat split; try lia.
      * apply Z.ltb_ge in E3. simpl. repeat split; try lia.
    + cbv zeta. destruct (e_end e <? endz) eqn:E3.
      * apply Z.ltb_lt in E3. simpl. repeat split; try lia.
      * apply Z.ltb_ge in E3. simpl. repeat split; try lia.
  - rewrite finish_cons by discriminate. destruct Ht as (A & B & C & D).
    simpl. repeat split; auto. apply IH with (lo := e_end e); auto. discriminate.
Qed.

Lemma finish_last out nz endz :
  out <> [] -> finish out nz endz <> [] /\ (nz = true -> e_size (last (finish out nz endz) dummy) <> 0).
Proof.
  induction out as [|e r IH]; intro Hne; [contradiction|]. destruct r as [|e' r'].
  - unfold finish. cbv zeta. destruct ((e_size e =? 0) && nz) eqn:E.
    + simpl e_end. destruct (e_end e + 1 <? endz) eqn:E3.
      * split; [discriminate|]. intros _. simpl. apply Z.ltb_lt in E3. lia.
      * split; [discriminate|]. intros _. simpl. lia.
    + destruct (e_end e <? endz) eqn:E3.
      * split; [discriminate|]. intros _. simpl. apply Z.ltb_lt in E3. lia.
      * split; [discriminate|]. intros ->. simpl. rewrite andb_true_r in E. apply Z.eqb_neq in E. exact E.
  - rewrite finish_cons by discriminate. destruct (IH ltac:(discriminate)) as [H1 H2]. split; [discriminate|].
    intro Hnz. specialize (H2 Hnz).
    destruct (finish (e' :: r') nz endz) eqn:Ef; [contradiction|]. exact H2.
Qed.

(* ---------------------------------------------------------------------------------------------- invariants *)
(* every non-padding line: sane size, power-of-two alignment dividing its start and the enclosing alignment A *)
Definition leaf_wf (A : Z) (e : entry) : Prop :=
  e_pad e = false -> 0 <= e_size e /\ pow2 (e_align e) /\ (e_align e | e_start e) /\ (e_align e | A).

(* the non-padding lines fit into [lo, hi) in order even when each is rounded up to its own alignment *)
Fixpoint rfits (l : list entry) (lo hi : Z) : Prop :=
  match l with
  | [] => lo <= hi
  | e :: r => if e_pad e then rfits r lo hi else lo <= e_start e /\ rfits r (e_start e + rsize e) hi
  end.

Definition leaf_rel (e : entry) (c : list nat * Z * Z * Z) : Prop :=
  let '(p, off, w, al) := c in
  e_path e = p /\ e_start e = off /\ e_align e = al /\ (e_size e = w \/ (w = 0 /\ e_size e = 1)).

Definition path_ok (rp : list nat) (e : entry) : Prop :=
  e_pad e = false -> exists q, e_path e = rev rp ++ q /\ q <> [].
Definition first_at (l : list entry) (lo : Z) : Prop :=
  exists e r, l = e :: r /\ e_pad e = false /\ e_start e = lo.

Lemma rfits_weaken l lo hi lo' hi' : lo' <= lo -> hi <= hi' -> rfits l lo hi -> rfits l lo' hi'.
Proof.
  revert lo lo'. induction l as [|e r IH]; intros lo lo' H1 H2; simpl; [lia|].
  destruct (e_pad e).
  - apply IH; auto.
  - intros [A B]. split; [lia|]. eapply IH; [| |exact B]; lia.
Qed.
Lemma rfits_le l lo hi : Forall (fun e => e_pad e = false -> 0 <= rsize e) l -> rfits l lo hi -> lo <= hi.
Proof.
  intro H. revert lo. induction H as [|e r He Hr IH]; intro lo; simpl; [lia|].
  destruct (e_pad e) eqn:E.
  - apply IH.
  - intros [A B]. apply IH in B. specialize (He eq_refl). lia.
Qed.
Lemma rfits_app l1 l2 lo mid hi :
  rfits l1 lo mid -> rfits l2 mid hi -> rfits (l1 ++ l2) lo hi.
Proof.
  revert lo. induction l1 as [|e r IH]; intros lo H1 H2; simpl in *.
  - eapply rfits_weaken; [exact H1 | | exact H2]. lia.
  - destruct (e_pad e); [apply IH; auto|]. destruct H1 as [A B]. split; auto.
Qed.
Lemma rfits_rsum l lo hi : rfits l lo hi -> rsum (nonpad l) <= hi - lo.
Proof.
  revert lo. induction l as [|e r IH]; intro lo; simpl; [lia|].
  destruct (e_pad e) eqn:E; simpl.
  - apply IH.
  - intros [A B]. apply IH in B. lia.
Qed.

Lemma last_app_ne (l1 l2 : list entry) d : l2 <> [] -> last (l1 ++ l2) d = last l2 d.
Proof.
  intro H. induction l1 as [|e r IH]; [reflexivity|].
  simpl app. destruct (r ++ l2) eqn:E.
  - destruct r; simpl in E; [contradiction | discriminate].
  - change (last (e0 :: l) d = last l2 d). exact IH.
Qed.

Lemma nonpad_app l1 l2 : nonpad (l1 ++ l2) = nonpad l1 ++ nonpad l2.
Proof. apply filter_app. Qed.

Lemma divide_gap a x y : 0 < a -> (a | x) -> (a | y) -> x < y -> x + a <= y.
Proof. intros Ha [i ->] [j ->] H. assert (i < j) by nia. nia. Qed.

(* finish and the invariants *)
Lemma finish_leaf_wf A out nz endz : Forall (leaf_wf A) out -> Forall (leaf_wf A) (finish out nz endz).
Proof.
  induction out as [|e r IH]; intro H; [constructor|]. inversion H as [|? ? He Hr]; subst.
  destruct r as [|e' r'].
  - unfold finish. cbv zeta.
    assert (Hf : leaf_wf A (if (e_size e =? 0) && nz then fudge e else e)).
    { destruct (_ && _); [|exact He]. unfold leaf_wf, fudge in *. simpl. intro Hp.
      destruct (He Hp) as (B & C & D & E). repeat split; auto. lia. }
    fold (fudge e) in *. set (x := if (e_size e =? 0) && nz then fudge e else e) in *.
    assert (Hpd : leaf_wf A (mkpad (e_end x) endz)) by (unfold leaf_wf; simpl; discriminate).
    destruct (e_end x <? endz); [apply Forall_cons; [exact Hf | apply Forall_cons; [exact Hpd | apply Forall_nil]]
                                | apply Forall_cons; [exact Hf | apply Forall_nil]].
  - rewrite finish_cons by discriminate. constructor; auto.
Qed.

Lemma finish_path_ok rp out nz endz : Forall (path_ok rp) out -> Forall (path_ok rp) (finish out nz endz).
Proof.
  induction out as [|e r IH]; intro H; [constructor|]. inversion H as [|? ? He Hr]; subst.
  destruct r as [|e' r'].
  - unfold finish. cbv zeta. fold (fudge e).
    assert (Hf : path_ok rp (if (e_size e =? 0) && nz then fudge e else e)).
    { destruct (_ && _); [|exact He]. unfold path_ok, fudge in *. simpl. exact He. }
    set (x := if (e_size e =? 0) && nz then fudge e else e) in *.
    assert (Hpd : path_ok rp (mkpad (e_end x) endz)) by (unfold path_ok; simpl; discriminate).
    destruct (e_end x <? endz); [apply Forall_cons; [exact Hf | apply Forall_cons; [exact Hpd | apply Forall_nil]]
                                | apply Forall_cons; [exact Hf | apply Forall_nil]].
  - rewrite finish_cons by discriminate. constructor; auto.
Qed.

Lemma finish_first out nz endz lo : first_at out lo -> first_at (finish out nz endz) lo.
Proof.
  intros (e & r & -> & Hp & Hs). destruct r as [|e' r'].
  - unfold finish. cbv zeta. fold (fudge e).
    destruct ((e_size e =? 0) && nz); destruct (_ <? endz);
      eexists; eexists; (split; [reflexivity|]); simpl; auto.
  - rewrite finish_cons by discriminate. eexists; eexists; eauto.
Qed.

Lemma finish_leaf_rel out nz endz L :
  Forall2 leaf_rel (nonpad out) L -> Forall2 leaf_rel (nonpad (finish out nz endz)) L.
Proof.
  revert L. induction out as [|e r IH]; intros L H; [exact H|].
  destruct r as [|e' r'].
  - unfold finish. cbv zeta. fold (fudge e).
    assert (Hn : forall x, nonpad ((if e_end x <? endz then [x; mkpad (e_end x) endz] else [x])) = nonpad [x]).
    { intro x. destruct (_ <? _); unfold nonpad; simpl; destruct (e_pad x); reflexivity. }
    rewrite Hn. destruct ((e_size e =? 0) && nz) eqn:E; [|exact H].
    apply andb_true_iff in E as [E _]. apply Z.eqb_eq in E.
    unfold nonpad in *. simpl in *. destruct (e_pad e); simpl in *; [exact H|].
    inversion H as [|? c ? ? Hc Hr]; subst. constructor; [|exact Hr].
    destruct c as [[[p off] w] al]. unfold leaf_rel, fudge in *. simpl.
    destruct Hc as (B & C & D & F). repeat split; auto. right. split; [lia | reflexivity].
  - rewrite finish_cons by discriminate. unfold nonpad in *. simpl in *.
    destruct (e_pad e); simpl in *; [apply IH; exact H|].
    inversion H; subst. constructor; auto.
Qed.

Lemma finish_rfits A out nz endz lo p :
  Forall (leaf_wf A) out -> rfits out lo p -> p <= endz -> 0 < A -> (A | endz) ->
  (forall e, e = last out dummy -> e_size e = 0 -> nz = true -> e_start e < endz) ->
  rfits (finish out nz endz) lo endz.
Proof.
  intros Hwf. revert lo. induction Hwf as [|e r He Hr IH]; intros lo Hfit Hp HA Hdiv Hf; [simpl in *; lia|].
  destruct r as [|e' r'].
  - unfold finish. cbv zeta. fold (fudge e). simpl in Hfit.
    assert (Hpad : forall x l', e_pad x = true -> rfits (x :: l') lo endz = rfits l' lo endz).
    { intros x l' Hx. simpl. rewrite Hx. reflexivity. }
    destruct ((e_size e =? 0) && nz) eqn:E.
    + apply andb_true_iff in E as [E1 E2]. apply Z.eqb_eq in E1.
      specialize (Hf e eq_refl E1 E2).
      assert (Hfud : rfits [fudge e] lo endz).
      { simpl. destruct (e_pad e) eqn:Ep; [simpl in Hfit; lia|].
        destruct Hfit as [Hlo _]. split; [exact Hlo|].
        destruct (He Ep) as (_ & Hpw & Hds & HdA). unfold rsize, fudge. simpl.
        pose proof (pow2_pos _ Hpw) as Hpos.
        assert (Hr1 : align_up 1 (e_align e) <= e_align e).
        { apply align_up_least; auto; [lia | apply Z.divide_refl]. }
        pose proof (divide_gap (e_align e) (e_start e) endz Hpos Hds
                      (Z.divide_trans _ _ _ HdA Hdiv) Hf). lia. }
      destruct (e_end (fudge e) <? endz).
      * change [fudge e; mkpad (e_end (fudge e)) endz] with ([fudge e] ++ [mkpad (e_end (fudge e)) endz]).
        eapply rfits_app; [exact Hfud|]. simpl. lia.
      * exact Hfud.
    + assert (Hsame : rfits [e] lo endz).
      { simpl. destruct (e_pad e); [lia|]. destruct Hfit as [B C]. split; [exact B | lia]. }
      destruct (e_end e <? endz).
      * change [e; mkpad (e_end e) endz] with ([e] ++ [mkpad (e_end e) endz]).
        eapply rfits_app; [exact Hsame|]. simpl. lia.
      * exact Hsame.
  - rewrite finish_cons by discriminate.
    assert (Hl : last (e :: e' :: r') dummy = last (e' :: r') dummy) by reflexivity.
    simpl in Hfit |- *. destruct (e_pad e).
    + apply IH; auto; intros x Hx; apply Hf; rewrite Hl; exact Hx.
    + destruct Hfit as [B C]. split; [exact B|].
      apply IH; auto; intros x Hx; apply Hf; rewrite Hl; exact Hx.
Qed.

(* ---------------------------------------------------------------------------------------------- the loop *)
Notation std := std_tables.

(* what is established for every nested struct with at least one field, placed at an aligned base *)
Definition lay_inv (a : arch) (t : ty) : Prop :=
  forall rp base, (alignof std a t | base) ->
    let L := lay std a t rp base in
    tiles L base (base + sizeof std a t)
    /\ L <> [] /\ (sizeof std a t <> 0 -> e_size (last L dummy) <> 0)
    /\ Forall (leaf_wf (alignof std a t)) L
    /\ rfits L base (base + sizeof std a t)
    /\ Forall2 leaf_rel (nonpad L) (gc_leaves (fst a) (snd a) t rp base)
    /\ first_at L base
    /\ Forall (path_ok rp) L.

Lemma leaf_wf_weaken A A' l : (A | A') -> Forall (leaf_wf A) l -> Forall (leaf_wf A') l.
Proof.
  intros HA H. eapply Forall_impl; [|exact H]. intros e He Hp. destruct (He Hp) as (B & C & D & E).
  repeat split; auto. eapply Z.divide_trans; eauto.
Qed.
Lemma path_ok_cons i rp l : Forall (path_ok (i :: rp)) l -> Forall (path_ok rp) l.
Proof.
  intro H. eapply Forall_impl; [|exact H]. intros e He Hp. destruct (He Hp) as (q & Hq & Hne).
  exists (i :: q). split; [|discriminate]. rewrite Hq. simpl. rewrite <- app_assoc. reflexivity.
Qed.

Lemma expands_struct f : expands f = true -> exists g gs, f = TStruct (g :: gs).
Proof. destruct f as [| | | | |[|g gs]]; try discriminate. intros _. eauto. Qed.

Section Fields.
  Variable a : arch.
  Hypothesis Ha : arch_ok a.
  Variables (rp : list nat) (base A : Z).
  Hypothesis HA : (A | base).

  Lemma fields_inv fs :
    Forall (fun f => wf_ty f -> expands f = true -> lay_inv a f) fs ->
    Forall wf_ty fs -> Forall (fun f => (alignof std a f | A)) fs ->
    forall i o pos, pos = base + o ->
      let L := lay_fields std a rp base fs i o pos in
      let hi := base + end_from o (map (sa std a) fs) in
      tiles L pos hi
      /\ Forall (leaf_wf A) L
      /\ rfits L pos hi
      /\ Forall2 leaf_rel (nonpad L) (gc_leaves_fields (fst a) (snd a) rp base fs i o)
      /\ Forall (path_ok rp) L
      /\ (fs <> [] -> L <> [] /\ (e_size (last L dummy) = 0 -> last_size (map (sa std a) fs) = 0))
      /\ (fs <> [] -> (alignof std a (hd TPtr fs) | o) -> first_at L pos).
  Proof.
    intros HIH Hwf Hal. induction fs as [|f fs' IHfs].
    - intros i o pos Hpos. simpl. repeat split; try constructor; try lia; try contradiction.
    - inversion HIH as [|? ? Hf HIH']; subst. inversion Hwf as [|? ? Hwff Hwf']; subst.
      inversion Hal as [|? ? Half Hal']; subst. intros i o pos Hpos.
      pose proof (sa_ok a f Ha Hwff) as Hok. pose proof (sa_eq_gc a f Ha Hwff) as Hgc.
      cbn [lay_fields gc_leaves_fields map end_from]. rewrite <- Hgc.
      unfold alignof in Half. cbn [hd]. unfold alignof at 1.
      destruct (sa std a f) as [sz al] eqn:Esa. cbv zeta.
      destruct Hok as (Hsz & Hpw & _ & Hdv). simpl in Hsz, Hpw, Hdv, Half.
      pose proof (pow2_pos _ Hpw) as Hpos_al.
      rewrite <- (align_up_roundup o al Hpos_al).
      pose proof (align_up_spec o al Hpos_al) as [[Hge _] Hdvo].
      set (off := base + align_up o al) in *.
      assert (Hpo : pos <= off) by (unfold off; lia).
      assert (Hdoff : (al | off)).
      { unfold off. apply Z.divide_add_r; [apply Z.divide_trans with A; [exact Half | exact HA] | exact Hdvo]. }
      set (padl := if pos <? off then [mkpad pos off] else []).
      set (pos1 := if pos <? off then off else pos).
      assert (Hpos1 : pos1 = off).
      { unfold pos1. destruct (pos <? off) eqn:E; [reflexivity|]. apply Z.ltb_ge in E. lia. }
      assert (Hpadl : tiles padl pos off /\ nonpad padl = [] /\ Forall (leaf_wf A) padl /\ Forall (path_ok rp) padl
                      /\ (forall l' hi', rfits l' off hi' -> rfits (padl ++ l') pos hi')).
      { unfold padl. destruct (pos <? off) eqn:E.
        - apply Z.ltb_lt in E. split; [apply tiles_pad; lia|]. split; [reflexivity|].
          split; [constructor; [unfold leaf_wf; simpl; discriminate | constructor]|].
          split; [constructor; [unfold path_ok; simpl; discriminate | constructor]|].
          intros l' hi' Hrf. simpl. eapply rfits_weaken; [| |exact Hrf]; lia.
        - apply Z.ltb_ge in E. assert (Hpe : pos = off) by lia. rewrite Hpe.
          split; [simpl; lia|]. split; [reflexivity|]. split; [constructor|]. split; [constructor|].
          intros l' hi' Hrf. exact Hrf. }
      destruct Hpadl as (Hp1 & Hp2 & Hp3 & Hp4 & Hp5).
      specialize (IHfs HIH' Hwf' Hal' (S i) (align_up o al + sz) (pos1 + sz) ltac:(rewrite Hpos1; unfold off; lia)).
      cbv zeta in IHfs. rewrite Hpos1 in *.
      replace (base + (align_up o al + sz)) with (off + sz) in IHfs by (unfold off; lia).
      destruct IHfs as (I1 & I2 & I3 & I4 & I5 & I6 & I7).
      set (rest := lay_fields std a rp base fs' (S i) (align_up o al + sz) (off + sz)) in *.
      set (hi := base + end_from (align_up o al + sz) (map (sa std a) fs')) in *.
      (* the field's own lines *)
      set (here := if expands f then lay std a f (i :: rp) off
                   else [mkE (rev (i :: rp)) off (off + sz) sz al false]).
      assert (Hhere : tiles here off (off + sz) /\ here <> [] /\ (sz <> 0 -> e_size (last here dummy) <> 0)
                      /\ Forall (leaf_wf A) here /\ rfits here off (off + sz)
                      /\ Forall2 leaf_rel (nonpad here)
                           (if expands f then gc_leaves (fst a) (snd a) f (i :: rp) off
                            else [(rev (i :: rp), off, sz, al)])
                      /\ first_at here off /\ Forall (path_ok rp) here).
      { unfold here. destruct (expands f) eqn:Ex.
        - specialize (Hf Hwff eq_refl (i :: rp) off). unfold alignof, sizeof in Hf. rewrite Esa in Hf. simpl in Hf.
          destruct (Hf Hdoff) as (F1 & F2 & F3 & F4 & F5 & F6 & F7 & F8).
          repeat split; auto.
          + eapply leaf_wf_weaken; eauto.
          + apply path_ok_cons with (i := i). exact F8.
        - split; [simpl; repeat split; lia|]. split; [discriminate|]. split; [simpl; auto|].
          split; [constructor; [|constructor]; intros _; simpl; repeat split; auto|].
          split; [simpl; split; [lia|]; unfold rsize; simpl; rewrite align_up_mult by auto; lia|].
          split; [unfold nonpad; simpl; constructor; [|constructor]; unfold leaf_rel; simpl; auto|].
          split; [eexists; eexists; split; [reflexivity|]; simpl; auto|].
          constructor; [|constructor]. intros _. simpl. exists [i]. split; [reflexivity | discriminate]. }
      destruct Hhere as (H1 & H2 & H3 & H4 & H5 & H6 & H7 & H8).
      split; [eapply tiles_app; [exact Hp1|]; eapply tiles_app; [exact H1 | exact I1]|].
      split; [apply Forall_app; split; [exact Hp3|]; apply Forall_app; split; auto|].
      split; [apply Hp5; eapply rfits_app; [exact H5 | exact I3]|].
      split; [rewrite !nonpad_app, Hp2; simpl; apply Forall2_app; [exact H6 | exact I4]|].
      split; [apply Forall_app; split; [exact Hp4|]; apply Forall_app; split; auto|].
      split.
      + intros _. split; [intro Hc; apply app_eq_nil in Hc as [_ Hc]; apply app_eq_nil in Hc as [Hc _]; contradiction|].
        destruct fs' as [|f' fs''].
        * simpl in rest. subst rest. rewrite app_nil_r. rewrite last_app_ne by exact H2.
          unfold last_size. simpl. intro Hz. destruct (Z.eq_dec sz 0); [auto|]. exfalso. apply (H3 n). exact Hz.
        * destruct (I6 ltac:(discriminate)) as [J1 J2].
          rewrite app_assoc. rewrite last_app_ne by exact J1. intro Hz. specialize (J2 Hz).
          unfold last_size in *. simpl map in *.
          change (last (?x :: ?y :: ?l) (1, 1)) with (last (y :: l) (1, 1)). exact J2.
      + intros _ Hdo. assert (Hoo : align_up o al = o) by (apply align_up_mult; auto).
        assert (pos = off) by (unfold off; lia).
        assert (Hnil : padl = []) by (unfold padl; destruct (pos <? off) eqn:E; [apply Z.ltb_lt in E; lia | reflexivity]).
        rewrite Hnil. simpl. destruct H7 as (e & r & -> & Q1 & Q2). exists e, (r ++ rest).
        split; [reflexivity|]. split; [exact Q1 | lia].
  Qed.
End Fields.

Lemma tiles_last l lo hi :
  tiles l lo hi -> l <> [] -> e_end (last l dummy) = hi /\ e_end (last l dummy) = e_start (last l dummy) + e_size (last l dummy).
Proof.
  revert lo. induction l as [|e r IH]; intros lo H Hne; [contradiction|].
  destruct H as (A & B & C & D). destruct r as [|e' r'].
  - simpl in *. lia.
  - change (last (e :: e' :: r') dummy) with (last (e' :: r') dummy). eapply IH; [exact D | discriminate].
Qed.

Theorem lay_inv_all a : arch_ok a -> forall t, wf_ty t -> expands t = true -> lay_inv a t.
Proof.
  intro Ha. induction t as [k| | | |n e IH|fs IH] using ty_ind'; intros Hwf Hex; try discriminate.
  destruct fs as [|g gs]; [discriminate|]. set (fs := g :: gs) in *.
  intros rp base Hbase.
  pose proof (fields_ok a fs Ha Hwf) as Hall.
  destruct (struct_align_ok a _ Ha Hall) as (Hpw & _ & Hdivs).
  destruct (struct_size_ok a _ Ha Hall) as (Hend & Hdsz & Hsz0).
  set (sas := map (sa std a) fs) in *.
  assert (HA : alignof std a (TStruct fs) = struct_align sas) by reflexivity.
  assert (HS : sizeof std a (TStruct fs) = struct_size sas) by reflexivity.
  rewrite HA in Hbase. cbv zeta. rewrite HA, HS. rewrite lay_struct.
  change (fst (sa std a (TStruct fs))) with (struct_size sas).
  pose proof (pow2_pos _ Hpw) as Hpos.
  assert (Hal : Forall (fun f => (alignof std a f | struct_align sas)) fs).
  { unfold sas in Hdivs. rewrite Forall_map in Hdivs. exact Hdivs. }
  apply wf_struct in Hwf.
  destruct (fields_inv a Ha rp base (struct_align sas) Hbase fs IH Hwf Hal 0%nat 0 base ltac:(lia))
    as (F1 & F2 & F3 & F4 & F5 & F6 & F7).
  fold sas in F1, F3, F6. set (L0 := lay_fields std a rp base fs 0 0 base) in *.
  destruct (F6 ltac:(discriminate)) as [Hne Hlast].
  set (nz := negb (struct_size sas =? 0)).
  set (endz := base + struct_size sas).
  (* the fudge has room *)
  assert (Hroom : e_size (last L0 dummy) = 0 -> nz = true -> base + end_from 0 sas + 1 <= endz).
  { intros Hz Hnz. specialize (Hlast Hz). unfold nz in Hnz. apply negb_true_iff, Z.eqb_neq in Hnz.
    unfold endz. unfold struct_size in *. unfold sas, fs in *. cbn [map] in *. cbv zeta in *.
    rewrite Hlast in *. simpl (0 =? 0) in *. cbn [andb] in *.
    destruct (end_from 0 _ =? 0) eqn:E; cbn [negb] in *.
    - apply Z.eqb_eq in E. rewrite E in Hnz. exfalso. apply Hnz. apply align_up_mult; [exact Hpos | apply Z.divide_0_r].
    - pose proof (align_up_ge (end_from 0 (sa std a g :: map (sa std a) gs) + 1) _ Hpos). lia. }
  assert (Hple : base + end_from 0 sas <= endz) by (unfold endz; lia).
  assert (Hdend : (struct_align sas | endz)) by (unfold endz; apply Z.divide_add_r; auto).
  split; [apply finish_tiles with (p := base + end_from 0 sas); auto|].
  destruct (finish_last L0 nz endz Hne) as [Hne' Hlast'].
  split; [exact Hne'|].
  split; [intro Hs; apply Hlast'; unfold nz; apply negb_true_iff, Z.eqb_neq; exact Hs|].
  split; [apply finish_leaf_wf; exact F2|].
  split.
  { eapply finish_rfits; eauto.
    intros e He Hz Hnz. subst e. specialize (Hroom Hz Hnz).
    destruct (tiles_last _ _ _ F1 Hne) as [T1 T2]. lia. }
  split; [rewrite gc_leaves_struct; apply finish_leaf_rel; exact F4|].
  split; [apply finish_first; apply F7; [discriminate | apply Z.divide_0_r]|].
  apply finish_path_ok; exact F5.
Qed.

(* ---------------------------------------------------------------------------------------------- layout_tiles *)
Lemma layout_nil a : layout std a (TStruct []) = [].
Proof. reflexivity. Qed.

Theorem layout_tiles_std a fs :
  arch_ok a -> wf_ty (TStruct fs) ->
  let t := TStruct fs in
  tiles (layout std a t) 0 (gc_sizeof a t)
  /\ Forall2 leaf_rel (nonpad (layout std a t)) (gc_leaves (fst a) (snd a) t [] 0).
Proof.
  intros Ha Hwf t. destruct (gcsizes_eq_gc_std a t Ha Hwf) as (Hs & _ & _). rewrite <- Hs.
  destruct fs as [|g gs].
  - unfold t. rewrite layout_nil. split; [reflexivity | constructor].
  - destruct (lay_inv_all a Ha t Hwf eq_refl [] 0 (Z.divide_0_r _)) as (H1 & _ & _ & _ & _ & H6 & _).
    split; [exact H1 | exact H6].
Qed.

(* ---------------------------------------------------------------------------------------------- optimize -r *)
Lemma units_align_divides A l :
  Forall (fun e => pow2 (e_align e) /\ (e_align e | A)) l -> (units_align l | A).
Proof.
  intro H. induction H as [|e r [Hp Hd] Hr IH]; simpl; [apply Z.divide_1_l|].
  change (units_align (e :: r)) with (Z.max (e_align e) (units_align r)).
  destruct (Z.max_spec (e_align e) (units_align r)) as [[_ ->]|[_ ->]]; auto.
Qed.

Lemma nonpad_Forall (P : entry -> Prop) l :
  Forall (fun e => e_pad e = false -> P e) l -> Forall P (nonpad l).
Proof.
  intro H. induction H as [|e r He Hr IH]; simpl; [constructor|].
  destruct (e_pad e) eqn:E; simpl; [exact IH | constructor; auto].
Qed.

Lemma total_nil : total [] = 0. Proof. reflexivity. Qed.

(* optimize_not_larger, -r path: for EVERY order of the leaves that is sorted w.r.t. Less the re-padded layout is
   not larger than the layout structlayout printed *)
Theorem optimize_r_not_larger_std a fs l' :
  arch_ok a -> wf_ty (TStruct fs) ->
  let inp := layout std a (TStruct fs) in
  Permutation (units_of true inp) l' -> sorted_by less_std l' ->
  total (pad_units l') <= total inp.
Proof.
  intros Ha Hwf inp Hperm Hsort. unfold units_of in Hperm. destruct fs as [|g gs].
  - unfold inp in *. rewrite layout_nil in *. simpl in Hperm. apply Permutation_nil in Hperm. subst. simpl. lia.
  - destruct (lay_inv_all a Ha (TStruct (g :: gs)) Hwf eq_refl [] 0 (Z.divide_0_r _))
      as (H1 & H2 & _ & H4 & H5 & _).
    fold (layout std a (TStruct (g :: gs))) in *. fold inp in H1, H2, H4, H5. simpl in H1, H5.
    assert (Htot : total inp = sizeof std a (TStruct (g :: gs))).
    { unfold total. eapply tiles_end; eauto. }
    rewrite Htot.
    pose proof (sa_ok a _ Ha Hwf) as (Hs0 & Hpw & _ & Hdv). fold (sizeof std a (TStruct (g :: gs))) in *.
    apply optimize_not_larger_abs with (units := nonpad inp); auto.
    + apply nonpad_Forall. eapply Forall_impl; [|exact H4]. intros e He Hp.
      destruct (He Hp) as (B & C & _ & _). split; auto.
    + eapply Z.divide_trans; [|exact Hdv]. apply units_align_divides. apply nonpad_Forall.
      eapply Forall_impl; [|exact H4]. intros e He Hp. destruct (He Hp) as (_ & C & _ & D). split; auto.
    + apply rfits_rsum in H5. lia.
Qed.

(* ---------------------------------------------------------------------------------------------- combine *)
(* the lines of one top-level field: padding, then lines of group i covering [flo, fhi) *)
Definition chunk_ok (i : nat) (flo fhi fal : Z) (c : list entry) : Prop :=
  exists pads body, c = pads ++ body /\ Forall (fun e => e_pad e = true) pads
    /\ tiles body flo fhi /\ first_at body flo /\ Forall (leaf_wf fal) body
    /\ Forall (fun e => e_pad e = false -> grp e = i) body.

Inductive chunked (Ag total : Z) : nat -> nat -> Z -> list entry -> Prop :=
| ch_nil i lo : lo <= total -> chunked Ag total 0 i lo []
| ch_cons n i lo c rest flo fhi fal :
    lo <= flo -> pow2 fal -> (fal | flo) -> (fal | fhi) -> (fal | Ag) ->
    chunk_ok i flo fhi fal c -> chunked Ag total n (S i) fhi rest ->
    chunked Ag total (S n) i lo (c ++ rest).

Lemma combine_go_pads pads l cur :
  Forall (fun e => e_pad e = true) pads -> combine_go cur (pads ++ l) = combine_go cur l.
Proof. intro H. induction H as [|e r He Hr IH]; [reflexivity|]. simpl. rewrite He. exact IH. Qed.

Lemma tiles_bounds l lo hi :
  tiles l lo hi -> Forall (fun e => lo <= e_start e /\ e_end e = e_start e + e_size e /\ 0 <= e_size e /\ e_end e <= hi) l.
Proof.
  revert lo. induction l as [|e r IH]; intros lo H; [constructor|].
  destruct H as (A & B & C & D). pose proof (tiles_le _ _ _ D). constructor; [lia|].
  eapply Forall_impl; [|apply (IH _ D)]. intros x Hx. cbv beta in Hx. lia.
Qed.

(* the unit being built for group i inside [flo, fhi) *)
Definition unit_inv (i : nat) (flo fhi fal : Z) (u : entry) : Prop :=
  e_pad u = false /\ e_path u = [i] /\ e_start u = flo /\ e_start u <= e_end u /\ e_end u <= fhi
  /\ e_size u = e_end u - e_start u /\ pow2 (e_align u) /\ (e_align u | fal).

Lemma combine_go_same i flo fhi fal r : forall u rest,
  0 < fal -> (fal | fhi) -> unit_inv i flo fhi fal u ->
  Forall (fun e => flo <= e_start e /\ e_end e = e_start e + e_size e /\ 0 <= e_size e /\ e_end e <= fhi) r ->
  Forall (leaf_wf fal) r -> Forall (fun e => e_pad e = false -> grp e = i) r ->
  exists u', unit_inv i flo fhi fal u' /\ combine_go (Some u) (r ++ rest) = combine_go (Some u') rest.
Proof.
  induction r as [|e r IH]; intros u rest Hfal Hdhi Hu Hb Hw Hg.
  - exists u. split; [exact Hu | reflexivity].
  - inversion Hb as [|? ? Hbe Hbr]; subst. inversion Hw as [|? ? Hwe Hwr]; subst.
    inversion Hg as [|? ? Hge Hgr]; subst. simpl. destruct (e_pad e) eqn:Ep; [apply IH; auto|].
    destruct Hu as (U1 & U2 & U3 & U4 & U5 & U6 & U7 & U8).
    assert (Hgu : grp u = i) by (unfold grp; rewrite U2; reflexivity).
    rewrite (Hge eq_refl), Hgu, Nat.eqb_refl.
    destruct (Hwe Ep) as (W1 & W2 & W3 & W4).
    apply IH; auto. unfold unit_inv, extend_unit. simpl.
    set (al := if e_align u <? e_align e then e_align e else e_align u).
    assert (Hal : pow2 al /\ (al | fal)) by (unfold al; destruct (_ <? _); auto).
    destruct Hal as [Hal1 Hal2]. pose proof (pow2_pos _ Hal1) as Hpos.
    pose proof (align_up_ge (e_end e) al Hpos).
    assert (align_up (e_end e) al <= fhi).
    { apply align_up_least; auto; [lia|]. eapply Z.divide_trans; eauto. }
    repeat split; auto; lia.
Qed.

Lemma unit_inv_fits i flo fhi fal u :
  (fal | flo) -> (fal | fhi) -> unit_inv i flo fhi fal u -> unit_wf u /\ e_start u + rsize u <= fhi.
Proof.
  intros Hd1 Hd2 (U1 & U2 & U3 & U4 & U5 & U6 & U7 & U8). pose proof (pow2_pos _ U7) as Hpos.
  split; [split; [lia | exact U7]|]. unfold rsize.
  rewrite <- align_up_add by (auto; rewrite U3; eapply Z.divide_trans; eauto).
  apply align_up_least; auto; [lia|]. eapply Z.divide_trans; eauto.
Qed.

Definition out_ok (Ag total : Z) (out : list entry) (lo0 : Z) : Prop :=
  rfits out lo0 total /\ Forall (fun u => e_pad u = false /\ unit_wf u /\ (e_align u | Ag)) out.

Lemma combine_chunked Ag total n i lo l :
  chunked Ag total n i lo l ->
  forall cur lo0,
    match cur with
    | None => lo0 <= lo
    | Some u => e_pad u = false /\ unit_wf u /\ (e_align u | Ag) /\ lo0 <= e_start u /\ e_start u + rsize u <= lo
                /\ (grp u < i)%nat
    end ->
    out_ok Ag total (combine_go cur l) lo0
    /\ map e_path (combine_go cur l) =
       (match cur with Some u => [e_path u] | None => [] end) ++ map (fun g => [g]) (seq i n).
Proof.
  intro H. induction H as [i lo Hlo | n i lo c rest flo fhi fal Hlo Hpw Hd1 Hd2 Hd3 Hc Hrest IH]; intros cur lo0 Hcur.
  - simpl. destruct cur as [u|].
    + destruct Hcur as (C1 & C2 & C3 & C4 & C5 & C6). split; [|reflexivity]. split.
      * simpl. rewrite C1. split; [exact C4 | lia].
      * constructor; [auto | constructor].
    + split; [|reflexivity]. split; [simpl; lia | constructor].
  - destruct Hc as (pads & body & -> & Hpads & Htb & (e & r & -> & Hep & Hes) & Hwf & Hgrp).
    rewrite <- app_assoc. rewrite combine_go_pads by exact Hpads.
    pose proof (tiles_bounds _ _ _ Htb) as Hb. pose proof (tiles_le _ _ _ Htb) as Hle.
    inversion Hb as [|? ? Hbe Hbr]; subst. inversion Hwf as [|? ? Hwe Hwr]; subst.
    inversion Hgrp as [|? ? Hge Hgr]; subst. destruct (Hwe Hep) as (W1 & W2 & W3 & W4).
    assert (Hopen : unit_inv i (e_start e) fhi fal (open_unit e)).
    { unfold unit_inv, open_unit. simpl. rewrite (Hge Hep). repeat split; auto; lia. }
    pose proof (pow2_pos _ Hpw) as Hpos.
    destruct (combine_go_same i (e_start e) fhi fal r (open_unit e) rest Hpos Hd2 Hopen Hbr Hwr Hgr)
      as (U & HU & Heq).
    destruct (unit_inv_fits _ _ _ _ U Hd1 Hd2 HU) as [HUwf HUfit].
    destruct HU as (U1 & U2 & U3 & U4 & U5 & U6 & U7 & U8).
    assert (HgU : grp U = i) by (unfold grp; rewrite U2; reflexivity).
    assert (HcurU : e_pad U = false /\ unit_wf U /\ (e_align U | Ag) /\ e_start U <= e_start U
                    /\ e_start U + rsize U <= fhi /\ (grp U < S i)%nat).
    { repeat split; auto; try lia; try apply HUwf. eapply Z.divide_trans; eauto. }
    destruct (IH (Some U) (e_start U) HcurU) as [[I1 I2] I3].
    assert (Hstep : combine_go cur ((e :: r) ++ rest) =
                    (match cur with Some u => [u] | None => [] end) ++ combine_go (Some U) rest).
    { simpl. rewrite Hep. destruct cur as [u|].
      - destruct Hcur as (_ & _ & _ & _ & _ & C6). rewrite (Hge Hep).
        destruct (Nat.eqb_spec i (grp u)) as [E|E]; [lia|]. simpl. rewrite <- Heq. reflexivity.
      - rewrite <- Heq. reflexivity. }
    rewrite Hstep. destruct cur as [u|].
    + destruct Hcur as (C1 & C2 & C3 & C4 & C5 & C6). split.
      * split.
        -- simpl. rewrite C1. split; [exact C4|]. eapply rfits_weaken; [| |exact I1]; lia.
        -- constructor; auto.
      * simpl. rewrite I3. simpl. rewrite U2. reflexivity.
    + split.
      * split; [|exact I2]. simpl. eapply rfits_weaken; [| |exact I1]; lia.
      * simpl. rewrite I3. simpl. rewrite U2. reflexivity.
Qed.

(* ---------------------------------------------------------------------------------------------- layout is chunked *)
Lemma finish_Forall (P : entry -> Prop) out nz endz :
  (forall e, P e -> P (fudge e)) -> (forall s e, P (mkpad s e)) -> Forall P out -> Forall P (finish out nz endz).
Proof.
  intros Hf Hp. induction out as [|e r IH]; intro H; [constructor|]. inversion H as [|? ? He Hr]; subst.
  destruct r as [|e' r'].
  - unfold finish. cbv zeta. fold (fudge e).
    set (x := if (e_size e =? 0) && nz then fudge e else e).
    assert (Hx : P x) by (unfold x; destruct (_ && _); auto).
    destruct (e_end x <? endz); [apply Forall_cons; [exact Hx | apply Forall_cons; [apply Hp | apply Forall_nil]]
                                | apply Forall_cons; [exact Hx | apply Forall_nil]].
  - rewrite finish_cons by discriminate. constructor; auto.
Qed.

Lemma here_facts a i f off sz al :
  arch_ok a -> wf_ty f -> (expands f = true -> lay_inv a f) -> sa std a f = (sz, al) -> (al | off) ->
  let here := if expands f then lay std a f [i] off else [mkE [i] off (off + sz) sz al false] in
  tiles here off (off + sz) /\ here <> [] /\ (sz <> 0 -> e_size (last here dummy) <> 0)
  /\ Forall (leaf_wf al) here /\ first_at here off /\ Forall (fun e => e_pad e = false -> grp e = i) here.
Proof.
  intros Ha Hwf Hinv Esa Hd here. pose proof (sa_ok a f Ha Hwf) as Hok. rewrite Esa in Hok.
  destruct Hok as (Hsz & Hpw & _ & Hdv). simpl in Hsz, Hpw, Hdv.
  unfold here. destruct (expands f) eqn:Ex.
  - specialize (Hinv eq_refl [i] off). unfold alignof, sizeof in Hinv. rewrite Esa in Hinv. simpl in Hinv.
    destruct (Hinv Hd) as (F1 & F2 & F3 & F4 & F5 & F6 & F7 & F8). repeat split; auto.
    eapply Forall_impl; [|exact F8]. intros e He Hp. destruct (He Hp) as (q & Hq & Hne).
    unfold grp. rewrite Hq. reflexivity.
  - split; [simpl; repeat split; lia|]. split; [discriminate|]. split; [simpl; auto|].
    split; [constructor; [|constructor]; intros _; simpl; repeat split; auto; apply Z.divide_refl|].
    split; [exists (mkE [i] off (off + sz) sz al false), []; simpl; auto|].
    constructor; [|constructor]. intros _. reflexivity.
Qed.

Lemma fields_chunked a A nz endz :
  arch_ok a -> (A | endz) ->
  forall fs, fs <> [] ->
    Forall (fun f => wf_ty f -> expands f = true -> lay_inv a f) fs ->
    Forall wf_ty fs -> Forall (fun f => (alignof std a f | A)) fs ->
    forall i o,
      let L := lay_fields std a [] 0 fs i o o in
      (e_size (last L dummy) = 0 -> nz = true -> end_from o (map (sa std a) fs) + 1 <= endz) ->
      end_from o (map (sa std a) fs) <= endz ->
      chunked A endz (length fs) i o (finish L nz endz).
Proof.
  intros Ha HAend fs. induction fs as [|f fs' IHfs]; intros Hne HIH Hwf Hal; [contradiction|].
  inversion HIH as [|? ? Hf HIH']; subst. inversion Hwf as [|? ? Hwff Hwf']; subst.
  inversion Hal as [|? ? Half Hal']; subst. intros i o L Hroom Hend.
  pose proof (sa_ok a f Ha Hwff) as Hok.
  unfold L in *. clear L. cbn [lay_fields map end_from length] in *.
  unfold alignof in Half. destruct (sa std a f) as [sz al] eqn:Esa. cbv zeta in *.
  destruct Hok as (Hsz & Hpw & _ & Hdv). simpl in Hsz, Hpw, Hdv, Half.
  pose proof (pow2_pos _ Hpw) as Hpos_al.
  pose proof (align_up_spec o al Hpos_al) as [[Hge _] Hdvo].
  rewrite Z.add_0_l in *. set (off := align_up o al) in *.
  set (padl := if o <? off then [mkpad o off] else []) in *.
  assert (Hpos1 : (if o <? off then off else o) = off).
  { destruct (o <? off) eqn:E; [reflexivity|]. apply Z.ltb_ge in E. lia. }
  rewrite Hpos1 in *.
  assert (Hpadl : Forall (fun e => e_pad e = true) padl).
  { unfold padl. destruct (o <? off); repeat constructor. }
  destruct (here_facts a i f off sz al Ha Hwff (Hf Hwff) Esa Hdvo) as (H1 & H2 & H3 & H4 & H5 & H6).
  set (here := if expands f then lay std a f [i] off else [mkE [i] off (off + sz) sz al false]) in *.
  change (rev [i]) with [i] in *. fold here in Hroom |- *.
  destruct fs' as [|f' fs''].
  - (* last field: finish acts on its lines *)
    cbn [lay_fields map end_from length] in *. rewrite app_nil_r in *.
    rewrite finish_app by exact H2.
    replace (padl ++ finish here nz endz) with ((padl ++ finish here nz endz) ++ []) by apply app_nil_r.
    apply ch_cons with (flo := off) (fhi := endz) (fal := al); auto.
    + eapply Z.divide_trans; [exact Half|exact HAend].
    + exists padl, (finish here nz endz). split; [reflexivity|]. split; [exact Hpadl|].
      split.
      { apply finish_tiles with (p := off + sz); auto. intros Hz Hnz. apply Hroom; auto.
        rewrite last_app_ne by exact H2. exact Hz. }
      split; [apply finish_first; exact H5|].
      split; [apply finish_leaf_wf; exact H4|].
      apply finish_Forall; auto. intros s e. simpl. discriminate.
    + apply ch_nil. lia.
  - (* more fields follow *)
    set (fs' := f' :: fs'') in *.
    pose proof (struct_align_ok a (map (sa std a) fs') Ha (fields_ok a fs' Ha (proj2 (wf_struct fs') Hwf'))) as _.
    destruct (fields_inv a Ha [] 0 A (Z.divide_0_r A) fs' HIH' Hwf' Hal' (S i) (off + sz) (off + sz) ltac:(lia))
      as (_ & _ & _ & _ & _ & F6 & _).
    destruct (F6 ltac:(discriminate)) as [Hrne _].
    set (rest := lay_fields std a [] 0 fs' (S i) (off + sz) (off + sz)) in *.
    rewrite app_assoc. rewrite finish_app by exact Hrne.
    apply ch_cons with (flo := off) (fhi := off + sz) (fal := al); auto.
    + apply Z.divide_add_r; auto.
    + exists padl, here. repeat split; auto.
    + apply IHfs; auto; [discriminate|].
      intros Hz Hnz. apply Hroom; auto. rewrite app_assoc. rewrite last_app_ne by exact Hrne. exact Hz.
Qed.

Lemma nonpad_id l : Forall (fun e => e_pad e = false) l -> nonpad l = l.
Proof.
  intro H. induction H as [|e r He Hr IH]; [reflexivity|]. unfold nonpad in *. simpl. rewrite He. simpl. f_equal. exact IH.
Qed.

(* what combine makes of a layout: one unit per top-level field, in order, each sane, and together fitting the
   struct even when rounded up to their own alignments *)
Theorem combine_layout_std a fs :
  arch_ok a -> wf_ty (TStruct fs) ->
  let t := TStruct fs in
  let units := combine (layout std a t) in
  map e_path units = map (fun g => [g]) (seq 0 (length fs))
  /\ Forall (fun u => e_pad u = false /\ unit_wf u /\ (e_align u | alignof std a t)) units
  /\ rsum units <= sizeof std a t.
Proof.
  intros Ha Hwf t units. destruct fs as [|g gs].
  - unfold units, t. rewrite layout_nil. simpl. repeat split; [constructor | reflexivity].
  - set (fs := g :: gs) in *.
    pose proof (fields_ok a fs Ha Hwf) as Hall.
    destruct (struct_align_ok a _ Ha Hall) as (Hpw & _ & Hdivs).
    destruct (struct_size_ok a _ Ha Hall) as (Hend & Hdsz & Hsz0).
    set (sas := map (sa std a) fs) in *.
    assert (HA : alignof std a t = struct_align sas) by reflexivity.
    assert (HS : sizeof std a t = struct_size sas) by reflexivity.
    pose proof (pow2_pos _ Hpw) as Hpos.
    assert (Hal : Forall (fun f => (alignof std a f | struct_align sas)) fs).
    { unfold sas in Hdivs. rewrite Forall_map in Hdivs. exact Hdivs. }
    pose proof (proj1 (wf_struct fs) Hwf) as Hwfs.
    assert (HIH : Forall (fun f => wf_ty f -> expands f = true -> lay_inv a f) fs).
    { rewrite Forall_forall. intros f _ Hf Hex. apply lay_inv_all; auto. }
    destruct (fields_inv a Ha [] 0 (struct_align sas) (Z.divide_0_r _) fs HIH Hwfs Hal 0%nat 0 0 ltac:(lia))
      as (F1 & _ & _ & _ & _ & F6 & _).
    destruct (F6 ltac:(discriminate)) as [Hne Hlast]. fold sas in F1, Hlast.
    set (nz := negb (struct_size sas =? 0)).
    assert (Hroom : e_size (last (lay_fields std a [] 0 fs 0 0 0) dummy) = 0 -> nz = true -> end_from 0 sas + 1 <= struct_size sas).
    { intros Hz Hnz. specialize (Hlast Hz). unfold nz in Hnz. apply negb_true_iff, Z.eqb_neq in Hnz.
      unfold struct_size in *. unfold sas, fs in *. cbn [map] in *. cbv zeta in *.
      rewrite Hlast in *. simpl (0 =? 0) in *. cbn [andb] in *.
      destruct (end_from 0 _ =? 0) eqn:E; cbn [negb] in *.
      - apply Z.eqb_eq in E. rewrite E in Hnz. exfalso. apply Hnz. apply align_up_mult; [exact Hpos | apply Z.divide_0_r].
      - pose proof (align_up_ge (end_from 0 (sa std a g :: map (sa std a) gs) + 1) _ Hpos). lia. }
    pose proof (fields_chunked a (struct_align sas) nz (struct_size sas) Ha Hdsz fs ltac:(discriminate)
                  HIH Hwfs Hal 0%nat 0 Hroom Hend) as Hch.
    assert (Hlay : layout std a t = finish (lay_fields std a [] 0 fs 0 0 0) nz (struct_size sas)).
    { unfold layout, t. rewrite lay_struct. reflexivity. }
    destruct (combine_chunked _ _ _ _ _ _ Hch None 0 (Z.le_refl 0)) as [[C1 C2] C3].
    unfold units, combine. rewrite Hlay, HA, HS. split; [exact C3|]. split; [exact C2|].
    apply rfits_rsum in C1. rewrite nonpad_id in C1; [lia|].
    eapply Forall_impl; [|exact C2]. intros u Hu. apply Hu.
Qed.

(* optimize_not_larger, default path (combine) *)
Theorem optimize_not_larger_std a fs l' :
  arch_ok a -> wf_ty (TStruct fs) ->
  let inp := layout std a (TStruct fs) in
  Permutation (units_of false inp) l' -> sorted_by less_std l' ->
  total (pad_units l') <= total inp.
Proof.
  intros Ha Hwf inp Hperm Hsort. unfold units_of in Hperm.
  destruct (combine_layout_std a fs Ha Hwf) as (_ & C2 & C3). fold inp in C2, C3.
  assert (Hnp : nonpad (combine inp) = combine inp).
  { apply nonpad_id. eapply Forall_impl; [|exact C2]. intros u Hu. apply Hu. }
  rewrite Hnp in Hperm.
  assert (Htot : total inp = sizeof std a (TStruct fs)).
  { destruct fs as [|g gs]; [reflexivity|].
    destruct (lay_inv_all a Ha (TStruct (g :: gs)) Hwf eq_refl [] 0 (Z.divide_0_r _)) as (H1 & H2 & _).
    unfold total. eapply tiles_end; eauto. }
  rewrite Htot.
  pose proof (sa_ok a _ Ha Hwf) as (Hs0 & Hpw & _ & Hdv). fold (sizeof std a (TStruct fs)) in *.
  fold (alignof std a (TStruct fs)) in *.
  apply optimize_not_larger_abs with (units := combine inp); auto.
  - eapply Forall_impl; [|exact C2]. intros u Hu. apply Hu.
  - eapply Z.divide_trans; [|exact Hdv]. apply units_align_divides.
    eapply Forall_impl; [|exact C2]. intros u (_ & [_ Hp] & Hd). split; auto.
Qed.
