(* C12: proofs about Model/C12.v *)
From Coq Require Import List ZArith Bool String Ascii Permutation Sorting.Sorted Lia.
Import ListNotations.
Require Import Verif.Lib.CmpOrder Verif.Model.C12_Types Verif.Model.C12.
Open Scope Z_scope.

(* ---------- equalities ---------- *)
Lemma pos_eqb_eq a b : pos_eqb a b = true <-> a = b.
Proof.
  destruct a as [[[f1 o1] l1] c1], b as [[[f2 o2] l2] c2]. simpl.
  rewrite !andb_true_iff, String.eqb_eq, !Z.eqb_eq. split.
  - intros [[[-> ->] ->] ->]. reflexivity.
  - intro E. inversion E. auto.
Qed.
Lemma descr_eqb_eq a b : descr_eqb a b = true <-> a = b.
Proof.
  destruct a as [[[p1 e1] c1] m1], b as [[[p2 e2] c2] m2]. simpl.
  rewrite !andb_true_iff, !pos_eqb_eq, !String.eqb_eq. split.
  - intros [[[-> ->] ->] ->]. reflexivity.
  - intro E. inversion E. auto.
Qed.
Lemma descr_eqb_refl a : descr_eqb a a = true.
Proof. apply descr_eqb_eq. reflexivity. Qed.
Lemma descr_of_eq a b :
  descr_of a = descr_of b <-> d_pos a = d_pos b /\ d_end a = d_end b /\ d_cat a = d_cat b /\ d_msg a = d_msg b.
Proof. unfold descr_of. split; [intro E; repeat split; congruence | intros (-> & -> & -> & ->); reflexivity]. Qed.

Lemma dfield_name_eq a b : dfield_eqb_name a b = true -> a = b.
Proof. destruct a, b; simpl; intro; try reflexivity; discriminate. Qed.
Lemma dmem_In f df : dmem f df = true -> In f df.
Proof. unfold dmem. rewrite existsb_exists. intros [x [I E]]. apply dfield_name_eq in E. subst. assumption. Qed.

(* diagnostic.descriptor, as transcribed, identifies problems like the property's descriptor *)
Lemma same_descr_spec df a b : descr_ok df = true -> same_descr df a b = descr_eqb (descr_of a) (descr_of b).
Proof.
  unfold descr_ok. rewrite !andb_true_iff. intros [[[H1 H2] H3] H4].
  apply dmem_In in H1, H2, H3, H4.
  apply eq_true_iff_eq. unfold same_descr. rewrite forallb_forall, descr_eqb_eq, descr_of_eq. split.
  - intro H. pose proof (H _ H1) as E1. pose proof (H _ H2) as E2. pose proof (H _ H3) as E3. pose proof (H _ H4) as E4.
    cbv beta iota delta [dfield_eqb] in E1, E2, E3, E4. rewrite pos_eqb_eq in E1, E2. rewrite String.eqb_eq in E3, E4. auto.
  - intros (E1 & E2 & E3 & E4) f _. destruct f; cbv beta iota delta [dfield_eqb]; rewrite ?pos_eqb_eq, ?String.eqb_eq; assumption.
Qed.

Lemma efield_name_eq a b : efield_eqb_name a b = true -> a = b.
Proof. destruct a, b; simpl; intro; try reflexivity; discriminate. Qed.
Lemma emem_In f ef : emem f ef = true -> In f ef.
Proof. unfold emem. rewrite existsb_exists. intros [x [I E]]. apply efield_name_eq in E. subst. assumption. Qed.

Lemma equal_b_spec ef a b : equal_ok ef = true -> equal_b ef a b = true ->
  d_pos a = d_pos b /\ d_end a = d_end b /\ d_msg a = d_msg b /\ lower (d_cat a) = lower (d_cat b) /\ d_build a = d_build b.
Proof.
  unfold equal_ok, equal_b. rewrite !andb_true_iff, orb_true_iff, forallb_forall.
  intros [[[[H1 H2] H3] H4] H5] H.
  apply emem_In in H1, H2, H3, H5.
  pose proof (H _ H1) as E1. pose proof (H _ H2) as E2. pose proof (H _ H3) as E3. pose proof (H _ H5) as E5.
  cbv beta iota delta [efield_eqb] in E1, E2, E3, E5. rewrite pos_eqb_eq in E1, E2. rewrite String.eqb_eq in E3, E5.
  repeat split; try assumption.
  destruct H4 as [H4|H4]; apply emem_In in H4; pose proof (H _ H4) as E4; cbv beta iota delta [efield_eqb] in E4; rewrite String.eqb_eq in E4;
    [rewrite E4; reflexivity | assumption].
Qed.

(* ---------- the sort key ---------- *)
Lemma kcmp_ok k : pre_ok (kcmp k).
Proof.
  destruct k; unfold kcmp;
    first [ exact (pull_ok _ _ string_compare_ok) | exact (pull_ok _ _ Zcompare_ok) ].
Qed.
Lemma key_cmp_ok ks : pre_ok (key_cmp ks).
Proof.
  unfold key_cmp. apply lexl_ok. rewrite Forall_forall. intros c I.
  apply in_map_iff in I. destruct I as [k [<- _]]. apply kcmp_ok.
Qed.

Lemma take_drop_while {A} (p : A -> bool) l : l = take_while p l ++ drop_while p l.
Proof. induction l as [|x r IH]; simpl; [reflexivity|]. destruct (p x); simpl; [f_equal; exact IH|reflexivity]. Qed.
Lemma take_while_all {A} (p : A -> bool) l x : In x (take_while p l) -> p x = true.
Proof.
  induction l as [|y r IH]; simpl; [tauto|]. destruct (p y) eqn:E; simpl; [|tauto].
  intros [->|I]; auto.
Qed.

Definition key_prefix (ks : list kfield) := take_while is_descr_kfield ks.
Definition pcmp (ks : list kfield) := key_cmp (key_prefix ks).

Lemma kfield_eqb_eq a b : kfield_eqb a b = true -> a = b.
Proof. destruct a, b; simpl; intro; try reflexivity; discriminate. Qed.

Lemma kcmp_descr k a b : is_descr_kfield k = true -> descr_of a = descr_of b -> kcmp k a b = Eq.
Proof.
  intros Hk E. apply descr_of_eq in E. destruct E as (E1 & E2 & E3 & E4).
  unfold d_pos, d_end in *. inversion E1. inversion E2.
  destruct k; simpl in *; try discriminate;
    rewrite ?string_compare_eq, ?Z.compare_eq_iff; congruence.
Qed.

Lemma pcmp_eq_iff ks a b : key_ok ks = true -> (pcmp ks a b = Eq <-> descr_of a = descr_of b).
Proof.
  intro Hok. unfold pcmp, key_cmp. rewrite lexl_eq, Forall_forall. split.
  - intro H.
    assert (F : forall f, In f descr_kfields -> kcmp f a b = Eq).
    { intros f If. unfold key_ok in Hok. rewrite forallb_forall in Hok. specialize (Hok _ If).
      rewrite existsb_exists in Hok. destruct Hok as [k [Ik Ek]]. apply kfield_eqb_eq in Ek. subst k.
      apply H. apply in_map. exact Ik. }
    unfold descr_kfields in F.
    pose proof (F KFile) as F1. pose proof (F KOff) as F2. pose proof (F KLine) as F3. pose proof (F KCol) as F4.
    pose proof (F KEFile) as F5. pose proof (F KEOff) as F6. pose proof (F KELine) as F7. pose proof (F KECol) as F8.
    pose proof (F KCat) as F9. pose proof (F KMsg) as F10.
    simpl in *.
    rewrite string_compare_eq in F1, F5, F9, F10. rewrite Z.compare_eq_iff in F2, F3, F4, F6, F7, F8.
    unfold descr_of, d_pos, d_end.
    rewrite F1, F2, F3, F4, F5, F6, F7, F8, F9, F10 by tauto. reflexivity.
  - intros E c Ic. apply in_map_iff in Ic. destruct Ic as [k [<- Ik]].
    apply kcmp_descr; [|exact E]. eapply take_while_all. exact Ik.
Qed.

Lemma key_cmp_split ks a b :
  key_cmp ks a b = lex (pcmp ks) (key_cmp (drop_while is_descr_kfield ks)) a b.
Proof.
  unfold pcmp, key_prefix, key_cmp.
  rewrite (take_drop_while is_descr_kfield ks) at 1. rewrite map_app. apply lexl_app.
Qed.
Lemma sorted_by_prefix ks l : sorted_by ks l -> StronglySorted (cle (pcmp ks)) l.
Proof.
  unfold sorted_by. induction 1 as [|x r S IH F]; constructor; [assumption|].
  eapply Forall_impl; [|exact F]. intros y L. unfold cle in *. rewrite key_cmp_split in L.
  exact (lex_cle_fst _ _ _ _ L).
Qed.

(* ---------- names_of: sorted set of the collected build names ---------- *)
Lemma sorted_nodup_strict {A} (c : A -> A -> comparison) l :
  (forall a b, c a b = Eq -> a = b) -> StronglySorted (cle c) l -> NoDup l -> StronglySorted (clt c) l.
Proof.
  intros Heq. induction 1 as [|x r S IH F]; intro N; constructor.
  - apply IH. inversion N; assumption.
  - inversion N as [|? ? Nx Nr]; subst. rewrite Forall_forall in *. intros y Iy.
    specialize (F _ Iy). unfold cle, clt in *. destruct (c x y) eqn:E; [|reflexivity|congruence].
    apply Heq in E. subst. contradiction.
Qed.
Lemma names_of_sorted bs : StronglySorted (clt String.compare) (names_of bs).
Proof.
  unfold names_of. apply sorted_nodup_strict.
  - apply String.compare_eq_iff.
  - apply isort_sorted. apply string_compare_ok.
  - eapply Permutation_NoDup; [apply Permutation_sym, isort_perm | apply NoDup_nodup].
Qed.
Lemma names_of_In bs b : In b (names_of bs) <-> In b bs.
Proof.
  unfold names_of. rewrite <- (nodup_In string_dec bs b).
  split; apply Permutation_in; [apply isort_perm | apply Permutation_sym, isort_perm].
Qed.

(* ---------- the de-duplication loop on a sorted list ---------- *)
Section Dedupe.
  Variable ks : list kfield.
  Variable ef : list efield.
  Variable df : list dfield.
  Hypothesis Hkey : key_ok ks = true.
  Hypothesis Heq : equal_ok ef = true.
  Hypothesis Hdf : descr_ok df = true.

  Definition edescr (e : entry) : descr := descr_of (fst e).

  Record dd_inv (l : list diag) (st : list entry) : Prop := {
    inv_nodup : NoDup (map edescr st);
    inv_cover : forall d, In d l -> exists e, In e st /\ edescr e = descr_of d;
    inv_entry : forall e, In e st -> In (fst e) l /\
                  forall b, In b (snd e) <-> exists d, In d l /\ descr_of d = edescr e /\ d_build d = b;
    inv_head : match st with [] => l = [] | e :: _ => forall x, In x l -> cle (pcmp ks) x (fst e) end
  }.

  Lemma same_descr_iff a b : same_descr df a b = true <-> descr_of a = descr_of b.
  Proof. rewrite (same_descr_spec df a b Hdf). apply descr_eqb_eq. Qed.

  Lemma dd_step_inv l st d :
    cat_canon (l ++ [d]) ->
    (forall x, In x l -> cle (pcmp ks) x d) ->
    dd_inv l st -> dd_inv (l ++ [d]) (dd_step ef df st d).
  Proof.
    intros Hcanon Hle [I1 I2 I3 I4].
    assert (Hpc : pre_ok (pcmp ks)) by apply key_cmp_ok.
    destruct st as [|[e bs] rest].
    - (* first element *)
      subst l. simpl. split.
      + simpl. constructor; [intros []|constructor].
      + intros x [<-|[]]. exists (d, [d_build d]). split; [left; reflexivity|reflexivity].
      + intros e0 [<-|[]]. simpl. split; [left; reflexivity|].
        intro b. split.
        * intros [<-|[]]. exists d. repeat split. left. reflexivity.
        * intros [x [[<-|[]] [_ <-]]]. left. reflexivity.
      + intros x [<-|[]]. apply cle_refl. exact Hpc.
    - (* a previous entry exists *)
      assert (Ie : In e l) by (apply (I3 (e, bs)); left; reflexivity).
      assert (Hed : cle (pcmp ks) e d) by (apply Hle; exact Ie).
      (* an entry with the descriptor of d must be the head entry *)
      assert (Huniq : forall e0, In e0 ((e, bs) :: rest) -> edescr e0 = descr_of d -> descr_of e = descr_of d).
      { intros e0 I0 E0.
        assert (I0l : In (fst e0) l) by (apply (I3 e0 I0)).
        apply (pcmp_eq_iff ks e d Hkey).
        eapply cle_squeeze; [exact Hpc| | exact Hed |].
        - apply (I4 (fst e0) I0l).
        - apply (pcmp_eq_iff ks (fst e0) d Hkey). exact E0. }
      assert (Hrest : forall e0, In e0 rest -> edescr e0 <> descr_of e).
      { intros e0 I0 E0. simpl in I1. inversion I1 as [|? ? Nx _]; subst. apply Nx.
        change (edescr (e, bs)) with (descr_of e). rewrite <- E0. apply in_map. exact I0. }
      unfold dd_step.
      destruct (equal_b ef e d) eqn:Eeq; [|destruct (same_descr df e d) eqn:Esd].
      + (* exact duplicate of the head entry *)
        destruct (equal_b_spec ef e d Heq Eeq) as (E1 & E2 & E3 & E4 & E5).
        assert (Ecat : d_cat e = d_cat d).
        { apply Hcanon; [apply in_or_app; left; exact Ie | apply in_or_app; right; left; reflexivity | exact E4]. }
        assert (Ed : descr_of e = descr_of d) by (apply descr_of_eq; auto).
        split.
        * exact I1.
        * intros x Ix. apply in_app_or in Ix. destruct Ix as [Ix|[<-|[]]]; [apply I2; exact Ix|].
          exists (e, bs). split; [left; reflexivity|exact Ed].
        * intros e0 I0. destruct (I3 e0 I0) as [J1 J2]. split; [apply in_or_app; left; exact J1|].
          intro b. rewrite J2. split.
          -- intros [x [Ix Hx]]. exists x. split; [apply in_or_app; left; exact Ix|exact Hx].
          -- intros [x [Ix [Hx1 Hx2]]]. apply in_app_or in Ix. destruct Ix as [Ix|[<-|[]]]; [exists x; auto|].
             destruct I0 as [<-|I0].
             ++ exists e. repeat split; [exact Ie | congruence].
             ++ exfalso. apply (Hrest e0 I0). congruence.
        * intros x Ix. apply in_app_or in Ix. destruct Ix as [Ix|[<-|[]]]; [apply (I4 x Ix)|].
          simpl. unfold cle. rewrite (proj2 (pcmp_eq_iff ks d e Hkey) (eq_sym Ed)). discriminate.
      + (* same problem under another build name *)
        apply same_descr_iff in Esd. split.
        * exact I1.
        * intros x Ix. apply in_app_or in Ix. destruct Ix as [Ix|[<-|[]]].
          -- destruct (I2 x Ix) as [e0 [[<-|I0] E0]].
             ++ exists (e, d_build d :: bs). split; [left; reflexivity|exact E0].
             ++ exists e0. split; [right; exact I0|exact E0].
          -- exists (e, d_build d :: bs). split; [left; reflexivity|exact Esd].
        * intros e0 [<-|I0].
          -- destruct (I3 (e, bs) (or_introl eq_refl)) as [J1 J2]. simpl in *.
             split; [apply in_or_app; left; exact J1|].
             intro b. split.
             ++ intros [<-|Ib].
                ** exists d. repeat split; [apply in_or_app; right; left; reflexivity | symmetry; exact Esd].
                ** apply J2 in Ib. destruct Ib as [x [Ix Hx]]. exists x. split; [apply in_or_app; left; exact Ix|exact Hx].
             ++ intros [x [Ix [Hx1 Hx2]]]. apply in_app_or in Ix. destruct Ix as [Ix|[<-|[]]].
                ** right. apply J2. exists x. auto.
                ** left. exact Hx2.
          -- destruct (I3 e0 (or_intror I0)) as [J1 J2]. split; [apply in_or_app; left; exact J1|].
             intro b. rewrite J2. split.
             ++ intros [x [Ix Hx]]. exists x. split; [apply in_or_app; left; exact Ix|exact Hx].
             ++ intros [x [Ix [Hx1 Hx2]]]. apply in_app_or in Ix. destruct Ix as [Ix|[<-|[]]]; [exists x; auto|].
                exfalso. apply (Hrest e0 I0). congruence.
        * intros x Ix. apply in_app_or in Ix. destruct Ix as [Ix|[<-|[]]]; [apply (I4 x Ix)|].
          simpl. unfold cle. rewrite (proj2 (pcmp_eq_iff ks d e Hkey) (eq_sym Esd)). discriminate.
      + (* a new problem *)
        assert (Hne : descr_of e <> descr_of d).
        { intro E. apply same_descr_iff in E. congruence. }
        assert (Hfresh : forall e0, In e0 ((e, bs) :: rest) -> edescr e0 <> descr_of d).
        { intros e0 I0 E0. apply Hne. eapply Huniq; eassumption. }
        split.
        * simpl. constructor; [|exact I1].
          intro I. change (edescr (e, bs) :: map edescr rest) with (map edescr ((e, bs) :: rest)) in I.
          apply in_map_iff in I. destruct I as [e0 [E0 I0]]. apply (Hfresh e0 I0). exact E0.
        * intros x Ix. apply in_app_or in Ix. destruct Ix as [Ix|[<-|[]]].
          -- destruct (I2 x Ix) as [e0 [I0 E0]]. exists e0. split; [right; exact I0|exact E0].
          -- exists (d, [d_build d]). split; [left; reflexivity|reflexivity].
        * intros e0 [<-|I0].
          -- simpl. split; [apply in_or_app; right; left; reflexivity|].
             intro b. split.
             ++ intros [<-|[]]. exists d. repeat split. apply in_or_app; right; left; reflexivity.
             ++ intros [x [Ix [Hx1 Hx2]]]. apply in_app_or in Ix. destruct Ix as [Ix|[<-|[]]]; [|left; exact Hx2].
                exfalso. destruct (I2 x Ix) as [e0 [I0 E0]]. apply (Hfresh e0 I0). unfold edescr in *. simpl in Hx1. congruence.
          -- destruct (I3 e0 I0) as [J1 J2]. split; [apply in_or_app; left; exact J1|].
             intro b. rewrite J2. split.
             ++ intros [x [Ix Hx]]. exists x. split; [apply in_or_app; left; exact Ix|exact Hx].
             ++ intros [x [Ix [Hx1 Hx2]]]. apply in_app_or in Ix. destruct Ix as [Ix|[<-|[]]]; [exists x; auto|].
                exfalso. apply (Hfresh e0 I0). congruence.
        * intros x Ix. apply in_app_or in Ix. destruct Ix as [Ix|[<-|[]]]; [apply Hle; exact Ix|].
          simpl. apply cle_refl. exact Hpc.
  Qed.

  Lemma dd_inv_nil : dd_inv [] [].
  Proof. split; simpl; try tauto; try constructor. Qed.

  Lemma sorted_app_last {A} (R : A -> A -> Prop) l d :
    StronglySorted R (l ++ [d]) -> StronglySorted R l /\ forall x, In x l -> R x d.
  Proof.
    induction l as [|y r IH]; simpl; intro S.
    - split; [constructor|tauto].
    - inversion S as [|? ? S' F]; subst. destruct (IH S') as [S1 S2]. split.
      + constructor; [exact S1|]. rewrite Forall_forall in *. intros z Iz. apply F. apply in_or_app. left. exact Iz.
      + intros x [<-|Ix]; [|apply S2; exact Ix]. rewrite Forall_forall in F. apply F. apply in_or_app. right. left. reflexivity.
  Qed.

  Lemma cat_canon_app_l l l' : cat_canon (l ++ l') -> cat_canon l.
  Proof. intros H a b Ia Ib. apply H; apply in_or_app; left; assumption. Qed.

  Lemma dedupe_inv l :
    cat_canon l -> StronglySorted (cle (pcmp ks)) l -> dd_inv l (fold_left (dd_step ef df) l []).
  Proof.
    induction l as [|d l IH] using rev_ind; intros Hc Hs.
    - apply dd_inv_nil.
    - rewrite fold_left_app. simpl. destruct (sorted_app_last _ _ _ Hs) as [S1 S2].
      apply dd_step_inv; [exact Hc | exact S2 | apply IH; [eapply cat_canon_app_l; exact Hc | exact S1]].
  Qed.

  (* any sorted arrangement of the problems is printed exactly *)
  Theorem dedupe_exact ds s :
    cat_canon ds -> Permutation s ds -> sorted_by ks s ->
    exact_output ds (map finish (dedupe ef df s)).
  Proof.
    intros Hc Hp Hs.
    assert (Hcs : cat_canon s).
    { intros a b Ia Ib. apply Hc; eapply Permutation_in; eassumption. }
    destruct (dedupe_inv s Hcs (sorted_by_prefix ks s Hs)) as [I1 I2 I3 _].
    unfold dedupe. set (st := fold_left (dd_step ef df) s []) in *.
    assert (Hmap : forall l : list entry, map (fun e => descr_of (fst e)) (map finish l) = map edescr l).
    { intro l. rewrite map_map. apply map_ext. intros [e bs]. reflexivity. }
    split; [|split].
    - rewrite Hmap, map_rev. apply NoDup_rev. exact I1.
    - intros d Id. destruct (I2 d (Permutation_in _ (Permutation_sym Hp) Id)) as [e [Ie Ee]].
      exists (finish e). split; [apply in_map; apply -> in_rev; exact Ie | exact Ee].
    - intros e' Ie'. apply in_map_iff in Ie'. destruct Ie' as [e [<- Ie]]. apply in_rev in Ie.
      destruct (I3 e Ie) as [J1 J2]. simpl. split; [eapply Permutation_in; eassumption|]. split.
      + apply names_of_sorted.
      + intro b. rewrite names_of_In, J2. split; intros [x [Ix Hx]]; exists x; (split; [|exact Hx]).
        * eapply Permutation_in; eassumption.
        * eapply Permutation_in; [apply Permutation_sym|]; eassumption.
  Qed.

  (* the executable model (insertion sort) in particular *)
  Corollary print_entries_exact ds : cat_canon ds -> exact_output ds (print_entries ks ef df ds).
  Proof.
    intro Hc. unfold print_entries. apply dedupe_exact; [exact Hc | apply isort_perm |].
    unfold sorted_by, sort_diags. apply isort_sorted. apply key_cmp_ok.
  Qed.
End Dedupe.

(* ---------- runFromLintResult / mergeRuns ---------- *)
Section MergeProofs.
  Variable df : list dfield.
  Variables vany vall : Z.
  Hypothesis Hdf : descr_ok df = true.

  Lemma has_descr_iff d l : has_descr df d l = true <-> exists x, In x l /\ descr_of x = descr_of d.
  Proof.
    unfold has_descr. rewrite existsb_exists. split; intros [x [Ix Hx]]; exists x; (split; [exact Ix|]).
    - rewrite (same_descr_spec df x d Hdf) in Hx. apply descr_eqb_eq. exact Hx.
    - rewrite (same_descr_spec df x d Hdf). apply descr_eqb_eq. exact Hx.
  Qed.

  Lemma keep_last_In d l : In d (keep_last df l) -> In d l.
  Proof.
    induction l as [|y r IH]; simpl; [tauto|]. destruct (has_descr df y r); simpl; [auto|].
    intros [->|I]; auto.
  Qed.

  (* the descriptor set of the map equals the descriptor set of the list *)
  Lemma keep_last_descr d l : (exists x, In x (keep_last df l) /\ descr_of x = descr_of d) <->
                              (exists x, In x l /\ descr_of x = descr_of d).
  Proof.
    induction l as [|y r IH]; simpl; [reflexivity|].
    destruct (has_descr df y r) eqn:E.
    - rewrite IH. split.
      + intros [x [Ix Hx]]. exists x. auto.
      + intros [x [[->|Ix] Hx]]; [|exists x; auto].
        apply has_descr_iff in E. destruct E as [z [Iz Hz]]. exists z. split; [exact Iz|congruence].
    - split.
      + intros [x [[->|Ix] Hx]]; [exists x; simpl; auto|].
        destruct (proj1 IH (ex_intro _ x (conj Ix Hx))) as [z [Iz Hz]]. exists z. simpl; auto.
      + intros [x [[->|Ix] Hx]]; [exists x; simpl; auto|].
        destruct (proj2 IH (ex_intro _ x (conj Ix Hx))) as [z [Iz Hz]]. exists z. simpl; auto.
  Qed.

  (* map assignment: the LAST entry with a given descriptor is the one kept *)
  Lemma keep_last_spec d l :
    In d (keep_last df l) <-> exists l1 l2, l = l1 ++ d :: l2 /\ forall x, In x l2 -> descr_of x <> descr_of d.
  Proof.
    induction l as [|y r IH]; simpl.
    - split; [tauto|]. intros (l1 & l2 & E & _). destruct l1; discriminate.
    - destruct (has_descr df y r) eqn:E.
      + rewrite IH. split.
        * intros (l1 & l2 & -> & H). exists (y :: l1), l2. split; [reflexivity|exact H].
        * intros (l1 & l2 & El & H). destruct l1 as [|z l1]; simpl in El; inversion El; subst.
          -- exfalso. apply has_descr_iff in E. destruct E as [x [Ix Hx]]. apply (H x Ix Hx).
          -- exists l1, l2. split; [reflexivity|exact H].
      + split.
        * intros [->|I].
          -- exists [], r. split; [reflexivity|]. intros x Ix Hx.
             assert (has_descr df d r = true) by (apply has_descr_iff; exists x; auto). congruence.
          -- apply IH in I. destruct I as (l1 & l2 & -> & H). exists (y :: l1), l2. split; [reflexivity|exact H].
        * intros (l1 & l2 & El & H). destruct l1 as [|z l1]; simpl in El; inversion El; subst.
          -- left. reflexivity.
          -- right. apply IH. exists l1, l2. split; [reflexivity|exact H].
  Qed.

  Lemma mem_string_iff s l : mem_string s l = true <-> In s l.
  Proof.
    unfold mem_string. rewrite existsb_exists. split.
    - intros [x [Ix Hx]]. apply String.eqb_eq in Hx. subst. exact Ix.
    - intro I. exists s. split; [exact I|apply String.eqb_refl].
  Qed.

  Definition strat (d : diag) := strategy_of vany vall (d_mergeif d).
  (* run [r] reports the problem [k] (as the entry that survives in its map) with strategy [m] *)
  Definition run_reports (r : run) (k : descr) (m : strategy) : Prop :=
    exists d, In d (run_map df r) /\ descr_of d = k /\ strat d = m.
  Definition run_contains (r : run) (k : descr) : Prop := exists d, In d (r_diags r) /\ descr_of d = k.
  Definition merged_has (rs : list run) (k : descr) (m : strategy) : Prop :=
    exists d, In d (merge_runs df vany vall rs) /\ descr_of d = k /\ strat d = m.

  Lemma in_merge_runs rs d :
    In d (merge_runs df vany vall rs) <-> exists r, In r rs /\ In d (run_map df r) /\ keep df vany vall rs d = true.
  Proof.
    unfold merge_runs. rewrite in_flat_map. split; intros [r [Ir H]]; exists r; (split; [exact Ir|]);
      rewrite filter_In in *; exact H.
  Qed.

  Theorem merge_any_gen rs k : merged_has rs k MAny <-> exists r, In r rs /\ run_reports r k MAny.
  Proof.
    unfold merged_has, run_reports. split.
    - intros [d [Id [Hk Hm]]]. apply in_merge_runs in Id. destruct Id as [r [Ir [Idr _]]].
      exists r. split; [exact Ir|]. exists d. auto.
    - intros [r [Ir [d [Idr [Hk Hm]]]]]. exists d. split; [|auto].
      apply in_merge_runs. exists r. split; [exact Ir|]. split; [exact Idr|].
      unfold keep. unfold strat in Hm. rewrite Hm. reflexivity.
  Qed.

  Lemma keep_all_iff rs d : strat d = MAll ->
    (keep df vany vall rs d = true <->
     forall r', In r' rs -> In (d_file d) (r_checked r') -> run_contains r' (descr_of d)).
  Proof.
    intro Hm. unfold keep. unfold strat in Hm. rewrite Hm, forallb_forall. split.
    - intros H r' Ir' Ic. specialize (H r' Ir'). apply (proj2 (mem_string_iff _ _)) in Ic. rewrite Ic in H. simpl in H.
      apply has_descr_iff in H. unfold run_map in H. apply (proj1 (keep_last_descr _ _)) in H. exact H.
    - intros H r' Ir'. destruct (mem_string (d_file d) (r_checked r')) eqn:E; [|reflexivity]. simpl.
      apply mem_string_iff in E. apply has_descr_iff. unfold run_map. apply (proj2 (keep_last_descr _ _)). exact (H r' Ir' E).
  Qed.

  Theorem merge_all_gen rs k :
    merged_has rs k MAll <->
    (exists r, In r rs /\ run_reports r k MAll) /\
    (forall r', In r' rs -> In (descr_file k) (r_checked r') -> run_contains r' k).
  Proof.
    unfold merged_has, run_reports. split.
    - intros [d [Id [Hk Hm]]]. apply in_merge_runs in Id. destruct Id as [r [Ir [Idr Hkeep]]]. split.
      + exists r. split; [exact Ir|]. exists d. auto.
      + rewrite (keep_all_iff rs d Hm) in Hkeep. subst k. exact Hkeep.
    - intros [[r [Ir [d [Idr [Hk Hm]]]]] Hall]. exists d. split; [|auto].
      apply in_merge_runs. exists r. split; [exact Ir|]. split; [exact Idr|].
      apply (keep_all_iff rs d Hm). subst k. exact Hall.
  Qed.

  (* the result depends on the SET of runs only *)
  Lemma keep_set_ext rs rs' d : (forall r, In r rs <-> In r rs') -> keep df vany vall rs d = keep df vany vall rs' d.
  Proof.
    intro H. unfold keep. destruct (strategy_of vany vall (d_mergeif d)); try reflexivity.
    apply eq_true_iff_eq. rewrite !forallb_forall. split; intros F r Ir; apply F; apply H; exact Ir.
  Qed.
  Theorem merge_set_ext rs rs' : (forall r, In r rs <-> In r rs') ->
    forall d, In d (merge_runs df vany vall rs) <-> In d (merge_runs df vany vall rs').
  Proof.
    intros H d. rewrite !in_merge_runs. split; intros [r [Ir [I K]]]; exists r.
    - rewrite <- (keep_set_ext rs rs' d H). split; [apply H; exact Ir|auto].
    - rewrite (keep_set_ext rs rs' d H). split; [apply H; exact Ir|auto].
  Qed.

  (* reordering the runs permutes the merged problems (nothing is gained or lost, not even multiplicity) *)
  Theorem merge_perm_gen rs rs' : Permutation rs rs' ->
    Permutation (merge_runs df vany vall rs) (merge_runs df vany vall rs').
  Proof.
    intro P. unfold merge_runs.
    rewrite (flat_map_ext (fun r => filter (keep df vany vall rs) (run_map df r))
                          (fun r => filter (keep df vany vall rs') (run_map df r))).
    - apply Permutation_flat_map. exact P.
    - intro r. apply filter_ext. intro d. apply keep_set_ext.
      intro x. split; apply Permutation_in; [exact P|apply Permutation_sym; exact P].
  Qed.
End MergeProofs.

(* ---------- exact outputs are unique ---------- *)
Definition entry_view (e : entry) : descr * list string := (descr_of (fst e), snd e).

Lemma exact_output_unique ds ds' o o' :
  (forall d, In d ds <-> In d ds') -> exact_output ds o -> exact_output ds' o' ->
  forall v, In v (map entry_view o) -> In v (map entry_view o').
Proof.
  intros Hset [N1 [C1 E1]] [N2 [C2 E2]] v Iv.
  apply in_map_iff in Iv. destruct Iv as [e [<- Ie]].
  destruct (E1 e Ie) as [Ied [S1 B1]].
  destruct (C2 (fst e) (proj1 (Hset _) Ied)) as [e' [Ie' Ed]].
  destruct (E2 e' Ie') as [_ [S2 B2]].
  apply in_map_iff. exists e'. split; [|exact Ie'].
  unfold entry_view. rewrite Ed. f_equal.
  apply (strict_sorted_unique string_compare_ok); try assumption.
  intro b. rewrite B1, B2. rewrite Ed.
  split; intros [d [Id Hd]]; exists d; (split; [apply Hset; exact Id|exact Hd]).
Qed.

Lemma in_dup_middle {A} (l1 l2 : list A) r x : In x (l1 ++ r :: l2) <-> In x (l1 ++ r :: r :: l2).
Proof. rewrite !in_app_iff. simpl. tauto. Qed.

Lemma merge_idem_gen df vany vall rs1 r rs2 d :
  In d (merge_runs df vany vall (rs1 ++ r :: rs2)) <-> In d (merge_runs df vany vall (rs1 ++ r :: r :: rs2)).
Proof. apply merge_set_ext. intro x. apply in_dup_middle. Qed.
