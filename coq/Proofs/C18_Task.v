(* C18 — proofs about the task-graph model (Model/C18.v). *)
From Coq Require Import List Arith NArith Bool Lia.
Import ListNotations.
Require Import Verif.Model.C18.

(* ---------- small facts ---------- *)
Lemma memb_In : forall x l, memb x l = true <-> In x l.
Proof.
  unfold memb. intros. rewrite existsb_exists. split.
  - intros [y [H1 H2]]. apply N.eqb_eq in H2. subst. assumption.
  - intros H. exists x. split; [assumption | apply N.eqb_refl].
Qed.

Lemma inclb_incl : forall a b, inclb a b = true <-> incl a b.
Proof.
  unfold inclb, incl. intros. rewrite forallb_forall. split; intros H x Hx.
  - apply memb_In. auto.
  - apply memb_In. auto.
Qed.

Lemma upd_same : forall A (f : id -> A) k v, upd f k v k = v.
Proof. intros. unfold upd. rewrite N.eqb_refl. reflexivity. Qed.

Lemma upd_other : forall A (f : id -> A) k v k', k' <> k -> upd f k v k' = f k'.
Proof. intros. unfold upd. apply N.eqb_neq in H. rewrite H. reflexivity. Qed.

Lemma enqueue_incl_work : forall ys work x, In x work -> In x (enqueue work ys).
Proof.
  induction ys as [|y ys IH]; cbn; intros work x H; [assumption|].
  apply IH. destruct (memb y work); [assumption | apply in_or_app; left; assumption].
Qed.

Lemma enqueue_incl_ys : forall ys work x, In x ys -> In x (enqueue work ys).
Proof.
  induction ys as [|y ys IH]; cbn; intros work x H; [contradiction|].
  destruct H as [H|H].
  - subst. apply enqueue_incl_work. destruct (memb x work) eqn:E.
    + apply memb_In. assumption.
    + apply in_or_app. right. left. reflexivity.
  - apply IH. assumption.
Qed.

Lemma enqueue_prefix : forall ys work, exists extra, enqueue work ys = work ++ extra.
Proof.
  induction ys as [|y ys IH]; cbn; intros work.
  - exists []. rewrite app_nil_r. reflexivity.
  - destruct (memb y work).
    + apply IH.
    + destruct (IH (work ++ [y])) as [e He]. exists ([y] ++ e). rewrite He. rewrite <- app_assoc. reflexivity.
Qed.

Lemma enqueue_only : forall ys work x, In x (enqueue work ys) -> In x work \/ In x ys.
Proof.
  induction ys as [|y ys IH]; cbn; intros work x H; [left; assumption|].
  apply IH in H. destruct H as [H|H]; [|right; right; assumption].
  destruct (memb y work); [left; assumption|].
  apply in_app_or in H. destruct H as [H|[H|[]]]; [left; assumption | right; left; assumption].
Qed.

Lemma nodup_snoc : forall (l : list id) y, NoDup l -> ~ In y l -> NoDup (l ++ [y]).
Proof.
  induction l as [|a l IH]; cbn; intros y Hn Hy.
  - constructor; [intros [] | constructor].
  - inversion Hn; subst. constructor.
    + intros H. apply in_app_or in H. destruct H as [H|[H|[]]]; [contradiction|]. subst. apply Hy. left. reflexivity.
    + apply IH; [assumption|]. intros H. apply Hy. right. assumption.
Qed.

Lemma enqueue_nodup : forall ys work, NoDup work -> NoDup (enqueue work ys).
Proof.
  induction ys as [|y ys IH]; cbn; intros work H; [assumption|].
  apply IH. destruct (memb y work) eqn:E; [assumption|].
  apply nodup_snoc; [assumption|]. intros Hin. apply memb_In in Hin. congruence.
Qed.

(* ---------- reachability ---------- *)
Lemma reach_trans : forall s x y z, reach s x y -> reach s y z -> reach s x z.
Proof. induction 1; intros; [assumption|]. eapply reach_step; eauto. Qed.

Lemma closed_done_succ : forall s x y, closed_done s x -> reach s x y -> closed_done s y.
Proof. unfold closed_done. intros. apply H. eapply reach_trans; eauto. Qed.

(* adding an edge out of a task that is not done cannot change what a closed-and-done task reaches *)
Lemma reach_add_edge_frame :
  forall s s' x, done s x = false ->
    done s' = done s ->
    (forall u, u <> x -> edges s' u = edges s u) ->
    forall t z, reach s' t z -> closed_done s t -> reach s t z.
Proof.
  intros s s' x Hx Hd He t z Hr. induction Hr as [t | t a z Ha Hr IH]; intros Hc.
  - constructor.
  - assert (t <> x) as Hne.
    { intros ->. specialize (Hc x (reach_refl _ _)). congruence. }
    rewrite (He _ Hne) in Ha.
    eapply reach_step; [exact Ha|]. apply IH.
    eapply closed_done_succ; [exact Hc|]. eapply reach_step; [exact Ha | constructor].
Qed.

(* ---------- the invariant ---------- *)
Definition visited_ok (s : state) (work : list task) (u : task) : Prop :=
  trans s u = true \/ (done s u = true /\ forall v, In v (edges s u) -> In v work).

Record WInv (s : state) (ws : wstate) : Prop := {
  wi_root : In (w_root ws) (w_work ws);
  wi_sub : incl (w_seen ws) (w_work ws);
  wi_vis : forall u, In u (w_seen ws) -> visited_ok s (w_work ws) u;
  wi_closed : w_closed ws = true -> trans s (w_root ws) = true;
  wi_nodup : NoDup (w_work ws);
  wi_seen_nodup : NoDup (w_seen ws);
  wi_reach : forall u, In u (w_work ws) -> reach s (w_root ws) u
}.

Record Inv (s : state) : Prop := {
  inv_trans : forall t, trans s t = true -> closed_done s t;
  inv_wait : forall w ws, waiter s w = Some ws -> WInv s ws;
  inv_fns : forall f t, In (f, t) (fns s) -> done s t = true -> built s f = true;
  inv_fns_nodup : NoDup (map fst (fns s))
}.

(* when the loop has processed its whole work list, the root is closed and done *)
Lemma bfs_complete :
  forall s ws, (forall t, trans s t = true -> closed_done s t) ->
    WInv s ws -> incl (w_work ws) (w_seen ws) -> closed_done s (w_root ws).
Proof.
  intros s ws Ht Hw Hi.
  assert (forall u y, reach s u y -> In u (w_work ws) -> done s y = true) as H.
  { intros u y Hr. induction Hr as [u | u a y Ha Hr IH]; intros Hin.
    - destruct (wi_vis _ _ Hw u (Hi _ Hin)) as [Htr | [Hd _]].
      + apply (Ht _ Htr). constructor.
      + assumption.
    - destruct (wi_vis _ _ Hw u (Hi _ Hin)) as [Htr | [Hd Hsub]].
      + apply (Ht _ Htr). eapply reach_step; eauto.
      + apply IH. apply Hsub. assumption. }
  intros y Hr. eapply H; [exact Hr|]. apply (wi_root _ _ Hw).
Qed.

Lemma init_inv : Inv init.
Proof.
  constructor; cbn.
  - intros t Ht y Hr. apply N.eqb_eq in Ht. subst.
    inversion Hr; subst; [reflexivity|]. cbn in H. contradiction.
  - intros. discriminate.
  - intros. contradiction.
  - constructor.
Qed.

(* WInv only depends on done/edges/trans; it is preserved when those grow compatibly *)
Lemma winv_frame :
  forall s s' ws,
    WInv s ws ->
    (forall t, trans s t = true -> trans s' t = true) ->
    (forall t, done s t = true -> done s' t = true) ->
    (forall t, done s t = true -> edges s' t = edges s t) ->
    (forall t v, In v (edges s t) -> In v (edges s' t)) ->
    WInv s' ws.
Proof.
  intros s s' ws H Ht Hd He Hm. destruct H. constructor; auto.
  - intros u Hu. destruct (wi_vis0 u Hu) as [A | [A B]].
    + left. auto.
    + right. split; [auto|]. intros v Hv. rewrite (He _ A) in Hv. auto.
  - intros u Hu. specialize (wi_reach0 u Hu).
    clear - wi_reach0 Hm. induction wi_reach0; [constructor|]. eapply reach_step; eauto.
Qed.

Lemma inv_trans_frame :
  forall s s', (forall t, edges s' t = edges s t) -> (forall t, done s t = true -> done s' t = true) ->
    (forall t, trans s t = true -> closed_done s t) ->
    forall t, trans s t = true -> closed_done s' t.
Proof.
  intros s s' He Hd It t Ht z Hr. apply Hd. apply (It t Ht).
  clear - Hr He. induction Hr; [constructor|]. rewrite He in H. eapply reach_step; eauto.
Qed.

Lemma step_inv : forall s l s', Inv s -> step s l = Some s' -> Inv s'.
Proof.
  intros s l s' HI Hs. unfold step in Hs. destruct (guard s l) eqn:G; [|discriminate].
  injection Hs as <-. destruct HI as [It Iw If Ind].
  destruct l; cbn [guard effect] in *.
  - (* LAddEdge x y *)
    apply negb_true_iff in G.
    set (s' := mkS (done s) (upd (edges s) x (if memb y (edges s x) then edges s x else y :: edges s x))
                   (trans s) (waiter s) (fns s) (built s)).
    assert (forall u, u <> x -> edges s' u = edges s u) as He.
    { intros u Hu. cbn. apply upd_other. assumption. }
    assert (forall t v, In v (edges s t) -> In v (edges s' t)) as Hm.
    { intros t v Hv. cbn. unfold upd. destruct (N.eqb t x) eqn:E; [|assumption].
      apply N.eqb_eq in E. subst. destruct (memb y (edges s x)); [assumption | right; assumption]. }
    constructor.
    + intros t Ht z Hr. cbn in Ht. cbn [done s'].
      apply (It t Ht). eapply (reach_add_edge_frame s s' x); eauto.
    + intros w ws Hw. cbn in Hw. apply (winv_frame s s' ws (Iw _ _ Hw)); auto.
      intros t Hd. apply He. intros ->. cbn in Hd. congruence.
    + cbn. assumption.
    + cbn. assumption.
  - (* LAddSkip *)
    constructor; assumption.
  - (* LMarkDone x *)
    apply andb_true_iff in G. destruct G as [G1 G2]. apply negb_true_iff in G1.
    set (s' := mkS (upd (done s) x true) (edges s) (trans s) (waiter s) (fns s) (built s)).
    assert (forall t, done s t = true -> done s' t = true) as Hd.
    { intros t Ht. cbn. unfold upd. destruct (N.eqb t x); auto. }
    constructor.
    + intros t Ht z Hr. apply Hd. apply (It t Ht).
      clear - Hr. induction Hr; [constructor|]. eapply reach_step; eauto.
    + intros w ws Hw. cbn in Hw. apply (winv_frame s s' ws (Iw _ _ Hw)); auto.
    + cbn. intros f t Hin Hdn. unfold upd in Hdn. destruct (N.eqb t x) eqn:E.
      * apply N.eqb_eq in E. subst. unfold owned_built in G2. rewrite forallb_forall in G2.
        specialize (G2 _ Hin). cbn in G2. rewrite N.eqb_refl in G2. cbn in G2. assumption.
      * eauto.
    + cbn. assumption.
  - (* LWaitStart w x *)
    destruct (waiter s w) eqn:Ew; [discriminate|]. unfold set_waiter.
    match goal with |- Inv ?st => set (s' := st) end.
    assert (forall ws, WInv s ws -> WInv s' ws) as F by (intros ws0 H0; apply (winv_frame s s' ws0 H0); auto).
    constructor; cbn; auto.
    { apply (inv_trans_frame s); auto. }
    intros w' ws Hw. unfold upd in Hw. destruct (N.eqb w' w) eqn:E.
    + injection Hw as <-. constructor; cbn.
      * left. reflexivity.
      * intros u [].
      * intros u [].
      * discriminate.
      * constructor; [intros [] | constructor].
      * constructor.
      * intros u [<-|[]]. constructor.
    + apply F. eauto.
  - (* LWaitFast w x *)
    destruct (waiter s w) as [ws0|] eqn:Ew; [|discriminate].
    repeat (apply andb_true_iff in G; destruct G as [G ?]).
    apply N.eqb_eq in H0. subst x. unfold set_waiter.
    match goal with |- Inv ?st => set (s' := st) end.
    assert (forall ws, WInv s ws -> WInv s' ws) as F by (intros ws1 H1; apply (winv_frame s s' ws1 H1); auto).
    constructor; cbn; auto.
    { apply (inv_trans_frame s); auto. }
    intros w' ws Hw. unfold upd in Hw. destruct (N.eqb w' w) eqn:E.
    + injection Hw as <-. destruct (F _ (Iw _ _ Ew)). constructor; cbn; auto.
    + apply F. eauto.
  - (* LWaitSkip w u *)
    destruct (waiter s w) as [ws0|] eqn:Ew; [|discriminate].
    repeat (apply andb_true_iff in G; destruct G as [G ?]).
    apply negb_true_iff in G.
    unfold pending in H0. apply andb_true_iff in H0. destruct H0 as [Hin Hnot].
    apply memb_In in Hin. apply negb_true_iff in Hnot.
    assert (~ In u (w_seen ws0)) as Hfresh by (intros Hs; apply memb_In in Hs; congruence).
    unfold set_waiter.
    match goal with |- Inv ?st => set (s' := st) end.
    assert (forall ws, WInv s ws -> WInv s' ws) as F by (intros ws1 H1; apply (winv_frame s s' ws1 H1); auto).
    constructor; cbn; auto.
    { apply (inv_trans_frame s); auto. }
    intros w' ws Hw. unfold upd in Hw. destruct (N.eqb w' w) eqn:E.
    + injection Hw as <-. destruct (F _ (Iw _ _ Ew)). constructor; cbn; auto.
      * intros v [<-|Hv]; auto.
      * intros v [<-|Hv]; [left; assumption | auto].
      * discriminate.
      * constructor; assumption.
    + apply F. eauto.
  - (* LWaitObserve w u ys *)
    destruct (waiter s w) as [ws0|] eqn:Ew; [|discriminate].
    repeat (apply andb_true_iff in G; destruct G as [G ?]).
    apply negb_true_iff in G.
    unfold pending in H2. apply andb_true_iff in H2. destruct H2 as [Hin Hnot].
    apply memb_In in Hin. apply negb_true_iff in Hnot.
    assert (~ In u (w_seen ws0)) as Hfresh by (intros Hs; apply memb_In in Hs; congruence).
    apply inclb_incl in H, H0. unfold set_waiter.
    match goal with |- Inv ?st => set (s' := st) end.
    assert (forall ws, WInv s ws -> WInv s' ws) as F by (intros ws1 H3; apply (winv_frame s s' ws1 H3); auto).
    constructor; cbn; auto.
    { apply (inv_trans_frame s); auto. }
    intros w' ws Hw. unfold upd in Hw. destruct (N.eqb w' w) eqn:E.
    + injection Hw as <-. destruct (F _ (Iw _ _ Ew)).
      constructor; cbn [w_root w_work w_seen w_closed].
      * apply enqueue_incl_work. assumption.
      * intros v [<-|Hv]; apply enqueue_incl_work; auto.
      * intros v [<-|Hv].
        -- right. split; [assumption|]. intros v Hv. apply enqueue_incl_ys. apply H. assumption.
        -- destruct (wi_vis0 v Hv) as [A|[A B]]; [left; assumption|].
           right. split; [assumption|]. intros v' Hv'. apply enqueue_incl_work. auto.
      * discriminate.
      * apply enqueue_nodup. assumption.
      * constructor; assumption.
      * intros v Hv. apply enqueue_only in Hv. destruct Hv as [Hv|Hv]; [auto|].
        apply reach_trans with u.
        -- apply wi_reach0. assumption.
        -- eapply reach_step; [apply H0; exact Hv | constructor].
    + apply F. eauto.
  - (* LWaitClosed w x *)
    destruct (waiter s w) as [ws0|] eqn:Ew; [|discriminate].
    repeat (apply andb_true_iff in G; destruct G as [G ?]).
    apply negb_true_iff in G. apply inclb_incl in H. apply N.eqb_eq in H0. subst x.
    pose proof (bfs_complete s ws0 It (Iw _ _ Ew) H) as Hc.
    set (s' := mkS (done s) (edges s) (upd (trans s) (w_root ws0) true)
              (upd (waiter s) w (Some (mkW (w_root ws0) (w_work ws0) (w_seen ws0) true))) (fns s) (built s)).
    assert (forall t, trans s t = true -> trans s' t = true) as Ht.
    { intros t Htt. cbn. unfold upd. destruct (N.eqb t (w_root ws0)); auto. }
    assert (forall t z, reach s' t z -> reach s t z) as Hr.
    { intros t z R. induction R; [constructor|]. eapply reach_step; eauto. }
    constructor.
    + intros t Htt z R. cbn [done s']. cbn in Htt. unfold upd in Htt.
      destruct (N.eqb t (w_root ws0)) eqn:E.
      * apply N.eqb_eq in E. subst. apply Hc. auto.
      * apply (It t Htt). auto.
    + intros w' ws Hw. cbn in Hw. unfold upd in Hw. destruct (N.eqb w' w) eqn:E.
      * injection Hw as <-. destruct (Iw _ _ Ew).
        assert (WInv s' ws0) as [? ? ? ? ? ? ?] by (apply (winv_frame s s' ws0 (Iw _ _ Ew)); auto).
        constructor; cbn [w_root w_work w_seen w_closed]; auto.
        intros _. cbn. apply upd_same.
      * apply (winv_frame s s' ws (Iw _ _ Hw)); auto.
    + cbn. assumption.
    + cbn. assumption.
  - (* LEnqueue x f *)
    destruct (N.eqb x 0) eqn:E0; [constructor; assumption|].
    cbn in G. apply andb_true_iff in G. destruct G as [G1 G2].
    apply negb_true_iff in G1, G2.
    constructor; cbn; auto.
    + apply (inv_trans_frame s); auto.
    + intros w ws Hw. apply (winv_frame s _ ws (Iw _ _ Hw)); auto.
    + intros f' t [Heq|Hin] Hd; [|eauto]. injection Heq as <- <-. congruence.
    + constructor; [|assumption]. intros Hin. apply in_map_iff in Hin. destruct Hin as [[f' t'] [Hf Hin]].
      cbn in Hf. subst f'.
      apply not_true_iff_false in G2. apply G2.
      apply existsb_exists. exists (f, t'). split; [assumption | cbn; apply N.eqb_refl].
  - (* LBuilt f *)
    constructor; cbn; auto.
    + apply (inv_trans_frame s); auto.
    + intros w ws Hw. apply (winv_frame s _ ws (Iw _ _ Hw)); auto.
    + intros f' t Hin Hd. unfold upd. destruct (N.eqb f' f); eauto.
Qed.

Lemma run_inv : forall tr s s', Inv s -> run s tr = Some s' -> Inv s'.
Proof.
  induction tr as [|l tr IH]; cbn; intros s s' HI Hr.
  - injection Hr as <-. assumption.
  - destruct (step s l) as [s1|] eqn:Es; [|discriminate]. eapply IH; [|exact Hr]. eapply step_inv; eauto.
Qed.

Lemma run_app : forall tr1 tr2 s, run s (tr1 ++ tr2) = match run s tr1 with Some s1 => run s1 tr2 | None => None end.
Proof.
  induction tr1 as [|l tr1 IH]; cbn; intros; [reflexivity|]. destruct (step s l); [apply IH | reflexivity].
Qed.

(* ---------- monotonicity: done only grows, edges of a done task are frozen, a returned wait stays returned ---------- *)
Lemma step_done_mono : forall s l s' t, step s l = Some s' -> done s t = true -> done s' t = true.
Proof.
  intros s l s' t Hs Hd. unfold step in Hs. destruct (guard s l); [|discriminate]. injection Hs as <-.
  destruct l; cbn; auto; try (destruct (waiter s w); cbn; auto; fail).
  - unfold upd. destruct (N.eqb t x); auto.
  - destruct (N.eqb x 0); cbn; auto.
Qed.

Lemma step_edges_frozen : forall s l s' t, step s l = Some s' -> done s t = true -> edges s' t = edges s t.
Proof.
  intros s l s' t Hs Hd. unfold step in Hs. destruct (guard s l) eqn:G; [|discriminate]. injection Hs as <-.
  destruct l; cbn; auto; try (destruct (waiter s w); cbn; auto; fail).
  - cbn in G. apply negb_true_iff in G. unfold upd. destruct (N.eqb t x) eqn:E; [|reflexivity].
    apply N.eqb_eq in E. subst. congruence.
  - destruct (N.eqb x 0); cbn; auto.
Qed.

Lemma step_edges_mono : forall s l s' t v, step s l = Some s' -> In v (edges s t) -> In v (edges s' t).
Proof.
  intros s l s' t v Hs Hd. unfold step in Hs. destruct (guard s l) eqn:G; [|discriminate]. injection Hs as <-.
  destruct l; cbn; auto; try (destruct (waiter s w); cbn; auto; fail).
  - unfold upd. destruct (N.eqb t x) eqn:E; [|assumption]. apply N.eqb_eq in E. subst.
    destruct (memb y (edges s x)); [assumption | right; assumption].
  - destruct (N.eqb x 0); cbn; auto.
Qed.

Lemma step_built_mono : forall s l s' f, step s l = Some s' -> built s f = true -> built s' f = true.
Proof.
  intros s l s' f Hs Hd. unfold step in Hs. destruct (guard s l); [|discriminate]. injection Hs as <-.
  destruct l; cbn; auto; try (destruct (waiter s w); cbn; auto; fail).
  - destruct (N.eqb x 0); cbn; auto.
  - unfold upd. destruct (N.eqb f f0); auto.
Qed.

Lemma step_returned : forall s l s' w x, step s l = Some s' -> returned s w x -> returned s' w x.
Proof.
  intros s l s' w x Hs [ws [Hw [Hc Hr]]]. unfold step in Hs. destruct (guard s l) eqn:G; [|discriminate].
  injection Hs as <-. unfold returned.
  assert (forall w0 ws', (w0 = w -> False) -> waiter (set_waiter s w0 ws') w = Some ws) as Hother.
  { intros w0 ws' Hne. cbn. rewrite upd_other; [assumption|]. intros ->. apply Hne. reflexivity. }
  destruct l; cbn [guard effect] in *; try (exists ws; cbn; auto; fail).
  - destruct (N.eq_dec w0 w) as [->|Hne]; [rewrite Hw in G; discriminate|].
    exists ws. rewrite Hother; auto.
  - destruct (waiter s w0) as [ws0|] eqn:E0; [|exists ws; auto].
    destruct (N.eq_dec w0 w) as [->|Hne].
    + rewrite Hw in E0. injection E0 as <-. rewrite Hc in G. discriminate.
    + exists ws. rewrite Hother; auto.
  - destruct (waiter s w0) as [ws0|] eqn:E0; [|exists ws; auto].
    destruct (N.eq_dec w0 w) as [->|Hne].
    + rewrite Hw in E0. injection E0 as <-. rewrite Hc in G. discriminate.
    + exists ws. rewrite Hother; auto.
  - destruct (waiter s w0) as [ws0|] eqn:E0; [|exists ws; auto].
    destruct (N.eq_dec w0 w) as [->|Hne].
    + rewrite Hw in E0. injection E0 as <-. rewrite Hc in G. discriminate.
    + exists ws. rewrite Hother; auto.
  - destruct (waiter s w0) as [ws0|] eqn:E0; [|exists ws; auto].
    destruct (N.eq_dec w0 w) as [->|Hne].
    + rewrite Hw in E0. injection E0 as <-. rewrite Hc in G. discriminate.
    + exists ws. cbn. rewrite upd_other; auto.
  - destruct (N.eqb x0 0); exists ws; cbn; auto.
Qed.

Lemma run_lift :
  forall (P : state -> Prop), (forall s l s', step s l = Some s' -> P s -> P s') ->
    forall tr s s', run s tr = Some s' -> P s -> P s'.
Proof.
  intros P Hstep. induction tr as [|l tr IH]; cbn; intros s s' Hr Hp.
  - injection Hr as <-. assumption.
  - destruct (step s l) as [s1|] eqn:Es; [|discriminate]. eapply IH; eauto.
Qed.

Lemma run_done_mono : forall tr s s' t, run s tr = Some s' -> done s t = true -> done s' t = true.
Proof. intros tr s s' t. apply (run_lift (fun s => done s t = true)). intros. eapply step_done_mono; eauto. Qed.

Lemma run_built_mono : forall tr s s' f, run s tr = Some s' -> built s f = true -> built s' f = true.
Proof. intros tr s s' f. apply (run_lift (fun s => built s f = true)). intros. eapply step_built_mono; eauto. Qed.

Lemma run_returned : forall tr s s' w x, run s tr = Some s' -> returned s w x -> returned s' w x.
Proof. intros tr s s' w x. apply (run_lift (fun s => returned s w x)). intros. eapply step_returned; eauto. Qed.

Lemma run_edges_frozen : forall tr s s' t, run s tr = Some s' -> done s t = true -> edges s' t = edges s t.
Proof.
  induction tr as [|l tr IH]; cbn; intros s s' t Hr Hd.
  - injection Hr as <-. reflexivity.
  - destruct (step s l) as [s1|] eqn:Es; [|discriminate].
    rewrite (IH s1 s' t Hr (step_done_mono _ _ _ _ Es Hd)). eapply step_edges_frozen; eauto.
Qed.

(* what a closed-and-done task reaches never changes afterwards *)
Lemma closure_frozen :
  forall tr s s' x, run s tr = Some s' -> closed_done s x -> forall y, reach s' x y -> reach s x y.
Proof.
  intros tr s s' x Hr Hc y R. revert Hc. induction R as [x | x a y Ha R IH]; intros Hc; [constructor|].
  rewrite (run_edges_frozen _ _ _ x Hr (Hc x (reach_refl _ _))) in Ha.
  eapply reach_step; [exact Ha|]. apply IH. eapply closed_done_succ; [exact Hc|].
  eapply reach_step; [exact Ha | constructor].
Qed.

(* ---------- headline statements ---------- *)
Lemma returned_trans : forall s w x, Inv s -> returned s w x -> trans s x = true.
Proof.
  intros s w x HI [ws [Hw [Hc Hr]]]. subst x. apply (wi_closed _ _ (inv_wait _ HI _ _ Hw)). assumption.
Qed.

Theorem wait_closed_any :
  forall tr s w x, run init tr = Some s -> returned s w x -> closed_done s x.
Proof.
  intros tr s w x Hr Hret. pose proof (run_inv _ _ _ init_inv Hr) as HI.
  apply (inv_trans _ HI). eapply returned_trans; eauto.
Qed.

(* the statement with the two moments made explicit: s1 = the state in which wait has just returned,
   s2 = any later ("final") state. *)
Theorem wait_closed_final :
  forall tr1 tr2 s1 s2 w x,
    run init tr1 = Some s1 -> returned s1 w x -> run s1 tr2 = Some s2 ->
    forall y, reach s2 x y -> done s1 y = true /\ reach s1 x y.
Proof.
  intros tr1 tr2 s1 s2 w x H1 Hret H2 y R.
  pose proof (wait_closed_any _ _ _ _ H1 Hret) as Hc.
  pose proof (closure_frozen _ _ _ _ H2 Hc y R) as R1. split; [apply Hc|]; assumption.
Qed.

Theorem wait_closed_built_any :
  forall tr s w x, run init tr = Some s -> returned s w x -> closed_built s x.
Proof.
  intros tr s w x Hr Hret y f R Hin. pose proof (run_inv _ _ _ init_inv Hr) as HI.
  apply (inv_fns _ HI f y Hin). eapply wait_closed_any; eauto.
Qed.

Theorem built_once_any :
  forall tr s, run init tr = Some s -> NoDup (map fst (fns s)).
Proof. intros tr s Hr. apply (inv_fns_nodup _ (run_inv _ _ _ init_inv Hr)). Qed.

(* ---------- progress ---------- *)
Lemma inclb_refl : forall l, inclb l l = true.
Proof. intros. apply inclb_incl. apply incl_refl. Qed.

Theorem wait_progress_any :
  forall tr s w ws, run init tr = Some s -> waiter s w = Some ws -> w_closed ws = false ->
    (forall u, pending ws u = true -> done s u = true -> guard s (LWaitObserve w u (edges s u)) = true) /\
    ((forall u, pending ws u = false) -> guard s (LWaitClosed w (w_root ws)) = true).
Proof.
  intros tr s w ws Hr Hw Hc. split.
  - intros u Hp Hd. cbn. rewrite Hw, Hc, Hp, Hd, inclb_refl. reflexivity.
  - intros Hn. cbn. rewrite Hw, Hc, N.eqb_refl. cbn. apply inclb_incl. intros u Hu.
    specialize (Hn u). unfold pending in Hn. apply memb_In in Hu. rewrite Hu in Hn. cbn in Hn.
    apply negb_false_iff in Hn. apply memb_In. assumption.
Qed.

(* the work list has no duplicates and only holds tasks reachable from the root, and each task is
   processed once, so the number of loop iterations of one wait is bounded by the number of reachable tasks *)
Theorem wait_work_bounded_any :
  forall tr s w ws univ, run init tr = Some s -> waiter s w = Some ws ->
    (forall u, reach s (w_root ws) u -> In u univ) ->
    length (w_seen ws) <= length (w_work ws) /\ length (w_work ws) <= length univ.
Proof.
  intros tr s w ws univ Hr Hw Hu. pose proof (run_inv _ _ _ init_inv Hr) as HI.
  pose proof (inv_wait _ HI _ _ Hw) as HW. split.
  - apply NoDup_incl_length; [apply (wi_seen_nodup _ _ HW) | apply (wi_sub _ _ HW)].
  - apply NoDup_incl_length; [apply (wi_nodup _ _ HW)|]. intros u Hin. apply Hu. apply (wi_reach _ _ HW). assumption.
Qed.
