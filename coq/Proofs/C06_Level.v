(* C06: invariants of one scheduler level, for every execution (induction over transition sequences).
   A ghost component (the stage of every action and the multiset of decrements still owed to every
   pending counter) is carried along the base machine of Model/C06.v; it never restricts a step. *)
From Coq Require Import List Arith Bool Lia PeanoNat.
Import ListNotations.
Require Import Verif.Model.C06_Map Verif.Model.C06 Verif.Proofs.C06_Base.

Inductive stage := SWait | SSeed | SSlot (a : nat) | SQueue | SHeld | SThread.
Record ghost := mkgh { owe : nat -> list nat; stg : nat -> stage }.
Definition upd {A} (f : nat -> A) (a : nat) (v : A) : nat -> A := fun x => if x =? a then v else f x.

Lemma upd_same : forall A (f : nat -> A) a v, upd f a v a = v.
Proof. intros. unfold upd. rewrite Nat.eqb_refl. reflexivity. Qed.
Lemma upd_other : forall A (f : nat -> A) a v x, x <> a -> upd f a v x = f x.
Proof. intros. unfold upd. destruct (Nat.eqb_spec x a); congruence. Qed.

Section LevelProofs.
Variable R : Type.
Variables (top strict : bool) (G : dag).
Hypothesis WF : wf_dag G.

Notation lstate := (lstate R).
Notation label := (label R).
Notation step := (step top strict G).

Definition ghost0 : ghost :=
  mkgh (deps G) (fun b => if memb b (nodes G) && nilb (deps G b) then SSeed else SWait).

Definition ghost_step (s : lstate) (g : ghost) (e : label) : ghost :=
  match e with
  | ESeed b => mkgh (owe g) (upd (stg g) b SQueue)
  | EDeq b => mkgh (owe g) (upd (stg g) b SHeld)
  | ESpawn b | EInline b => mkgh (owe g) (upd (stg g) b SThread)
  | EDec a b => mkgh (upd (owe g) b (rm1 a (owe g b))) (if get (pend s) b =? 1 then upd (stg g) b (SSlot a) else stg g)
  | EEnq a b => mkgh (owe g) (upd (stg g) b SQueue)
  | _ => g
  end.

(* decrements of b's counter that a's handler has not performed yet *)
Definition tsof (p : hphase) (a : nat) : list nat := match p with HTrig ts | HSend _ ts => ts | _ => trig G a end.
Definition remT (m : fmap (option thread)) (a b : nat) : nat :=
  countb b (match get m a with Some t => tsof (hph t) a | None => trig G a end).
Definition rem (s : lstate) (a b : nat) : nat := remT (th s) a b.

Definition prerel (p : hphase) : bool := match p with HFresh | HRun _ | HEnded => true | _ => false end.

Record Inv (s : lstate) (g : ghost) : Prop := mkInv {
  i_seed : forall b, countb b (seedl s) = match stg g b with SSeed => 1 | _ => 0 end;
  i_queue : forall b, cntq b (queue s) = match stg g b with SQueue => 1 | _ => 0 end;
  i_main : forall b, mainp s = MHave b <-> stg g b = SHeld;
  i_th : forall b, get (th s) b <> None <-> stg g b = SThread;
  i_slot : forall a b, stg g b = SSlot a <-> exists t ts, get (th s) a = Some t /\ hph t = HSend b ts;
  i_wait : forall b, In b (alln G) -> (stg g b = SWait <-> 0 < get (pend s) b);
  i_out : forall b, ~ In b (alln G) -> stg g b = SWait;
  i_bad : bad s = false;
  i_pend : forall b, In b (alln G) -> get (pend s) b = length (owe g b);
  i_owe : forall a b, In a (alln G) -> In b (alln G) -> countb a (owe g b) = rem s a b;
  i_owed : forall a b, In a (owe g b) -> In a (deps G b);
  i_dn : forall a t, get (th s) a = Some t -> get (dn s) a = negb (match hph t with HFresh | HRun _ => true | _ => false end);
  i_dn0 : forall a, get (th s) a = None -> get (dn s) a = false;
  i_ts : forall a t, get (th s) a = Some t -> match hph t with HTrig ts | HSend _ ts => incl ts (trig G a) | _ => True end;
  i_root : forall t, get (th s) (root G) = Some t -> match hph t with HRun _ => False | _ => True end;
  i_deps : forall b, In b (alln G) -> stg g b <> SWait -> forall d, In d (deps G b) -> get (dn s) d = true;
  i_busy : forall a, mainp s = MBusy a -> exists t, get (th s) a = Some t;
  i_top : top = true -> forall a, mainp s <> MBusy a;
  i_closed : closed s = get (dn s) (root G);
  i_sem : forall a t, get (th s) a = Some t -> hph t = HEnded -> hsem t = true;
  i_seedleaf : forall b, stg g b = SSeed -> b <> root G }.

Lemma countb_filter : forall (f : nat -> bool) b l, NoDup l -> countb b (filter f l) = if memb b l && f b then 1 else 0.
Proof.
  intros f b l H. rewrite countb_NoDup by (apply NoDup_filter; assumption).
  destruct (memb b (filter f l)) eqn:E.
  - apply memb_In in E. apply filter_In in E. destruct E as [E1 E2]. apply memb_In in E1. rewrite E1, E2. reflexivity.
  - destruct (memb b l) eqn:E1; simpl; auto. destruct (f b) eqn:E2; auto.
    apply memb_false in E. exfalso. apply E. apply filter_In. split; auto. apply memb_In. assumption.
Qed.

Lemma Inv_init : Inv (init G) ghost0.
Proof.
  constructor; unfold init, ghost0; simpl; intros; rewrite ?get_const in *.
  - (* seed *) rewrite countb_filter by apply (wf_nodup G WF). destruct (memb b (nodes G) && nilb (deps G b)); reflexivity.
  - (* queue *) destruct (memb b (nodes G) && nilb (deps G b)); reflexivity.
  - (* main *) split; intros; try discriminate. destruct (memb b (nodes G) && nilb (deps G b)); discriminate.
  - (* th *) split; intros; try congruence. destruct (memb b (nodes G) && nilb (deps G b)); discriminate.
  - (* slot *) split; intros.
    + destruct (memb b (nodes G) && nilb (deps G b)); discriminate.
    + destruct H as [t [ts [H _]]]. rewrite ?get_const in H. discriminate.
  - (* wait *) rewrite (wf_pend G WF b H).
    destruct (alln_cases G WF b H) as [E | [E1 E2]].
    + subst. pose proof (wf_root G WF) as Hr. apply memb_false in Hr. rewrite Hr. simpl.
      pose proof (wf_rne G WF). destruct (deps G (root G)); simpl; try congruence. split; intros; [lia | reflexivity].
    + apply memb_In in E1. rewrite E1. simpl. destruct (deps G b); simpl; split; intros; try lia; try discriminate; auto.
  - (* out *) assert (memb b (nodes G) = false). { apply memb_false. intro. apply H. right. assumption. }
    rewrite H0. reflexivity.
  - (* bad *) reflexivity.
  - (* pend *) apply wf_pend; assumption.
  - (* owe *) unfold rem, remT. simpl. rewrite get_const. symmetry. apply wf_inv; assumption.
  - (* owed *) assumption.
  - (* dn *) discriminate.
  - (* dn0 *) reflexivity.
  - (* ts *) discriminate.
  - (* root *) discriminate.
  - (* deps *) destruct (memb b (nodes G) && nilb (deps G b)) eqn:E; try congruence.
    apply andb_true_iff in E. destruct E as [_ E]. apply nilb_nil in E. rewrite E in H1. contradiction.
  - (* busy *) discriminate.
  - (* top *) discriminate.
  - (* closed *) reflexivity.
  - (* sem *) discriminate.
  - (* seedleaf *) destruct (memb b (nodes G) && nilb (deps G b)) eqn:E; try discriminate.
    apply andb_true_iff in E. destruct E as [E _]. apply memb_In in E. intro. subst. apply (wf_root G WF). assumption.
Qed.

(* A thread exists only for actions of the graph. *)
Lemma th_alln : forall s g, Inv s g -> forall a t, get (th s) a = Some t -> In a (alln G).
Proof.
  intros s g I a t H. destruct (in_dec Nat.eq_dec a (alln G)); auto.
  pose proof (i_out s g I a n). assert (get (th s) a <> None) by congruence. apply (i_th s g I) in H1. congruence.
Qed.

Lemma th_stage : forall s g, Inv s g -> forall a t, get (th s) a = Some t -> stg g a = SThread.
Proof. intros. apply (i_th s g H). congruence. Qed.

Ltac gsimp :=
  repeat match goal with
  | |- context [get (set _ ?a _) ?a] => rewrite gss
  | H : context [get (set _ ?a _) ?a] |- _ => rewrite gss in H
  | N : ?a <> ?b |- context [get (set _ ?a _) ?b] => rewrite (gso _ _ a b _ N)
  | N : ?b <> ?a |- context [get (set _ ?a _) ?b] => rewrite (gso _ _ a b _ (not_eq_sym N))
  | N : ?a <> ?b, H : context [get (set _ ?a _) ?b] |- _ => rewrite (gso _ _ a b _ N) in H
  | N : ?b <> ?a, H : context [get (set _ ?a _) ?b] |- _ => rewrite (gso _ _ a b _ (not_eq_sym N)) in H
  | |- context [upd _ ?a _ ?a] => rewrite upd_same
  | H : context [upd _ ?a _ ?a] |- _ => rewrite upd_same in H
  | N : ?x <> ?a |- context [upd _ ?a _ ?x] => rewrite (upd_other _ _ a _ x N)
  | N : ?a <> ?x |- context [upd _ ?a _ ?x] => rewrite (upd_other _ _ a _ x (not_eq_sym N))
  | N : ?x <> ?a, H : context [upd _ ?a _ ?x] |- _ => rewrite (upd_other _ _ a _ x N) in H
  | N : ?a <> ?x, H : context [upd _ ?a _ ?x] |- _ => rewrite (upd_other _ _ a _ x (not_eq_sym N)) in H
  end.

Ltac destr_step H :=
  unfold C06.step in H;
  repeat match type of H with
  | context [match ?x with _ => _ end] => destruct x eqn:?; try discriminate
  end;
  inversion H; subst; clear H.

Ltac psimpl := cbn [pend seedl queue closed mainp th res failed dn bad owe stg new_thread set_phase set_thread ghost_step] in *.
Ltac cases x b := destruct (Nat.eq_dec x b) as [?Heq | ?Hne]; [subst x |].

Ltac eqb_simp :=
  repeat match goal with
  | H : context [?a =? ?a] |- _ => rewrite Nat.eqb_refl in H
  | |- context [?a =? ?a] => rewrite Nat.eqb_refl
  | N : ?a <> ?b, H : context [?a =? ?b] |- _ => rewrite (proj2 (Nat.eqb_neq a b) N) in H
  | N : ?a <> ?b |- context [?a =? ?b] => rewrite (proj2 (Nat.eqb_neq a b) N)
  | N : ?b <> ?a, H : context [?a =? ?b] |- _ => rewrite (proj2 (Nat.eqb_neq a b) (not_eq_sym N)) in H
  | N : ?b <> ?a |- context [?a =? ?b] => rewrite (proj2 (Nat.eqb_neq a b) (not_eq_sym N))
  end.

(* facts of the old invariant about one action *)
Ltac olds I x :=
  pose proof (i_seed _ _ I x); pose proof (i_queue _ _ I x); pose proof (i_main _ _ I x); pose proof (i_th _ _ I x);
  pose proof (fun a => i_slot _ _ I a x); pose proof (i_wait _ _ I x); pose proof (i_out _ _ I x); pose proof (i_seedleaf _ _ I x).

Lemma Inv_ESeed : forall s g free b s' f', Inv s g -> step s free (ESeed b) = Some (s', f') -> Inv s' (ghost_step s g (ESeed b)).
Proof.
  intros s g free b s' f' I H. destr_step H.
  assert (Hc := remove1_count _ _ _ Heqo).
  assert (Sb : stg g b = SSeed).
  { pose proof (i_seed s g I b). pose proof (Hc b). rewrite Nat.eqb_refl in H0. destruct (stg g b); auto; lia. }
  constructor; simpl; intros.
  - cases b0 b; gsimp; olds I b. 
    + specialize (Hc b). eqb_simp. rewrite Sb in *. lia.
    + specialize (Hc b0). eqb_simp. rewrite <- (i_seed _ _ I b0). lia.
  - rewrite cntq_app. simpl. cases b0 b; gsimp; eqb_simp.
    + pose proof (i_queue _ _ I b). rewrite Sb in *. lia.
    + rewrite <- (i_queue _ _ I b0). lia.
  - cases b0 b; gsimp. 
    + pose proof (i_main _ _ I b). rewrite Sb in *. split; intros; try discriminate. apply H in H0. discriminate.
    + apply (i_main _ _ I).
  - cases b0 b; gsimp.
    + pose proof (i_th _ _ I b). rewrite Sb in *. split; intros; try discriminate. apply H in H0. discriminate.
    + apply (i_th _ _ I).
  - cases b0 b; gsimp.
    + pose proof (i_slot _ _ I a b). rewrite Sb in *. split; intros; try discriminate. apply H in H0. discriminate.
    + apply (i_slot _ _ I).
  - cases b0 b; gsimp.
    + pose proof (i_wait _ _ I b H). rewrite Sb in *. split; intros; try discriminate. apply H0 in H1. discriminate.
    + apply (i_wait _ _ I); assumption.
  - cases b0 b; gsimp.
    + pose proof (i_out _ _ I b H). congruence.
    + apply (i_out _ _ I); assumption.
  - apply (i_bad _ _ I).
  - apply (i_pend _ _ I); assumption.
  - apply (i_owe _ _ I); assumption.
  - eapply (i_owed _ _ I); eassumption.
  - apply (i_dn _ _ I); assumption.
  - apply (i_dn0 _ _ I); assumption.
  - apply (i_ts _ _ I); assumption.
  - apply (i_root _ _ I); assumption.
  - cases b0 b; gsimp.
    + apply (i_deps _ _ I b); auto. congruence.
    + apply (i_deps _ _ I b0); auto.
  - apply (i_busy _ _ I); assumption.
  - apply (i_top _ _ I); assumption.
  - apply (i_closed _ _ I).
  - eapply (i_sem _ _ I); eassumption.
  - cases b0 b; gsimp.
    + apply (i_seedleaf _ _ I). assumption.
    + apply (i_seedleaf _ _ I). assumption.
Qed.

Ltac same I :=
  first [ apply (i_bad _ _ I) | apply (i_closed _ _ I) | (apply (i_pend _ _ I); assumption) | (apply (i_owe _ _ I); assumption)
        | (eapply (i_owed _ _ I); eassumption) | (apply (i_dn _ _ I); assumption) | (apply (i_dn0 _ _ I); assumption)
        | (apply (i_ts _ _ I); assumption) | (apply (i_root _ _ I); assumption) | (apply (i_busy _ _ I); assumption)
        | (apply (i_top _ _ I); assumption) | (eapply (i_sem _ _ I); eassumption) | apply (i_seed _ _ I) | apply (i_queue _ _ I)
        | apply (i_main _ _ I) | apply (i_th _ _ I) | apply (i_slot _ _ I) | (apply (i_wait _ _ I); assumption)
        | (apply (i_out _ _ I); assumption) | (eapply (i_deps _ _ I); eassumption) | (eapply (i_seedleaf _ _ I); eassumption) ].

(* H : X <-> old = C with old <> C syntactically; goal X <-> new = C with new <> C *)
Ltac iff_false H := let Hx := fresh in split; intro Hx; [ apply H in Hx; discriminate Hx | discriminate Hx ].

Ltac iff_false' H := let Hx := fresh in split; intro Hx; [ discriminate Hx | apply H in Hx; discriminate Hx ].

Lemma main_ready_not_have : forall (s : lstate) b, main_ready s = true -> mainp s <> MHave b.
Proof. unfold main_ready. intros. destruct (mainp s); congruence. Qed.

Lemma Inv_EDeq : forall s g free b s' f', Inv s g -> step s free (EDeq b) = Some (s', f') -> Inv s' (ghost_step s g (EDeq b)).
Proof.
  intros s g free b s' f' I H. destr_step H.
  assert (Hc := remove_msg_count _ _ _ Heqo).
  assert (Sb : stg g b = SQueue).
  { pose proof (i_queue s g I b). pose proof (Hc b). rewrite Nat.eqb_refl in H0. destruct (stg g b); auto; lia. }
  apply andb_true_iff in Heqb0. destruct Heqb0 as [Hr _].
  constructor; psimpl; intros; try (same I).
  - cases b0 b; gsimp; [| same I]. rewrite (i_seed _ _ I b), Sb. reflexivity.
  - cases b0 b; gsimp.
    + pose proof (i_queue _ _ I b). specialize (Hc b). eqb_simp. rewrite Sb in *. lia.
    + specialize (Hc b0). eqb_simp. rewrite <- (i_queue _ _ I b0). lia.
  - cases b0 b; gsimp.
    + tauto.
    + split; intros. congruence. apply (i_main _ _ I) in H. exfalso. eapply main_ready_not_have; eauto.
  - cases b0 b; gsimp; [| same I]. pose proof (i_th _ _ I b). rewrite Sb in H. iff_false H.
  - cases b0 b; gsimp; [| same I]. pose proof (i_slot _ _ I a b). rewrite Sb in H. iff_false' H.
  - cases b0 b; gsimp; [| same I]. pose proof (i_wait _ _ I b H). rewrite Sb in H0. iff_false' H0.
  - cases b0 b; gsimp; [| same I]. pose proof (i_out _ _ I b H). congruence.
  - cases b0 b; gsimp; [| same I]. apply (i_deps _ _ I b); auto. congruence.
  - discriminate.
  - discriminate.
  - cases b0 b; gsimp; [| same I]. discriminate.
Qed.

Lemma Inv_spawn : forall s g b sem inl mp (e : label),
  Inv s g -> mainp s = MHave b -> (mp = MIdle \/ (mp = MBusy b /\ top = false)) ->
  (e = ESpawn b \/ e = EInline b) ->
  Inv (new_thread R s b sem inl mp) (ghost_step s g e).
Proof.
  intros s g b sem inl mp e I Hm Hmp He.
  assert (Sb : stg g b = SHeld) by (apply (i_main _ _ I); assumption).
  assert (Tb : get (th s) b = None).
  { destruct (get (th s) b) eqn:E; auto. assert (get (th s) b <> None) by congruence. apply (i_th _ _ I) in H. congruence. }
  assert (Eg : ghost_step s g e = mkgh (owe g) (upd (stg g) b SThread)) by (destruct He; subst; reflexivity).
  rewrite Eg. clear Eg He.
  constructor; psimpl; intros; try (same I).
  - cases b0 b; gsimp; [| same I]. rewrite (i_seed _ _ I b), Sb. reflexivity.
  - cases b0 b; gsimp; [| same I]. rewrite (i_queue _ _ I b), Sb. reflexivity.
  - assert (forall x, mp <> MHave x) by (destruct Hmp as [-> | [-> _]]; congruence).
    cases b0 b; gsimp.
    + split; intros; try discriminate. exfalso. eapply H; eauto.
    + split; intros. exfalso. eapply H; eauto. apply (i_main _ _ I) in H0. congruence.
  - cases b0 b; gsimp; [| same I]. split; intros; congruence.
  - cases b0 b; gsimp.
    + split; intros; try discriminate. destruct H as [t [ts [H1 H2]]]. cases a b; gsimp.
      * inversion H1; subst. discriminate.
      * assert (stg g b = SSlot a) by (apply (i_slot _ _ I); eauto). congruence.
    + cases a b; gsimp; [| same I]. split; intros.
      * apply (i_slot _ _ I) in H. destruct H as [t [ts [H1 H2]]]. congruence.
      * destruct H as [t [ts [H1 H2]]]. inversion H1; subst. discriminate.
  - cases b0 b; gsimp; [| same I]. pose proof (i_wait _ _ I b H). rewrite Sb in H0. iff_false' H0.
  - cases b0 b; gsimp; [| same I]. pose proof (i_out _ _ I b H). congruence.
  - rewrite Tb, (i_bad _ _ I). reflexivity.
  - rewrite (i_owe _ _ I a b0 H H0). unfold rem, remT. psimpl. cases a b; gsimp; [| reflexivity]. rewrite Tb. reflexivity.
  - cases a b; gsimp; [| same I]. inversion H; subst. simpl. apply (i_dn0 _ _ I). assumption.
  - cases a b; gsimp; [| same I]. discriminate.
  - cases a b; gsimp; [| same I]. inversion H; subst. simpl. trivial.
  - cases b (root G); gsimp; [| same I]. inversion H; subst. simpl. trivial.
  - cases b0 b; gsimp; [| same I]. apply (i_deps _ _ I b); auto. congruence.
  - destruct Hmp as [-> | [-> _]]; try discriminate. inversion H; subst. gsimp. eauto.
  - destruct Hmp as [-> | [-> Ht]]; congruence.
  - cases a b; gsimp; [| same I]. inversion H; subst. discriminate.
  - cases b0 b; gsimp; [| same I]. discriminate.
Qed.

Ltac bsplit :=
  repeat match goal with
  | H : _ && _ = true |- _ => apply andb_true_iff in H; destruct H
  | H : (_ =? _) = true |- _ => apply Nat.eqb_eq in H; try subst
  | H : negb _ = true |- _ => apply negb_true_iff in H
  | H : negb _ = false |- _ => apply negb_false_iff in H
  | H : _ || _ = false |- _ => apply orb_false_iff in H; destruct H
  end.

Lemma Inv_ESpawn : forall s g free b s' f', Inv s g -> step s free (ESpawn b) = Some (s', f') -> Inv s' (ghost_step s g (ESpawn b)).
Proof.
  intros s g free b s' f' I H. destr_step H. bsplit. eapply Inv_spawn; eauto.
Qed.

Lemma Inv_EInline : forall s g free b s' f', Inv s g -> step s free (EInline b) = Some (s', f') -> Inv s' (ghost_step s g (EInline b)).
Proof.
  intros s g free b s' f' I H. destr_step H. bsplit. eapply Inv_spawn; eauto.
Qed.

(* ---- a handler moves from one phase to the next ---- *)
Section Phase.
Variables (s : lstate) (g : ghost) (a : nat) (t : thread) (p' : hphase).
Hypothesis I : Inv s g.
Hypothesis Ht : get (th s) a = Some t.
Let th' := set (th s) a (Some (mkth p' (hsem t) (hinl t))).

Lemma ph_th : forall b, get th' b <> None <-> stg g b = SThread.
Proof.
  intros. unfold th'. cases b a; gsimp; [| same I]. split; intros; try congruence. eapply th_stage; eauto.
Qed.

Lemma ph_slot : (forall b ts, hph t <> HSend b ts) -> (forall b ts, p' <> HSend b ts) ->
  forall a0 b, stg g b = SSlot a0 <-> exists t0 ts, get th' a0 = Some t0 /\ hph t0 = HSend b ts.
Proof.
  intros N1 N2 a0 b. unfold th'. cases a0 a; gsimp; [| same I]. split; intros.
  - apply (i_slot _ _ I) in H. destruct H as [t0 [ts [H1 H2]]]. rewrite Ht in H1. inversion H1; subst. exfalso. eapply N1; eauto.
  - destruct H as [t0 [ts [H1 H2]]]. inversion H1; subst. simpl in H2. exfalso. eapply N2; eauto.
Qed.

Lemma ph_rem : (forall b, countb b (tsof p' a) = countb b (tsof (hph t) a)) -> forall a0 b, remT th' a0 b = remT (th s) a0 b.
Proof.
  intros E a0 b. unfold remT, th'. cases a0 a; gsimp; [| reflexivity]. rewrite Ht. simpl. apply E.
Qed.

Lemma ph_ts : match p' with HTrig ts | HSend _ ts => incl ts (trig G a) | _ => True end ->
  forall a0 t0, get th' a0 = Some t0 -> match hph t0 with HTrig ts | HSend _ ts => incl ts (trig G a0) | _ => True end.
Proof.
  intros E a0 t0. unfold th'. cases a0 a; gsimp; [| apply (i_ts _ _ I)]. intros H. inversion H; subst. simpl. assumption.
Qed.

Lemma ph_root : (a = root G -> match p' with HRun _ => False | _ => True end) ->
  forall t0, get th' (root G) = Some t0 -> match hph t0 with HRun _ => False | _ => True end.
Proof.
  intros E t0. unfold th'. destruct (Nat.eq_dec a (root G)) as [Ea | Na].
  - rewrite <- Ea. gsimp. intros H. inversion H. simpl. apply E. exact Ea.
  - gsimp. apply (i_root _ _ I).
Qed.

Lemma ph_busy : forall x, mainp s = MBusy x -> exists t0, get th' x = Some t0.
Proof.
  intros x H. unfold th'. cases x a; gsimp; eauto. apply (i_busy _ _ I). assumption.
Qed.

Lemma ph_sem : (p' = HEnded -> hsem t = true) -> forall a0 t0, get th' a0 = Some t0 -> hph t0 = HEnded -> hsem t0 = true.
Proof.
  intros E a0 t0. unfold th'. cases a0 a; gsimp; [| apply (i_sem _ _ I)]. intros H H1. inversion H; subst. simpl in *. auto.
Qed.

(* dn when the handler's own flag becomes v *)
Lemma ph_dn : forall (dn' : fmap bool),
  (forall x, x <> a -> get dn' x = get (dn s) x) ->
  get dn' a = negb (match p' with HFresh | HRun _ => true | _ => false end) ->
  (forall a0 t0, get th' a0 = Some t0 -> get dn' a0 = negb (match hph t0 with HFresh | HRun _ => true | _ => false end))
  /\ (forall a0, get th' a0 = None -> get dn' a0 = false).
Proof.
  intros dn' E1 E2. unfold th'. split; intros a0.
  - intros t0. cases a0 a; gsimp.
    + intros H. inversion H; subst. simpl. assumption.
    + intros H. rewrite E1 by assumption. apply (i_dn _ _ I). assumption.
  - cases a0 a; gsimp. discriminate. intros H. rewrite E1 by assumption. apply (i_dn0 _ _ I). assumption.
Qed.

End Phase.

Lemma Inv_EStart : forall s g free a s' f', Inv s g -> step s free (EStart a) = Some (s', f') -> Inv s' (ghost_step s g (EStart a)).
Proof.
  intros s g free a s' f' I H. destr_step H. bsplit.
  match goal with H : get (th s) a = Some ?t, H' : hph ?t = HFresh |- _ => rename H into Ht; rename H' into Hp end.
  constructor; psimpl; intros; try (same I).
  - eapply ph_th; eauto.
  - eapply ph_slot; eauto; congruence.
  - rewrite (i_owe _ _ I) by assumption. unfold rem. psimpl. symmetry. eapply ph_rem; eauto. rewrite Hp. reflexivity.
  - edestruct (ph_dn s g a t) with (dn' := dn s) as [P1 P2]; [eassumption | reflexivity | | eapply P1; eassumption].
    simpl. rewrite (i_dn _ _ I _ _ Ht), Hp. reflexivity.
  - edestruct (ph_dn s g a t) with (dn' := dn s) as [P1 P2]; [eassumption | reflexivity | | eapply P2; eassumption].
    simpl. rewrite (i_dn _ _ I _ _ Ht), Hp. reflexivity.
  - eapply ph_ts; eauto. simpl. trivial.
  - eapply ph_root; eauto. intros. subst. rewrite Nat.eqb_refl in *. discriminate.
  - eapply ph_busy; eauto.
  - eapply ph_sem; eauto. discriminate.
Qed.

Lemma after_end_cases : forall (t : thread) a,
  (hsem t = true /\ after_end G t a = HEnded) \/ (hsem t = false /\ after_end G t a = HTrig (trig G a)).
Proof. intros. unfold after_end. destruct (hsem t); auto. Qed.

Lemma Inv_EEnd : forall s g free a o s' f', Inv s g -> step s free (EEnd a o) = Some (s', f') -> Inv s' (ghost_step s g (EEnd a o)).
Proof.
  intros s g free a o s' f' I H. destr_step H.
  match goal with H : get (th s) a = Some ?t, H' : hph ?t = HRun _ |- _ => rename H into Ht; rename H' into Hp end.
  assert (Na : a <> root G). { intro. subst. pose proof (i_root _ _ I _ Ht). rewrite Hp in H. assumption. }
  assert (Hae := after_end_cases t a).
  constructor; psimpl; intros; try (same I).
  - eapply ph_th; eauto.
  - eapply ph_slot; eauto; try congruence. intros. destruct Hae as [[_ ->] | [_ ->]]; congruence.
  - rewrite (i_owe _ _ I) by assumption. unfold rem. psimpl. symmetry. eapply ph_rem; eauto. rewrite Hp. intros.
    destruct Hae as [[_ ->] | [_ ->]]; reflexivity.
  - edestruct (ph_dn s g a t) with (dn' := set (dn s) a true) as [P1 P2]; [eassumption | | | eapply P1; eassumption].
    intros; gsimp; reflexivity. gsimp. destruct Hae as [[_ ->] | [_ ->]]; reflexivity.
  - edestruct (ph_dn s g a t) with (dn' := set (dn s) a true) as [P1 P2]; [eassumption | | | eapply P2; eassumption].
    intros; gsimp; reflexivity. gsimp. destruct Hae as [[_ ->] | [_ ->]]; reflexivity.
  - eapply ph_ts; eauto. destruct Hae as [[_ ->] | [_ ->]]; simpl; auto. apply incl_refl.
  - eapply ph_root; eauto. intros. congruence.
  - cases d a; gsimp. reflexivity. eapply (i_deps _ _ I); eauto.
  - eapply ph_busy; eauto.
  - gsimp. apply (i_closed _ _ I).
  - eapply ph_sem; eauto. intros. destruct Hae as [[? _] | [_ E]]; auto. rewrite E in H1. discriminate.
Qed.

Lemma Inv_EClose : forall s g free s' f', Inv s g -> step s free EClose = Some (s', f') -> Inv s' (ghost_step s g EClose).
Proof.
  intros s g free s' f' I H. destr_step H.
  match goal with H : get (th s) (root G) = Some ?t, H' : hph ?t = HFresh |- _ => rename H into Ht; rename H' into Hp end.
  assert (Hae := after_end_cases t (root G)).
  constructor; psimpl; intros; try (same I).
  - eapply ph_th; eauto.
  - eapply ph_slot; eauto; try congruence. intros. destruct Hae as [[_ ->] | [_ ->]]; congruence.
  - rewrite (i_owe _ _ I) by assumption. unfold rem. psimpl. symmetry. eapply ph_rem; eauto. rewrite Hp. intros.
    destruct Hae as [[_ ->] | [_ ->]]; reflexivity.
  - edestruct (ph_dn s g (root G) t) with (dn' := set (dn s) (root G) true) as [P1 P2]; [eassumption | | | eapply P1; eassumption].
    intros; gsimp; reflexivity. gsimp. destruct Hae as [[_ ->] | [_ ->]]; reflexivity.
  - edestruct (ph_dn s g (root G) t) with (dn' := set (dn s) (root G) true) as [P1 P2]; [eassumption | | | eapply P2; eassumption].
    intros; gsimp; reflexivity. gsimp. destruct Hae as [[_ ->] | [_ ->]]; reflexivity.
  - eapply ph_ts; eauto. destruct Hae as [[_ ->] | [_ ->]]; simpl; auto. apply incl_refl.
  - eapply ph_root; eauto. intros. destruct Hae as [[_ ->] | [_ ->]]; simpl; auto.
  - cases d (root G); gsimp. reflexivity. eapply (i_deps _ _ I); eauto.
  - eapply ph_busy; eauto.
  - gsimp. reflexivity.
  - eapply ph_sem; eauto. intros. destruct Hae as [[? _] | [_ E]]; auto. rewrite E in H1. discriminate.
Qed.

Lemma Inv_ERel : forall s g free a s' f', Inv s g -> step s free (ERel a) = Some (s', f') -> Inv s' (ghost_step s g (ERel a)).
Proof.
  intros s g free a s' f' I H. destr_step H.
  match goal with H : get (th s) a = Some ?t, H' : hph ?t = HEnded |- _ => rename H into Ht; rename H' into Hp end.
  constructor; psimpl; intros; try (same I).
  - eapply ph_th; eauto.
  - eapply ph_slot; eauto; congruence.
  - rewrite (i_owe _ _ I) by assumption. unfold rem. psimpl. symmetry. eapply ph_rem; eauto. rewrite Hp. reflexivity.
  - edestruct (ph_dn s g a t) with (dn' := dn s) as [P1 P2]; [eassumption | reflexivity | | eapply P1; eassumption].
    simpl. rewrite (i_dn _ _ I _ _ Ht), Hp. reflexivity.
  - edestruct (ph_dn s g a t) with (dn' := dn s) as [P1 P2]; [eassumption | reflexivity | | eapply P2; eassumption].
    simpl. rewrite (i_dn _ _ I _ _ Ht), Hp. reflexivity.
  - eapply ph_ts; eauto. simpl. apply incl_refl.
  - eapply ph_root; eauto. simpl. trivial.
  - eapply ph_busy; eauto.
  - eapply ph_sem; eauto.
Qed.

Lemma Inv_EExit : forall s g free s' f', Inv s g -> step s free EExit = Some (s', f') -> Inv s' (ghost_step s g EExit).
Proof.
  intros s g free s' f' I H. destr_step H. bsplit.
  constructor; psimpl; intros; try (same I).
  - split; intros; try discriminate. apply (i_main _ _ I) in H2. exfalso. eapply main_ready_not_have; eauto.
  - discriminate.
  - discriminate.
Qed.

Lemma Inv_EEnq : forall s g free a b s' f', Inv s g -> step s free (EEnq a b) = Some (s', f') -> Inv s' (ghost_step s g (EEnq a b)).
Proof.
  intros s g free a b s' f' I H. destr_step H. bsplit.
  match goal with H : get (th s) a = Some ?t, H' : hph ?t = HSend _ ?ts |- _ => rename H into Ht; rename H' into Hp; rename ts into ts0 end.
  assert (Sb : stg g b = SSlot a) by (apply (i_slot _ _ I); eauto).
  constructor; psimpl; intros; try (same I).
  - cases b0 b; gsimp; [| same I]. rewrite (i_seed _ _ I b), Sb. reflexivity.
  - rewrite cntq_app. simpl. cases b0 b; gsimp; eqb_simp.
    + rewrite (i_queue _ _ I b), Sb. reflexivity.
    + rewrite <- (i_queue _ _ I b0). lia.
  - cases b0 b; gsimp; [| same I]. pose proof (i_main _ _ I b). rewrite Sb in H. iff_false H.
  - cases b0 b; gsimp; [| eapply ph_th; eauto].
    pose proof (ph_th s g a t (HTrig ts0) I Ht b). rewrite Sb in H. iff_false H.
  - cases a0 a; gsimp.
    + split; intros.
      * exfalso. cases b0 b; gsimp. discriminate. apply (i_slot _ _ I) in H. destruct H as [t0 [ts [H1 H2]]].
        rewrite Ht in H1. inversion H1; subst. rewrite Hp in H2. inversion H2. congruence.
      * destruct H as [t0 [ts [H1 H2]]]. inversion H1; subst. discriminate.
    + cases b0 b; gsimp; [| same I]. split; intros. discriminate.
      exfalso. apply (i_slot _ _ I) in H. congruence.
  - cases b0 b; gsimp; [| same I]. pose proof (i_wait _ _ I b H). rewrite Sb in H0. iff_false' H0.
  - cases b0 b; gsimp; [| same I]. pose proof (i_out _ _ I b H). congruence.
  - rewrite (i_owe _ _ I) by assumption. unfold rem. psimpl. symmetry. eapply ph_rem; eauto. rewrite Hp. reflexivity.
  - edestruct (ph_dn s g a t) with (dn' := dn s) as [P1 P2]; [eassumption | reflexivity | | eapply P1; eassumption].
    simpl. rewrite (i_dn _ _ I _ _ Ht), Hp. reflexivity.
  - edestruct (ph_dn s g a t) with (dn' := dn s) as [P1 P2]; [eassumption | reflexivity | | eapply P2; eassumption].
    simpl. rewrite (i_dn _ _ I _ _ Ht), Hp. reflexivity.
  - eapply ph_ts; eauto. pose proof (i_ts _ _ I _ _ Ht) as Hx. rewrite Hp in Hx. assumption.
  - eapply ph_root; eauto. simpl. trivial.
  - cases b0 b; gsimp; [| same I]. apply (i_deps _ _ I b); auto. congruence.
  - eapply ph_busy; eauto.
  - eapply ph_sem; eauto. discriminate.
  - cases b0 b; gsimp; [| same I]. discriminate.
Qed.

Lemma remT_set : forall m a t' a0 b,
  remT (set m a (Some t')) a0 b = if a0 =? a then countb b (tsof (hph t') a) else remT m a0 b.
Proof.
  intros. unfold remT. destruct (Nat.eqb_spec a0 a).
  - subst. rewrite gss. reflexivity.
  - rewrite gso by congruence. reflexivity.
Qed.

Lemma Inv_EDec : forall s g free a b s' f', Inv s g -> step s free (EDec a b) = Some (s', f') -> Inv s' (ghost_step s g (EDec a b)).
Proof.
  intros s g free a b s' f' I H. unfold C06.step in H.
  destruct (get (th s) a) as [t |] eqn:Ht; try discriminate.
  destruct (hph t) as [| | | [| b' ts0] |] eqn:Hp; try discriminate.
  destruct ((b' =? b) && negb (blocked top s a)) eqn:Hc; try discriminate.
  inversion H; subst; clear H. bsplit. cbn [ghost_step].
  assert (Ha : In a (alln G)) by (eapply th_alln; eauto).
  assert (Hts : incl (b :: ts0) (trig G a)). { pose proof (i_ts _ _ I _ _ Ht) as Hx. rewrite Hp in Hx. assumption. }
  assert (Hb : In b (alln G)). { eapply (wf_tin G WF); eauto. apply Hts. left. reflexivity. }
  assert (Hrem : rem s a b = S (countb b ts0)). { unfold rem, remT. rewrite Ht, Hp. simpl. rewrite Nat.eqb_refl. reflexivity. }
  assert (Hin : In a (owe g b)). { apply countb_In. rewrite (i_owe _ _ I a b Ha Hb). lia. }
  assert (Hlen := length_rm1 a (owe g b) Hin).
  assert (Hpe := i_pend _ _ I b Hb).
  assert (Swb : stg g b = SWait). { apply (i_wait _ _ I b Hb). lia. }
  assert (Hab : a <> b). { intro. subst. pose proof (th_stage _ _ I _ _ Ht). congruence. }
  remember (if get (pend s) b =? 1 then HSend b ts0 else HTrig ts0) as p' eqn:Ep'.
  assert (Hp'ts : tsof p' a = ts0) by (subst p'; destruct (get (pend s) b =? 1); reflexivity).
  (* the new owe/rem relation *)
  assert (Howe : forall a0 b0, In a0 (alln G) -> In b0 (alln G) ->
            countb a0 (upd (owe g) b (rm1 a (owe g b)) b0) = remT (set (th s) a (Some (mkth p' (hsem t) (hinl t)))) a0 b0).
  { intros a0 b0 Ha0 Hb0. rewrite remT_set. simpl. rewrite Hp'ts.
    cases b0 b; gsimp.
    - rewrite countb_rm1. rewrite (i_owe _ _ I a0 b Ha0 Hb0).
      destruct (Nat.eqb_spec a0 a).
      + subst. rewrite Nat.eqb_refl. rewrite Hrem. lia.
      + eqb_simp. unfold rem. lia.
    - rewrite (i_owe _ _ I a0 b0 Ha0 Hb0). destruct (Nat.eqb_spec a0 a).
      + subst. unfold rem, remT. rewrite Ht, Hp. simpl. eqb_simp. reflexivity.
      + reflexivity. }
  assert (Hnosend : forall x ts, hph t <> HSend x ts) by (intros; rewrite Hp; discriminate).
  destruct (get (pend s) b =? 1) eqn:E1; subst p'.
  - (* last decrement: b gets the slot of a *)
    apply Nat.eqb_eq in E1.
    constructor; psimpl; intros; try (same I).
    + cases b0 b; gsimp; [| same I]. rewrite (i_seed _ _ I b), Swb. reflexivity.
    + cases b0 b; gsimp; [| same I]. rewrite (i_queue _ _ I b), Swb. reflexivity.
    + cases b0 b; gsimp; [| same I]. pose proof (i_main _ _ I b) as Hx. rewrite Swb in Hx. iff_false Hx.
    + cases b0 b; gsimp; [| eapply ph_th; eauto]. pose proof (i_th _ _ I b) as Hx. rewrite Swb in Hx. iff_false Hx.
    + cases b0 b; gsimp.
      * cases a0 a; gsimp.
        -- split; intros; auto. eexists. eexists. split; reflexivity.
        -- split; intros. congruence. exfalso. apply (i_slot _ _ I) in H. congruence.
      * cases a0 a; gsimp; [| same I]. split; intros.
        -- exfalso. apply (i_slot _ _ I) in H. destruct H as [t0 [ts [H1 H2]]]. rewrite Ht in H1. inversion H1; subst. eapply Hnosend; eauto.
        -- destruct H as [t0 [ts [H1 H2]]]. inversion H1; subst. simpl in H2. inversion H2. congruence.
    + cases b0 b; gsimp; [| same I]. split; intros. discriminate. lia.
    + cases b0 b; gsimp; [| same I]. contradiction.
    + cases b0 b; gsimp; [| same I]. lia.
    + apply Howe; assumption.
    + cases b0 b; gsimp; [| same I]. eapply (i_owed _ _ I). eapply rm1_incl; eauto.
    + edestruct (ph_dn s g a t) with (dn' := dn s) as [P1 P2]; [eassumption | reflexivity | | eapply P1; eassumption].
      simpl. rewrite (i_dn _ _ I _ _ Ht), Hp. reflexivity.
    + edestruct (ph_dn s g a t) with (dn' := dn s) as [P1 P2]; [eassumption | reflexivity | | eapply P2; eassumption].
      simpl. rewrite (i_dn _ _ I _ _ Ht), Hp. reflexivity.
    + eapply ph_ts; eauto. simpl. intros x Hx. apply Hts. right. assumption.
    + eapply ph_root; eauto. simpl. trivial.
    + cases b0 b; gsimp; [| same I].
      (* all dependencies of b have decremented, hence have ended *)
      assert (Hd : In d (alln G)) by (right; eapply deps_in_nodes; eauto).
      pose proof (Howe d b Hd Hb) as Hw. gsimp.
      assert (Hnil : rm1 a (owe g b) = []) by (destruct (rm1 a (owe g b)); simpl in *; auto; lia).
      rewrite Hnil in Hw. simpl in Hw.
      assert (Hc : 0 < countb b (trig G d)). { rewrite (wf_inv G WF d b Hd Hb). apply countb_In. assumption. }
      rewrite remT_set in Hw. simpl in Hw. destruct (Nat.eqb_spec d a).
      * subst. rewrite (i_dn _ _ I _ _ Ht), Hp. reflexivity.
      * unfold remT in Hw. destruct (get (th s) d) eqn:Ed; [| lia].
        rewrite (i_dn _ _ I _ _ Ed). destruct (hph t0); simpl in *; try lia; reflexivity.
    + eapply ph_busy; eauto.
    + eapply ph_sem; eauto. discriminate.
    + cases b0 b; gsimp; [| same I]. discriminate.
  - (* not the last decrement *)
    apply Nat.eqb_neq in E1.
    constructor; psimpl; intros; try (same I).
    + eapply ph_th; eauto.
    + eapply ph_slot; eauto; discriminate.
    + cases b0 b; gsimp; [| same I]. split; intros. lia. assumption.
    + cases b0 b; gsimp; [| same I]. lia.
    + apply Howe; assumption.
    + cases b0 b; gsimp; [| same I]. eapply (i_owed _ _ I). eapply rm1_incl; eauto.
    + edestruct (ph_dn s g a t) with (dn' := dn s) as [P1 P2]; [eassumption | reflexivity | | eapply P1; eassumption].
      simpl. rewrite (i_dn _ _ I _ _ Ht), Hp. reflexivity.
    + edestruct (ph_dn s g a t) with (dn' := dn s) as [P1 P2]; [eassumption | reflexivity | | eapply P2; eassumption].
      simpl. rewrite (i_dn _ _ I _ _ Ht), Hp. reflexivity.
    + eapply ph_ts; eauto. simpl. intros x Hx. apply Hts. right. assumption.
    + eapply ph_root; eauto. simpl. trivial.
    + eapply ph_busy; eauto.
    + eapply ph_sem; eauto. discriminate.
Qed.

Theorem Inv_step : forall s g free e s' f', Inv s g -> step s free e = Some (s', f') -> Inv s' (ghost_step s g e).
Proof.
  intros. destruct e.
  - eapply Inv_ESeed; eauto.
  - eapply Inv_EDeq; eauto.
  - eapply Inv_ESpawn; eauto.
  - eapply Inv_EInline; eauto.
  - eapply Inv_EStart; eauto.
  - eapply Inv_EEnd; eauto.
  - eapply Inv_ERel; eauto.
  - eapply Inv_EDec; eauto.
  - eapply Inv_EEnq; eauto.
  - eapply Inv_EClose; eauto.
  - eapply Inv_EExit; eauto.
Qed.

End LevelProofs.
